#!/usr/bin/env python3
"""Regenerates MANIFEST.json from the table below (keeps it valid at all times)."""
import json, os
ROOT = os.path.dirname(os.path.abspath(__file__))
ALL = ["C%02d" % i for i in range(1, 21)]

CLAIMS = {
 "C20": dict(
   engine="tiered+qcache",
   technique="Lean 4 proof (invariant by induction over all op sequences) + differential correspondence model vs real code",
   text="Theorems C20_doc_cache_bound, C20_hot_tier_bound, C20_query_cache_bound (plus C20_doc_cache_ids_unique, "
        "C20_query_cache_keys_unique: one entry per id / key, so the bounds count distinct documents / queries): for every operation sequence "
        "(any length, any oracle inputs) the Lean models of VectorCache/LruIndex/cache strategies, HotTier+TieredEngine "
        "insert/drain and QueryHashCache stay within capacity / hard limit. The models are tied to the current source on "
        "every run by running the same op histories through the real TieredEngine/QueryHashCache and the compiled model "
        "and diffing outputs (sizes and key sets after every op), plus a direct bound oracle on the implementation.",
   note="Trusted: Lean kernel (+propext, Classical.choice, Quot.sound), hand-written model validated by correspondence, "
        "harness/canonicaliser. Oracle inputs (normalised bits, admission bits, similarity order) are quantified over in "
        "the theorems. Known finding: A/B splitter holds 2x capacity (benchmark mode).",
   design="§3 C20"),
 "C04": dict(
   engine="tiered",
   technique="Lean 4 proof (refinement to an abstract map; reads correct for arbitrary cache contents) + differential correspondence",
   text="Theorems C04_query, C04_doc_with_meta, C04_embedding_cache_aware, C04_metadata_exists, C04_bulk_query: in ANY state "
        "(arbitrary, stale, corrupted or foreign L1a/hot-tier entries, any admission decision) every read flavour returns exactly "
        "the canonical store's record and leaves the store unchanged; C04_writes_refine / C04_history: over any admissible "
        "operation sequence the canonical store equals the fold of the write API's map semantics (drains, emergency evictions, "
        "audits and refused writes change nothing). Tie: the same histories (incl. adversarial plants through insert_cached / "
        "hot_tier().insert_with_coherence) run through the real TieredEngine and the compiled model, outputs diffed op by op; "
        "plus a last-successful-write oracle on the implementation.",
   note="Assumes the payload digest is injective (named hypothesis), circuit breakers closed, sequential histories. Trusted: "
        "Lean kernel, hand model validated by correspondence, harness.",
   design="§3 C04"),
 "C11": dict(
   engine="store+tiered",
   technique="Lean 4 proof (index invariant by induction over store ops; filter compile correctness by mutual structural induction over all filter trees) + differential correspondence",
   text="Theorems C11_orderedKey_strictMono (IEEE order vs the BTreeMap key, all non-NaN bit patterns), C11_orderedKey_fits "
        "(the Nat model of the u64 key stays below 2^64 for every input), C11_compile_correct "
        "and C11_ids_exact (for EVERY filter tree - exact/in/range with any bound/and/or/not, any depth, empty forms - the "
        "inverted-index evaluation selects exactly the live documents whose metadata satisfies metadata_filter::matches), "
        "C11_reachable (the store invariant holds after any sequence of inserts, overwrites, metadata updates, deletes, "
        "batch deletes, tombstone compactions), C11_filtered_delete_exact (engine-level filtered delete removes exactly the "
        "documents whose canonical metadata matches). Tie: real ids_for_metadata_filter vs real scan(matches) vs the model on "
        "~18k generated filters per quick run over stores with the property's value classes; tiered histories with "
        "batch_delete_by_metadata_filter. One genuine defect found and repaired (fix: a9c821f).",
   note="str::parse::<f64> is an oracle input (observed bits); IEEE comparison modelled on bit patterns; bitmaps/maps modelled as "
        "sets. Trusted: Lean kernel, hand model validated by correspondence, harness.",
   design="§3 C11"),
 "C01": dict(
   engine="persist+periodic",
   technique="Lean 4 proof (disk invariant preserved by every logical action of every operation => every kill point recovers; periodic-fsync protocol: every power-loss outcome is a prefix of the acknowledged history covering everything older than one interval) + kill-point and power-loss enumeration against the real recover + correspondence of the periodic protocol model with the real engine under a virtual clock (timer calls extracted from source)",
   text="Theorem C01_kill_point: after ANY history (inserts, overwrites, deletes, metadata updates, manual/automatic snapshots, "
        "rotation, segment compaction, restarts), killing the process after ANY prefix of the next operation's file-system actions "
        "(start-up included) leaves a directory whose strict recovery succeeds and yields the acknowledged documents or those plus "
        "the in-flight operation. C01_kill_point_batch_partial + C01_batch_not_atomic_witness: batch deletes recover to a prefix of "
        "the batch (known finding). Tie: the harness logs every libc file-system effect of the real backend, materialises the "
        "directory at every effect boundary and at torn prefixes of frame writes (~12k kill points per quick run), runs the real "
        "strict recover on each and compares with the model's recovery of the corresponding action prefix; oracle = acked / "
        "acked+in-flight. POWER LOSS (fsync-every-write): at the same instants, in a third of the histories, every directory a power "
        "failure may leave (per file the bytes of its last fsync or all, every prefix of the un-synced directory changes; ~5.5k "
        "directories per quick run) is recovered by the real code under the same oracle, and theorem C01_power_loss_point lifts "
        "C01_kill_point to every directory that differs from a kill-point directory only in files the MANIFEST does not reference "
        "(hypothesis SameReferenced; checked on the run: the referenced view of every real power-loss directory is the view of a "
        "model action prefix). PERIODIC clause: the calls the server's "
        "periodic task makes are extracted from kyrodb_server.rs on every run (translators/xlate_timer.py) and replayed under a "
        "virtual clock on an engine with FsyncPolicy::Periodic; every power-loss directory must contain every operation acknowledged "
        "more than one interval earlier; the same op lines run through the protocol model Persist/Periodic.lean (theorems "
        "C01_periodic_outcome_is_covering_prefix, C01_periodic_old_acks_survive, witness "
        "C01_periodic_unsynced_outgoing_segment_loses_old_ack): acknowledgements equal, every real power-loss outcome a model "
        "outcome, the model's synced-only outcome among the real ones. Three genuine defects found and repaired (fixes 89a0367, "
        "be0c955, c353f41).",
   note="Proved for the process-kill model at logical-action granularity; torn-frame invisibility and atomic publication are "
        "byte/OS-level facts validated by the enumeration. Power loss under fsync-every-write: a theorem under the hypothesis that a "
        "power failure only affects unreferenced files beyond a kill point; that hypothesis is validated by enumeration over generated "
        "histories with the harness's model of un-synced bytes and directory entries (whole-file granularity for un-synced bytes); the periodic protocol model covers rotation off / "
        "after every write and restarts, not byte-threshold rotation or snapshots (oracle only there). Trusted: Lean kernel, hand model "
        "validated by correspondence, FS shim, timer translator (fails closed on an unknown engine call).",
   design="§3 C01"),
 "C02": dict(
   engine="persist",
   technique="Lean 4 proof (engine/disk invariant by induction over histories; recover_of_DInv) + differential correspondence",
   text="Theorems C02_restart_lossless, C02_history, C02_recover_eq_live, C02_consecutive_restarts (any n restarts in a row keep exactly the live documents): for every configuration and every history of any length "
        "(incl. any number/placement of restarts) strict recovery of the data directory succeeds and yields exactly the live "
        "documents, and the restarted engine satisfies the same invariant again. Tie: the same histories run through the real "
        "HnswBackend (with persistence, under the FS shim) and the model; results, recognised action sequences, on-disk listings "
        "(MANIFEST, segments with entry sequence numbers, snapshots) and censuses are compared op by op; oracle = census after "
        "every restart equals the fold of acknowledged operations (vector bits compared as u32).",
   note="Store abstracted to a document map + slot count (slot-level store is C11's model); normalisation/validator verdicts and "
        "frame lengths are oracle inputs. Trusted: Lean kernel, hand model validated by correspondence, FS shim.",
   design="§3 C02"),
 "C03": dict(
   engine="persist",
   technique="Lean 4 proof (refusals happen before any action; ack implies recoverable) + correspondence with kill-point recovery + fault enumeration",
   text="Theorems C03_refused_insert_noop, C03_refused_others_noop, C03_failed_write_changes_nothing (a write that returns "
        "rejected/full/err issues no file-system action and leaves live and recovered documents unchanged, after any history), "
        "C03_ack_implies_recoverable; the excluded path (index refusal after the log append) is kept as IndexRejectStatement with "
        "a witness. Tie: histories with every invalid-input class; after every op the real strict recover runs on the "
        "materialised directory. One genuine defect found and repaired (fix d09e19e).",
   note="Input-refusal half proved; storage-fault half (ENOSPC/EIO/short writes/failed rollback) decided by fault enumeration "
        "against the implementation, not by a theorem. Trusted: Lean kernel, hand model, FS shim.",
   design="§3 C03"),
 "C18": dict(
   engine="config",
   technique="Lean 4 proof about a model REGENERATED from config.rs by a translator on every run + cross-product correspondence against the real loader",
   text="translators/xlate_config.py parses the body of KyroDbConfig::validate in the current source (let/ensure!/bail!/if/if-let, "
        "&& || ! matches! comparisons) into lean/KyroModel/Config/Generated.lean: validate : Atoms -> Bool with named safety atoms "
        "and opaque atoms for everything else. Theorem C18_validate_sound: validate a = true -> Safe a, for ALL values of every "
        "other setting, re-proved against the regenerated definition on every run; C18_unknown_environment_rejected; "
        "C18_loopback_literals; the refusals stated outright per clause (C18_durability_refused, C18_pilot_exposure_refused, "
        "C18_production_open_bind_refused) and C18_benchmark_ignores_durability (benchmark is the only escape). Second tie: ~9.4k rows (quick; exhaustive in thorough) of the cross product x delivery (TOML, YAML, "
        "env overrides on a safe base file, env only) through the real KyroDbConfig::load; oracle accept => Safe(row); generated "
        "model vs loader row by row. The observability listener's bind host is a dimension too (rows on the exposure boundary get "
        "every delivery route and every such host). The REAL kyrodb_server binary is started on the files of a sample of rejected rows "
        "(must exit non-zero) and of accepted controls.",
   note="Trusted: Lean kernel, the translator (fails closed, cross-checked by the correspondence), the hand-written Safe predicate. "
        "Not modelled: serde/config-crate parsing, the normalisation chain of is_loopback_host (host table vs python classification).",
   design="§3 C18"),
 "C19": dict(
   engine="ratelimit+conc",
   technique="Lean 4 proof (conservation law of the token bucket by a transitive relation over any call sequence, for the global and - after the fix - the tenant bucket under every interleaving) + correspondence under a virtual clock + controlled-scheduler exploration of concurrent callers",
   text="Theorems C19_bucket_bound / C19_window_bound (from ANY capped bucket state, any sequence of try_consume calls at monotone "
        "clock readings admits <= burst + rate*elapsed, over any window), C19_global_all_schedules (the never-refunded, mutex-"
        "protected global bucket obeys it under every interleaving), checkLimit_tenant_rel (sequential check_limit incl. the "
        "refund path), C19_refund_restores, C19_no_spurious_refusal, C19_admitted_after_wait (from any bucket state, once (now-last)*rate >= one token the next call is admitted), C19_tenant_all_schedules (the tenant bucket, locked from consume to "
        "refund, sees atomic calls at monotone readings whatever the global bucket answers) and C19_prefix_refund_window (the "
        "pre-fix protocol admits burst+1 at one instant), C19_first_use_one_bucket + C19_first_use_private_buckets_exceed_burst "
        "(concurrent first requests of a tenant). Tie: the real RateLimiter runs under a "
        "virtual CLOCK_MONOTONIC (in-binary interposition) on generated call patterns; decisions, clock-read counts and available "
        "tokens are compared with the exact-arithmetic model; window oracle and reference-bucket oracle (refused => nothing consumed, "
        "not refused while budget remains) on the implementation. Concurrent callers: 2-3 threads on the real RateLimiter under the "
        "controlled scheduler with the virtual clock moved by scheduled `adv` operations; every window of every history within "
        "burst + rate*dt. One defect found and repaired (fix 78e4fe2).",
   note="Exact integer arithmetic in the model vs f64 in the code: a case stops being compared at a decision within 10 nano-tokens "
        "of the threshold. Concurrent exploration is bounded (preemption bound 2-3, lock-acquisition granularity). Trusted: Lean kernel, hand "
        "model validated by correspondence, virtual clock shim.",
   design="§3 C19"),
 "C15": dict(
   engine="validate+persist+rpc",
   technique="Lean 4 proof (validators/search planner total and exact for every request value; refusal => no effect via the persistence invariant) + differential correspondence + pathological requests through the real kyrodb_server binary",
   text="Theorems C15_oversampling_total_pos (the selectivity estimate terminates on every filter tree and lies in [1,50]: the divisor "
        "in 50/inner is never 0), C15_plan_bounds (1 <= k <= search_k <= 10000, ef in [1,10000]), C15_search_validator_decides and "
        "C15_insert_validator_decides (accept <=> the documented field ranges), C15_refused_no_effect (a refused durable write "
        "issues no file-system action and leaves live and recovered documents unchanged after any history). Tie: 6k (quick) "
        "structurally generated requests through the real validate_search_request / validate_insert_request / "
        "calculate_oversampling_factor vs the model + contract oracle; persist histories with every invalid-input class and "
        "recovery after each op. Through the REAL server binary: ~260 (quick) pathological requests per run over every RPC (empty / "
        "4097-dim / wrong-dimension / zero / NaN / +-Inf / f32::MAX / subnormal vectors, k and ef out of range, ids 0 / 2^32 / 2^64-1, "
        "empty AND/OR/NOT, unset filters, NOT-chains of depth 5..200, 10001-id batches, streams mixing valid and invalid items): "
        "each must be answered (a BulkSearch stream answers every request or ends with a status), a liveness read follows each, a "
        "census before/after shows no effect of refused requests/items, non-finite vectors never stored, census again after restart.",
   note="Partial: the RPC glue of kyrodb_server (prost decoding, streaming handlers, panic containment) is exercised black-box, not "
        "modelled; non-finite vectors on the streaming write paths are refused by the engine "
        "pre-flight since fix d09e19e (before: after the log append). Trusted: Lean kernel, hand models validated by correspondence.",
   design="§3 C15"),
 "C17": dict(
   engine="mem",
   technique="Lean 4 proof over a model regenerated from simd.rs / ann_backend.rs by translators (one bounds theorem per raw load, for every length) + fenced-allocator execution of the real kernels and index",
   text="Regenerated on every run: 84 theorems `<kernel>_load_<n>` (each raw vector load of every unsafe SIMD kernel — AVX-512, AVX2, "
        "SSE2, NEON — reads lanes inside the slice for EVERY length, incl. lengths not a multiple of the width), proved by omega; "
        "C17_vector_in_bounds / C17_neighbor_in_bounds / C17_count_in_bounds / C17_visited_in_bounds / C17_len_exact over the "
        "generated PackedLevel0 and visited-bitset arithmetic for every cap, dimension and node count; C17_*_translation_complete "
        "(translators resolved every access; site count = obligation count); C17_neighbour_ids_guarded, C17_neighbour_indices_guarded "
        "(+ C17_guarded_index_in_bounds), C17_pointer_arithmetic_bounded (+ C17_record_ptr_in_bounds) (lints of id arguments, index "
        "arguments and raw pointer arithmetic). Tie: translators "
        "re-read the current source; every kernel wrapper is executed on guard-page-abutted slices of each length 0..130+ and the "
        "real HNSW index is built/searched under an allocator that ends every block at a PROT_NONE page, with forced graph degrees "
        "M 4..64 at dimension 1/2/15 in a debug-assertion build (std's get_unchecked precondition checks); thorough tier: Miri "
        "scenarios (corpus/C17/*_miri.rs). One defect fixed: 7214c4a (out-of-allocation pointer arithmetic in the prefetch look-ahead).",
   note="Partial: that every dense id reaching an `_unchecked` accessor is below the node count (graph-closure invariant of HNSW "
        "construction) is linted and exercised, not proved; over-reads inside spare Vec capacity are invisible to the fence; usize "
        "overflow not modelled; NEON proved but not executed on this host. Trusted: Lean kernel, the two translators, the "
        "intrinsic->lanes table.",
   design="§3 C17"),
 "C10": dict(
   engine="rpc",
   technique="Lean 4 proof (frame / soundness theorems of the tenant layer; refutation of search isolation by witness) + differential correspondence against the real kyrodb_server binary over gRPC/HTTP + model-independent non-interference replay",
   text="Model Server/Tenant.lean (API key -> tenant, global id = index<<32|local id, server-owned keys, tenant/namespace checks, "
        "post-filtered search). Theorems: C10_reserved_never_shown, C10_reserved_not_settable, C10_namespace_not_settable, "
        "C10_point_read_is_own, C10_namespace_selector, C10_write_frame_insert/_delete/_update/_batchDeleteIds/_batchDeleteFilter/"
        "_bulkInsert/_bulkLoad (a write of tenant B leaves every read of tenant A unchanged, colliding local ids included), "
        "C10_noninterference (over WHOLE histories of Insert/BulkInsert/Delete/UpdateMetadata/Query/BulkQuery/BatchDelete-by-ids by any "
        "tenants, what a tenant observes equals what it observes with the others' requests removed; unwinding lemmas handle_view / "
        "handle_respects in Lemmas/TenantNI), C10_filter_blind_to_reserved + C10_reserved_filter_refused_* (client filters cannot see the "
        "server-owned keys; fix 7ce87e7), C10_search_sound (every result is the caller's: id range, stored "
        "index, namespace, public metadata), C10_search_isolated_partial (isolation when the candidate window covers the collection) "
        "and C10_search_count_leak (the full statement is FALSE: A's result count depends on B's data). Tie: ~45 (quick) random "
        "multi-tenant RPC histories against the REAL kyrodb_server binary (built from the working tree each run) - every answer "
        "compared with the model - and each history replayed per tenant with the other tenants' requests removed; oracles on the "
        "answers alone: unauthenticated refused, reserved keys never shown, not-found carries nothing, a namespace selector never finds "
        "a document last written under another namespace, client filters blind to reserved keys.",
   note="Partial, two known findings (KF-C10-shared-index-post-filter, KF-C10-flush-count). Not modelled: TLS, rate limiting, "
        "Health/Metrics (excluded by the property), timing side channels. Search order computed in the driver (Float, exact on the "
        "generated dyadic coordinates), ties reported.",
   design="§3 C10"),
 "C14": dict(
   engine="rpc+conc",
   technique="Lean 4 proof (quota invariant by induction over every sequential write history incl. refused writes and the start-up recount) + differential correspondence against the real kyrodb_server binary (admission probes, census, /usage)",
   text="Invariant Inv (unique global ids; every document lies in the id range of the tenant whose index it stores; count used for "
        "admission = live documents; count <= limit). Theorems C14_insert_exact (overwrite and engine-refused write included), "
        "C14_delete_exact, C14_update_exact (an update cannot move a document to another tenant), C14_batchDeleteIds_exact "
        "(duplicates/absent ids), C14_batchDeleteFilter_exact, C14_bulkInsert_exact, C14_bulkLoad_exact (reserve/release of the new ids; "
        "Lemmas/TenantBulk), C14_restart_exact (recount), C14_step_exact, C14_sequential (ANY sequence of these from the empty "
        "server), C14_never_over_limit, C14_not_refused_below_limit. Concurrent RPC pairs: explored on the REAL handlers (build-time "
        "copy of kyrodb_server.rs in the harness) under the controlled scheduler - every final state counted = live = usage. Tie: ~45 (quick) "
        "random write histories near limits of 2-6 against the REAL server binary with restarts; after every probe: counted "
        "(limit - fresh inserts admitted) = live (BulkQuery census) = /usage vector_count; every answer compared with the model.",
   note="Partial only in that the theorems are sequential: concurrent RPCs are decided by schedule exploration (lock-acquisition "
        "granularity, preemption bound 2, pairs + random triples; streaming RPCs sequential only). Engine-side refusals = wrong "
        "dimension only (I/O failure paths: C03). One defect found and repaired (fix 9bf38f7).",
   design="§3 C14"),
 "C13": dict(
   engine="persist+codec+rpc",
   technique="Lean 4 proof (per fault class over every history; byte-level scanner lemmas; refutation of the full statement by witnesses) + differential correspondence on enumerated single faults + start-up faults through the real server binary",
   text="Theorems over any directory reachable by any history (DInv): C13_manifest_removed/_unparsable, C13_listed_segment_removed, "
        "_unopenable, _corrupt_frames (refused); C13_unlisted_segment_harmless, C13_unpointed_snapshot_harmless (recovery reads "
        "nothing else); C13_pointed_snapshot_no_fallback; C13_partial(+_reachable) combining them. The full statement is FALSE: "
        "C13_statement_false with witnesses C13_witness_old_segment_prefix / _snapshot_fallback / _manifest_pointer_lost, and "
        "C13_silent_prefix_always_starts (the unseen class is accepted after EVERY history). Byte level: C13_codec_roundtrip, "
        "C13_truncation_reads_clean (any cut length), C13_checksum_mismatch_counted, C13_length_past_eof_silent. Tie: ~14k (quick) "
        "enumerated faults (removal, truncation, bit flips per structural field) on directories from random histories: the real "
        "readers' view of the damaged file feeds the model, real strict recover vs recoverAfter; 1.7k damaged byte strings real "
        "WalReader vs Codec.readFile with CRC-32 computed in Lean. Through the REAL server binary: histories with restarts, a clean "
        "stop, one fault (removal / truncation / first-byte flip of MANIFEST, segments, snapshots), start: refused or the same "
        "census (found and repaired: a removed MANIFEST made the server start EMPTY, fix 68e5505).",
   note="Partial, with four known findings (KF-C13-wal-silent-prefix, -wal-length-field, -snapshot-fallback, "
        "-manifest-unchecksummed: format-level, not small patches). Not proved: CRC-32 detects every single-bit flip (polynomial "
        "fact; every enumerated flip is checked); bincode decoding; snapshot byte layout (exercised, not modelled).",
   design="§3 C13"),
 "C12": dict(
   engine="persist",
   technique="Lean 4 proof (restore exactness over the disk invariant, chain step, refusal-before-clear decision logic, ancestor closure of pruning for every timeline/policy) + differential correspondence through the real BackupManager/RestoreManager",
   text="C12_full_restore_exact (a full backup of any directory satisfying the invariant restores to exactly its collection), "
        "C12_incremental_step_exact (extracting one more incremental over a correctly restored chain yields exactly the "
        "collection at incremental time; the snapshot clause is what fix b28ccd9 established), C12_altered_chain_refused "
        "(refused before the clear, whatever the target/confirmation), C12_no_clear_without_confirmation, "
        "C12_prune_keeps_ancestors / _prune_keeps_whole_chain (ancestry of any depth, by induction over parent links) / _pruned_iff_not_kept / _retained_kept (every timeline, policy, clock), "
        "C12_pitr_starts_at_full_before. Tie: random histories with full/incremental backups, ticks incl. same-second, "
        "restores into empty/dirty targets, PITR, pruning, structural archive/metadata damage: model vs real archive member "
        "lists, metadata, restore outcome (real strict recover on the restored directory), prune decisions; oracle: restored "
        "collection = collection when the backup was taken.",
   note="Partial. Modelled not proved: that segments an incremental does not ship are unchanged since the parent (engine appends "
        "only to its newest segment; mtime >= parent timestamp) and the two listing facts of Quiescent (no unlisted WAL file, list "
        "ascending) - hypotheses of the theorems, observed on every run. Archive byte format/checksum not modelled: "
        "KF-C12-archive-structure-unchecked (member names/count outside the checksum). Two defects fixed: b28ccd9, 7c1da7a. "
        "Oracle accepts an altered-but-immaterial metadata edit if the restore is still exact (the statement's literal 'rejected' "
        "would flag description edits).",
   design="§3 C12"),
 "C06": dict(
   engine="tiered",
   technique="Lean 4 proof (merge/coherence-filter model; the tiers' answers universally quantified, so the heuristic ANN cannot break the theorems) + differential correspondence and f64 reference oracle on the real engine",
   text="C06_at_most_k, C06_distinct, C06_sorted (at most k distinct documents, non-decreasing distance); "
        "C06_every_result_is_a_tier_answer (recent-write tier's value wins, the ANN tier's is used only for documents the "
        "recent-write tier did not answer for); C06_results_exist (every returned document exists now, given the ANN tier's "
        "tombstone filter); C06_stale_mirror_never_served (overwritten/deleted mirrors are dropped); C06_recent_write_present "
        "(a coherent recent-write candidate is in the result unless k results no farther than it are) - for EVERY ANN answer. "
        "Tie: per search the real tiers are asked for their candidate lists (model inputs), the real engine for its answer "
        "(model output incl. side effects on the mirror); oracle on the real answer: exists now, true distance in f64 to the "
        "CURRENT vector, order, recent writes present; dimensions {1,3,7,8,9,15,16,17,33} x metric, deletes/overwrites/drains/"
        "bulk loads/stale plants interleaved.",
   note="Partial: the ANN graph search and SIMD arithmetic are not modelled (inputs / f64 reference); the recent-write guarantee is "
        "proved for candidates in the hot scan's top 2k (a hot tier holding more than 2k documents closer than the k-th result of "
        "which more than k are stale mirrors could in principle hide a fresh one - needs an ANN miss as well; not reproducible on "
        "the real code, see DESIGN); timed/batch APIs and degraded paths not exercised; concurrency is C05/C09. Known finding "
        "KF-C06-normalisation-band.",
   design="§3 C06"),
 "C07": dict(
   engine="qcache+tiered",
   technique="Lean 4 proof (cache model: served-entry, reverse invalidation, exact boundary decision, generation guard over any history; Mathlib lemma: pre-filter bounds dominate the exact quantities over the reals) + differential correspondence with boundary-stress vectors + engine-level freshness oracle + controlled-scheduler exploration of one searcher against one writer on the real engine",
   text="C07_served_entry (same scope, requested k >= wanted k, a prefix of a stored entry), C07_deleted_doc_not_served + "
        "C07_only_store_adds + C07_unmentioned_stays (a deleted/overwritten document is not served from an older result, through "
        "any store-free history), C07_kept_entry_is_unaffected + C07_keep_means_strictly_outside (a surviving entry is full and the "
        "inserted vector lies strictly outside its finite boundary), C07_stale_store_refused + "
        "C07_invalidation_advances_generation + C07_result_computed_before_write_is_not_stored (generation guard, any history), "
        "C07_clear_empties, C07_prefilter_sound_over_reals (every dimension, every prefix length). Tie: qcache engine vs model "
        "on random histories and on vectors 2e-4..30% inside/outside a cached boundary with the difference spread over prefix/"
        "tail (dims 8..96); engine level: every CacheHit of the real TieredEngine is matched to the stored result it is a prefix "
        "of and judged against the write log (exists now, current vector's distance, nothing written since strictly inside the "
        "boundary as a fresh search would report it, scope, k).",
   note="Partial: float rounding inside the pre-filter is exercised (256-ulp band reported ambiguous), not proved; the schedule half "
        "(store-after-invalidate race between a searching and a writing thread) is proved on the sequential cache model and "
        "EXPLORED on the real engine (nine writers x one cacheable search, every schedule at lock granularity with preemption "
        "bound 2/3; afterwards the cacheable search must answer what the same search past the cache answers) - exploration, not "
        "proof; the tiered model abstains on cached answers (oracle "
        "only). Similarity hits (cosine > 0.52 by default) serve ANOTHER query's fresh entry by design: judged relative to the "
        "stored query, as the statement's clauses are. Two defects fixed: d496037, 5d69348 (torn hot-tier scan, found by the exploration).",
   design="§3 C07"),
 "C08": dict(
   engine="conc",
   technique="Lean 4 proof (no state of the abstract lock system is a deadlock under a rank discipline, any number of threads/locks; the rank is REGENERATED from the lock nesting observed on the current code and checked by `decide`) + controlled-scheduler exploration of the real engine (deadlock = no enabled thread)",
   text="no_deadlock_of_ranked (Conc/LockSystem: mutexes, writer-preferring rwlocks, upgradable reads/upgrades), generated "
        "edges_ranked + no_reentrancy over Conc/LockGraphGenerated (19 locks / 30 nesting edges on the current tree), C08_no_deadlock, "
        "C08_nesting_acyclic. Tie / search: every unordered pair of a 16-operation API catalogue on one engine with persistence, "
        "stateless DFS over schedules at lock-acquisition granularity (preemption bound 1 quick / 2 thorough) plus random triples "
        "with automatic snapshots; scheduler = hooks in a vendored parking_lot ([patch.crates-io] of the harness, no /repo hook).",
   note="Partial: the theorem covers states whose nesting stays within the OBSERVED edges (coverage = the catalogue and its warm-up); "
        "async server paths and non-parking_lot blocking not covered. Two deadlocks found and fixed: 3ee7542 (hot-tier stats/documents "
        "order), 7d0abc7 (delete holds the metadata index lock across its automatic snapshot).",
   design="§3 C08"),
 "C05": dict(
   engine="conc",
   technique="Lean 4 proof (the coherence check is the read's linearisation point; instants order respects real time; a two-observation read tears; the repaired token pairing returns one state) + controlled-scheduler exploration with a per-document linearizability checker",
   text="C05_read_linearises_at_the_check (injective digest), C05_instants_order_respects_real_time (any number of operations), "
        "C05_two_observation_read_tears (witness of the repaired defect), C05_one_observation_read_is_a_state, C05_paired_by_token. "
        "Search: two threads (writer: insert/overwrite/delete/metadata update; reader: point / cache-aware / with-metadata / bulk / "
        "exists) on a cold-only and a hot+cold document, DFS over schedules with preemption bound 2; three threads with random "
        "schedules; every distinct history checked (Wing-Gong) against the per-document register specification. The same through "
        "the RPC layer: the real Query / Insert / Delete / UpdateMetadata handlers (build-time copy of kyrodb_server.rs) under the "
        "scheduler.",
   note="Partial: the theorems carry the linearisation argument, the executions are decided by the search (bounded preemptions / "
        "sampled), at lock-acquisition granularity. Two defects fixed (2ef43c1 torn read in the engine API, 83801c6 torn read in the "
        "Query RPC handler), one known finding (KF-C05-drain-resurrects-deleted).",
   design="§3 C05"),
 "C09": dict(
   engine="conc",
   technique="Lean 4 proof (step-level protocol model: without the lock a snapshot loses an acknowledged write - witness; with the lock discipline every schedule is a sequential history; sequential histories are lossless - C02) + controlled-scheduler exploration of writers vs snapshotter on the real engine with recovery after every schedule",
   text="C09_unprotected_snapshot_loses_a_write (witness), C09_protected_is_sequential (any schedule, any length), "
        "C09_protected_schedules_lose_nothing, C09_sequential_histories_are_lossless (= C02_restart_lossless over the full "
        "persistence model incl. automatic snapshots, rotation, compaction, tombstone compaction), "
        "C09_manifest_rmw_under_the_lock_is_sequential + C09_manifest_rmw_outside_the_lock_loses_the_commit (the MANIFEST as a cell "
        "shared by rotation and snapshot commit). Search: 1-2 writer threads vs a "
        "snapshotting thread, snapshot intervals {off,1,2,3}, rotation {off,1,150 bytes}, DFS with preemption bound and random "
        "schedules; after each: real strict recover == final live collection.",
   note="Partial: that the real critical sections are what the discipline assumes is exercised by the search (bounded / sampled, "
        "lock granularity), not proved; file I/O is not a scheduling point; 'a stale snapshot never replaces a newer one' is covered by "
        "the sequential model's manifest invariant (snapSeq monotone in DInv) and by the search's recover comparison.",
   design="§3 C09"),
}

NOT_APPLICABLE = {
 "C16": "statistical recall floor of a heuristic ANN graph on sampled distributions: no executable model short of the "
        "implementation itself can express it and no theorem of that kind exists; measuring recall is a different "
        "technique (DESIGN.md §3 C16)",
}
PENDING = "check not built yet in this session (model + correspondence under construction; see DESIGN.md build order)"


def main():
    checks = []
    for pid in ALL:
        if pid not in CLAIMS:
            continue
        c = CLAIMS[pid]
        checks.append({
            "property_id": pid,
            "quick_cmd": "./check %s --tier quick" % pid,
            "thorough_cmd": "./check %s --tier thorough" % pid,
            "evidence_file": "evidence/%s.json" % pid,
            "replay_cmd_template": "./check %s --replay {path}" % pid,
            "engine": c["engine"],
            "level_claimed": {"category": c.get("category", "proof"), "text": c["text"], "design_ref": c["design"]},
            "level_note": c["note"],
            "technique": c["technique"],
        })
    na = [{"property_id": p, "reason": NOT_APPLICABLE.get(p, PENDING)} for p in ALL if p not in CLAIMS]
    m = {
        "version": 1,
        "setup_cmd": "./setup.sh",
        "hooks": {"guard": "kyrodb_verif", "enable": "no source hooks: harness crate uses a path dependency on /repo/engine, "
                  "in-binary libc interposition and a vendored parking_lot under [patch.crates-io]",
                  "baseline_off_cmd": "cd /repo && cargo test --workspace --no-fail-fast --offline",
                  "source_commits": [], "add_only": True},
        "engines": [
            {"name": "kvh", "path": "harness", "serves_properties": sorted(CLAIMS), "kind_free_text":
             "Rust harness calling the real engine in-process, one op per line"},
            {"name": "kyro_driver", "path": "lean", "serves_properties": sorted(CLAIMS), "kind_free_text":
             "Lean 4 model (lake project KyroModel): theorems + compiled line-protocol driver"},
        ],
        "checks": checks,
        "not_applicable": na,
        "notes": "Entry point ./check <id>. Technique family: machine-checked proof in Lean 4 + checked tie to the code "
                 "(correspondence / translators). See DESIGN.md.",
    }
    json.dump(m, open(os.path.join(ROOT, "MANIFEST.json"), "w"), indent=1)


if __name__ == "__main__":
    main()
