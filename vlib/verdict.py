"""Common verdict logic (DESIGN §1.1)."""
from .common import *
from . import corr


def settle(rep, proof_ok, proof_info, findings, module):
    """findings: list of dicts
         kind     'oracle' (the implementation violates the property on this case) |
                  'mismatch' (model and implementation disagree)
         engine, case (dict from corr.run_cases), idx, msg, sig (dict), pred (case -> bool)
    """
    unlisted_oracle = False
    seen_sigs = set()
    for f in findings:
        if f["kind"] != "oracle":
            continue
        key = json.dumps(f["sig"], sort_keys=True)
        if key in seen_sigs:
            continue
        seen_sigs.add(key)
        kf = match_known(rep.prop, f["sig"])
        if kf:
            rep.known_finding(kf)
            continue
        unlisted_oracle = True
        raw = f["case"]["raw"]
        try:
            small = corr.shrink(f["engine"], raw, f["pred"]) if f.get("pred") else raw
            shr = corr.run_cases(f["engine"], [small])[0]
        except Exception as e:                       # never lose a violation to a shrinker bug
            shr = f["case"]
        note = "ORACLE FAILURE on the implementation: %s\nsignature: %s" % (f["msg"], key)
        p = rep.write_replay("oracle_%s.ops" % hashlib.sha1(key.encode()).hexdigest()[:10],
                             corr.case_text(f["engine"], shr, note))
        rep.violation(p)
    mism = [f for f in findings if f["kind"] == "mismatch"]
    if mism:
        f = mism[0]
        try:
            small = corr.shrink(f["engine"], f["case"]["raw"], f["pred"]) if f.get("pred") else f["case"]["raw"]
            shr = corr.run_cases(f["engine"], [small])[0]
        except Exception:
            shr = f["case"]
        note = ("CORRESPONDENCE BROKEN: model %s and implementation disagree (%d disagreeing cases in this run).\n"
                "first difference: %s" % (module, len(mism), f["msg"]))
        p = rep.write_replay("mismatch_%s.ops" % f["engine"], corr.case_text(f["engine"], shr, note))
        # a disagreement alone is not a failing input; it is one only if the oracle also fails
        if not unlisted_oracle:
            rep.violation(p, no_input=True)
    if not proof_ok and not unlisted_oracle and not mism:
        p = rep.write_replay("proof_obligation.json", {
            "broken": "proof obligations of %s no longer check" % module,
            "details": {k: proof_info.get(k) for k in
                        ("errors", "source_scan_hits", "axioms", "axiom_audit_ok", "leanchecker_ok")},
            "search": "the correspondence run and the property oracle found no failing input on the implementation",
        })
        rep.violation(p, no_input=True)
    elif not proof_ok:
        rep.notes.append("proof obligations of %s are broken: %s" % (module, proof_info.get("errors")))
