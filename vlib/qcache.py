"""Generator + oracle for the `qcache` engine (QueryHashCache): C20 bound, C07 structure."""
import math
from .common import *

ANGLES = [0, 17, 41, 58, 93, 131, 170, 215, 260, 311]
DISTS = [0.1, 0.25, 0.5, 0.75, 1.0, 1.5, 2.5]


def qvec(rng, dim):
    if dim == 2:
        a = math.radians(rng.choice(ANGLES)); s = rng.choice([0.5, 1.0, 2.0])
        return [s * math.cos(a), s * math.sin(a)]
    return [float(rng.choice([-2, -1, -0.5, 0.5, 1, 2, 3])) for _ in range(dim)]


def vb(v):
    return show_vec([f32bits(x) for x in v])


def gen_case(rng, n_ops=40):
    cap = rng.choice([1, 2, 3, 5])
    thr = rng.choice([0.52, 0.8, 0.95])
    dim = rng.choice([2, 2, 3, 4])
    pool = [qvec(rng, dim) for _ in range(rng.choice([3, 5, 8]))]
    if rng.random() < 0.3:
        pool.append(qvec(rng, dim + 1))        # dimension mismatch stream
    ops = ["cfg cap=%d thr=%s" % (cap, thr)]
    for _ in range(n_ops):
        op = rng.choices(["store", "get", "inv_doc", "inv_insert", "clear", "grab"],
                         [30, 30, 10, 14, 3, 6])[0]
        sc = rng.choice([0, 0, 1, 2])
        q = rng.choice(pool)
        if op == "store":
            k = rng.choice([1, 2, 3, 5])
            n = rng.choice([k, k, k, max(k - 1, 0), k + 1, 0])
            ds = sorted(rng.choice(DISTS) for _ in range(n))
            res = ",".join("%d:%d" % (rng.randrange(1, 9), f32bits(d)) for d in ds) or "-"
            ops.append("store scope=%d q=%s k=%d res=%s gen=%s" % (
                sc, vb(q), k, res, rng.choice(["-", "cur", "cur", "grabbed"])))
        elif op == "get":
            ops.append("get scope=%d q=%s k=%d" % (sc, vb(q), rng.choice([1, 2, 3, 5, 6])))
        elif op == "inv_doc":
            ops.append("inv_doc d=%d" % rng.randrange(1, 9))
        elif op == "inv_insert":
            v = rng.choice(pool) if rng.random() < 0.5 else qvec(rng, dim)
            ops.append("inv_insert v=%s metric=%s" % (vb(v), rng.choice(["l2", "cos", "ip"])))
        else:
            ops.append(op)
        ops.append("len")
    return ops


def _f32(x):
    import struct
    return struct.unpack("<f", struct.pack("<f", x))[0]


def _unit(rng, dim, prefix_mass):
    """random unit vector with the given share of its squared norm in the first 32 coordinates"""
    p = min(32, dim)
    a = [rng.gauss(0, 1) for _ in range(p)] + [0.0] * (dim - p)
    b = [0.0] * p + [rng.gauss(0, 1) for _ in range(dim - p)]
    na = math.sqrt(sum(x * x for x in a)) or 1.0
    nb = math.sqrt(sum(x * x for x in b)) or 1.0
    if dim == p:
        prefix_mass = 1.0
    return [math.sqrt(prefix_mass) * x / na + math.sqrt(1 - prefix_mass) * y / nb for x, y in zip(a, b)]


def gen_boundary_case(rng, n_probes=14):
    """C07: one cached query with a full result list; vectors are inserted just inside / just outside its distance
    boundary, with the difference to the query spread over the first 32 coordinates (what the implementation's
    pre-filter looks at) and the tail in varying proportions"""
    dim = rng.choice([8, 32, 33, 40, 64, 96])
    metric = rng.choice(["l2", "cos", "ip"])
    q = _unit(rng, dim, rng.choice([0.05, 0.5, 0.95]))
    if metric == "l2":
        sc = rng.choice([0.5, 1.0, 3.0])
        q = [x * sc for x in q]
    q = [_f32(x) for x in q]
    k = rng.choice([1, 3, 5])
    w = rng.choice([0.02, 0.1, 0.3, 0.7, 1.2]) if metric != "l2" else rng.choice([0.05, 0.4, 1.0, 2.5])
    ds = sorted([w] + [w * rng.random() for _ in range(k - 1)])
    res = ",".join("%d:%d" % (i + 1, f32bits(d)) for i, d in enumerate(ds))
    ops = ["cfg cap=4 thr=0.95", "store scope=0 q=%s k=%d res=%s gen=-" % (vb(q), k, res), "len"]
    nq = math.sqrt(sum(x * x for x in q))
    for _ in range(n_probes):
        delta = rng.choice([-0.3, -0.05, -5e-3, -1e-3, -2e-4, 2e-4, 1e-3, 5e-3, 0.05, 0.3])
        t = max(w * (1 + delta), 1e-6)
        u = _unit(rng, dim, rng.choice([0.0, 0.02, 0.3, 0.7, 0.98, 1.0]))
        # orthogonalise u against q
        c = sum(a * b for a, b in zip(u, q)) / (nq * nq)
        u = [a - c * b for a, b in zip(u, q)]
        nu = math.sqrt(sum(x * x for x in u)) or 1.0
        u = [x / nu for x in u]
        if metric == "l2":
            # distance exactly t: part along q (changes the norm), part orthogonal
            al = rng.choice([0.0, 0.5, -0.5]) * t
            be = math.sqrt(max(t * t - al * al, 0.0))
            v = [a + al * a / nq + be * b for a, b in zip(q, u)]
        else:
            cosv = max(-1.0, min(1.0, 1.0 - t))
            sinv = math.sqrt(max(0.0, 1 - cosv * cosv))
            v = [cosv * a / nq + sinv * b for a, b in zip(q, u)]
            if rng.random() < 0.3:
                s_ = math.sqrt(rng.choice([0.985, 1.015]))      # inside the accepted normalisation band
                v = [x * s_ for x in v]
        v = [_f32(x) for x in v]
        ops.append("inv_insert v=%s metric=%s" % (vb(v), metric))
        ops.append("len")
        ops.append("store scope=0 q=%s k=%d res=%s gen=-" % (vb(q), k, res))
    return ops


def oracle(raw, ann, res):
    fails = []
    cap = int(re.search(r"cap=(\d+)", ann[0]).group(1))
    for i, (a, r) in enumerate(zip(ann, res)):
        if r.startswith("panic"):
            fails.append(("panic", i, r))
        if a == "len" and r.isdigit() and int(r) > max(cap, 1):
            fails.append(("c20-qc", i, "query cache holds %s entries, capacity %d" % (r, cap)))
    return fails
