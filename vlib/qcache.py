"""Generator + oracle for the `qcache` engine (QueryHashCache): C20 bound, C07 structure."""
import math
from .common import *

ANGLES = [0, 17, 41, 58, 93, 131, 170, 215, 260, 311]
DISTS = [0.1, 0.25, 0.5, 0.75, 1.0, 1.5, 2.5]


def qvec(rng, dim):
    if dim == 2:
        a = math.radians(rng.choice(ANGLES)); s = rng.choice([0.5, 1.0, 2.0])
        return [s * math.cos(a), s * math.sin(a)]
    return [float(rng.choice([-2, -1, -0.5, 0.5, 1, 2, 3])) for _ in range(dim)]


def vb(v):
    return show_vec([f32bits(x) for x in v])


def gen_case(rng, n_ops=40):
    cap = rng.choice([1, 2, 3, 5])
    thr = rng.choice([0.52, 0.8, 0.95])
    dim = rng.choice([2, 2, 3, 4])
    pool = [qvec(rng, dim) for _ in range(rng.choice([3, 5, 8]))]
    if rng.random() < 0.3:
        pool.append(qvec(rng, dim + 1))        # dimension mismatch stream
    ops = ["cfg cap=%d thr=%s" % (cap, thr)]
    for _ in range(n_ops):
        op = rng.choices(["store", "get", "inv_doc", "inv_insert", "clear", "grab"],
                         [30, 30, 10, 14, 3, 6])[0]
        sc = rng.choice([0, 0, 1, 2])
        q = rng.choice(pool)
        if op == "store":
            k = rng.choice([1, 2, 3, 5])
            n = rng.choice([k, k, k, max(k - 1, 0), k + 1, 0])
            ds = sorted(rng.choice(DISTS) for _ in range(n))
            res = ",".join("%d:%d" % (rng.randrange(1, 9), f32bits(d)) for d in ds) or "-"
            ops.append("store scope=%d q=%s k=%d res=%s gen=%s" % (
                sc, vb(q), k, res, rng.choice(["-", "cur", "cur", "grabbed"])))
        elif op == "get":
            ops.append("get scope=%d q=%s k=%d" % (sc, vb(q), rng.choice([1, 2, 3, 5, 6])))
        elif op == "inv_doc":
            ops.append("inv_doc d=%d" % rng.randrange(1, 9))
        elif op == "inv_insert":
            v = rng.choice(pool) if rng.random() < 0.5 else qvec(rng, dim)
            ops.append("inv_insert v=%s metric=%s" % (vb(v), rng.choice(["l2", "cos", "ip"])))
        else:
            ops.append(op)
        ops.append("len")
    return ops


def oracle(raw, ann, res):
    fails = []
    cap = int(re.search(r"cap=(\d+)", ann[0]).group(1))
    for i, (a, r) in enumerate(zip(ann, res)):
        if r.startswith("panic"):
            fails.append(("panic", i, r))
        if a == "len" and r.isdigit() and int(r) > max(cap, 1):
            fails.append(("c20-qc", i, "query cache holds %s entries, capacity %d" % (r, cap)))
    return fails
