"""Driving the `conc` engine (controlled scheduler): explorations, lock-graph accumulation, history parsing."""
from .common import *


def parse_result(r):
    """'runs=.. steps=.. locks=.. deadlock=.. schedule=.. edges=.. histories=..' -> dict"""
    d = {}
    for key in ("runs", "steps", "locks", "deadlock", "schedule", "edges", "histories"):
        m = re.search(r"(?:^| )%s=(.*?)(?= (?:runs|steps|locks|deadlock|schedule|edges|histories)=|$)" % key, r)
        d[key] = m.group(1) if m else ""
    d["runs"] = int(d["runs"] or 0)
    d["steps"] = int(d["steps"] or 0)
    d["edges"] = [] if d["edges"] in ("-", "") else d["edges"].split(",")
    d["locks"] = [] if d["locks"] in ("-", "") else d["locks"].split(",")
    hs = []
    for h in (d["histories"].split("~") if d["histories"] else []):
        parts = h.split("#")
        if len(parts) == 3:
            ops = []
            for o in (parts[1].split("|") if parts[1] else []):
                m = re.fullmatch(r"(\d+)\.(\d+):(.*)=>(.*)@(\d+)-(\d+)", o)
                if m:
                    ops.append({"t": int(m.group(1)), "i": int(m.group(2)), "op": m.group(3), "res": m.group(4),
                                "inv": int(m.group(5)), "ret": int(m.group(6))})
            hs.append({"count": int(parts[0]), "ops": ops, "final": parts[2]})
    d["histories"] = hs
    return d


def explore(lines, timeout=3600):
    """runs explore/replay lines; a deadlock ends the harness process (its threads stay parked), so the remaining
    lines continue in a fresh one.  Returns [(line, parsed result or None)]"""
    out = []
    i = 0
    while i < len(lines):
        ann, res, err, rc = run_harness("conc", lines[i:], timeout=timeout)
        for j, r in enumerate(res):
            out.append((lines[i + j], parse_result(r)))
        n = len(res)
        if n == 0:
            out.append((lines[i], None))
            n = 1
        i += n
    return out


# ---------------------------------------------------------------------------------------------
# linearizability of per-document histories (C05)

def project(ops):
    """history -> {id: [(inv, ret, kind, arg, result)]} ; bulk reads become one read per id"""
    per = {}
    for o in ops:
        p = o["op"].split(":")
        k = p[0]
        if k == "bq":
            ids = [int(x) for x in p[1].split(",")]
            items = o["res"].split(",") if o["res"] else []
            for id_, it in zip(ids, items):
                per.setdefault(id_, []).append((o["inv"], o["ret"], "dm", None, it, o))
        elif k in ("ins", "um"):
            per.setdefault(int(p[1]), []).append((o["inv"], o["ret"], k, p[2], o["res"], o))
        elif k in ("del", "q", "ea", "ex", "dm"):
            per.setdefault(int(p[1]), []).append((o["inv"], o["ret"], k, None, o["res"], o))
        elif k == "bd":
            for id_ in {int(x) for x in p[1].split(",")}:
                per.setdefault(id_, []).append((o["inv"], o["ret"], "bdel", None, o["res"], o))
    return per


def spec_step(state, kind, arg, res):
    """state = None | (vec, meta); returns new state or 'BAD' when the result is not the one the spec gives"""
    if kind == "ins":
        return (arg, arg) if res == "ok" else (state if res == "err" else "BAD")
    # C05 constrains what READS return.  The boolean a delete / metadata update reports ("something
    # was removed" - each tier reports its own removal, so two racing deletes may both say true) is
    # not a read of the document: it is left unconstrained here (C14 looks at what the server does
    # with it).  Only the effect on the register matters.
    if kind == "um":
        if res == "true":
            return None if state is None else (state[0], arg)
        return state if res == "false" else "BAD"
    if kind == "del":
        return None if res in ("true", "false") else "BAD"
    if kind == "bdel":
        return None
    if kind in ("q", "ea"):
        return state if res == ("none" if state is None else state[0]) else "BAD"
    if kind == "ex":
        return state if res == ("false" if state is None else "true") else "BAD"
    if kind == "dm":
        return state if res == ("none" if state is None else "%s/%s" % state) else "BAD"
    return "BAD"


def linearizable(evs, init):
    """Wing-Gong search: evs = [(inv, ret, kind, arg, res, op)]"""
    n = len(evs)
    seen = set()

    def go(done, state):
        if len(done) == n:
            return True
        key = (frozenset(done), state)
        if key in seen:
            return False
        seen.add(key)
        pending = [i for i in range(n) if i not in done]
        first_ret = min(evs[i][1] for i in pending)
        for i in pending:
            if evs[i][0] > first_ret:
                continue          # something else returned before this one was invoked
            ns = spec_step(state, evs[i][2], evs[i][3], evs[i][4])
            if ns == "BAD":
                continue
            if go(done | {i}, ns):
                return True
        return False

    return go(frozenset(), init)


def check_history(h, init):
    """returns None or (id, description) for the first document whose sub-history has no linearization"""
    per = project(h["ops"])
    for id_, evs in sorted(per.items()):
        if not linearizable(evs, init.get(id_)):
            txt = "; ".join("T%d %s=>%s [%d,%d]" % (e[5]["t"], e[5]["op"], e[5]["res"], e[0], e[1]) for e in sorted(evs))
            # classify: a read pairing the vector of one write with the metadata of another
            torn = any(e[2] == "dm" and "/" in e[4] and e[4].split("/")[0] != e[4].split("/")[1] for e in evs)
            return id_, txt, ("torn-read" if torn else "order")
    return None
