"""Shared machinery of the /verif checks: builds, proof audit, harness/driver runs, diff,
shrinking, verdicts, evidence.  Python 3 stdlib only."""
import json, os, random, re, shutil, subprocess, sys, tempfile, time, hashlib

ROOT = os.path.dirname(os.path.dirname(os.path.abspath(__file__)))
LEAN = os.path.join(ROOT, "lean")
HARNESS = os.path.join(ROOT, "harness")
KVH = os.path.join(HARNESS, "target", "debug", "kvh")
DRIVER = os.path.join(LEAN, ".lake", "build", "bin", "kyro_driver")
EVID = os.path.join(ROOT, "evidence")
REPLAYS = os.path.join(ROOT, "replays")
CORPUS = os.path.join(ROOT, "corpus")
ALLOWED_AXIOMS = {"propext", "Classical.choice", "Quot.sound"}
ENV = dict(os.environ, CARGO_NET_OFFLINE="true")

_scratch = None


def scratch():
    global _scratch
    if _scratch is None:
        base = os.environ.get("TMPDIR", "/tmp")
        _scratch = tempfile.mkdtemp(prefix="kvh.%d." % os.getpid(), dir=base)
    return _scratch


def cleanup():
    global _scratch
    if _scratch and os.path.isdir(_scratch):
        shutil.rmtree(_scratch, ignore_errors=True)
    _scratch = None


def run(cmd, cwd=None, inp=None, timeout=3600, env=None):
    p = subprocess.run(cmd, cwd=cwd, input=inp, stdout=subprocess.PIPE, stderr=subprocess.PIPE,
                       timeout=timeout, env=env or ENV, text=True)
    return p.returncode, p.stdout, p.stderr


# ---------------------------------------------------------------------------------------------
# Proof obligations

FORBIDDEN = re.compile(r"\b(sorry|admit|native_decide|bv_decide|implemented_by|unsafe)\b|^\s*axiom\s|maxHeartbeats\s+0")


def strip_comments(src):
    # remove /- ... -/ (nested) and -- line comments
    out, i, depth = [], 0, 0
    n = len(src)
    while i < n:
        if src.startswith("/-", i):
            depth += 1; i += 2; continue
        if depth > 0 and src.startswith("-/", i):
            depth -= 1; i += 2; continue
        if depth > 0:
            if src[i] == "\n":
                out.append("\n")
            i += 1; continue
        if src.startswith("--", i):
            while i < n and src[i] != "\n":
                i += 1
            continue
        out.append(src[i]); i += 1
    return "".join(out)


def source_scan():
    """Reject sorry/admit/axiom/native_decide/... outside comments in every Lean file."""
    hits = []
    for base, _, files in os.walk(LEAN):
        if ".lake" in base:
            continue
        for f in files:
            if not f.endswith(".lean"):
                continue
            p = os.path.join(base, f)
            txt = strip_comments(open(p).read())
            for ln, line in enumerate(txt.split("\n"), 1):
                if FORBIDDEN.search(re.sub(r'"(\\.|[^"\\])*"', '""', line)):
                    hits.append("%s:%d: %s" % (os.path.relpath(p, ROOT), ln, line.strip()))
    return hits


def obligations_of(module):
    """Theorem names listed in a `Theorems/Cnn.lean` file (every `theorem` declared there)."""
    p = os.path.join(LEAN, *module.split(".")) + ".lean"
    txt = strip_comments(open(p).read())
    ns = re.findall(r"^namespace\s+(\S+)", txt, re.M)
    prefix = (ns[0] + ".") if ns else ""
    names = re.findall(r"^\s*(?:@\[[^\]]*\]\s*)?theorem\s+([A-Za-z0-9_.'!?]+)", txt, re.M)
    return [prefix + n for n in names]


def lake_build(targets, clean=False):
    if clean:
        shutil.rmtree(os.path.join(LEAN, ".lake"), ignore_errors=True)
    t0 = time.time()
    rc, out, err = run(["lake", "build"] + targets, cwd=LEAN, timeout=7200)
    return rc == 0, (out + err), time.time() - t0


def axiom_audit(module, names):
    """`#print axioms` on every obligation; returns (ok, per-theorem axioms, log)."""
    if not names:
        return True, {}, ""
    src = "import %s\n" % module + "".join("#print axioms %s\n" % n for n in names)
    path = os.path.join(scratch(), "Audit_%s.lean" % module.replace(".", "_"))
    open(path, "w").write(src)
    rc, out, err = run(["lake", "env", "lean", path], cwd=LEAN, timeout=3600)
    log = out + err
    per = {}
    cur = None
    for line in log.split("\n"):
        m = re.match(r"'([^']+)' depends on axioms: \[(.*)", line)
        if m:
            cur = m.group(1)
            per[cur] = [a.strip(" ]") for a in m.group(2).split(",") if a.strip(" ]")]
            if "]" in line:
                cur = None
            continue
        m = re.match(r"'([^']+)' does not depend on any axioms", line)
        if m:
            per[m.group(1)] = []
            cur = None
            continue
        if cur is not None:
            per[cur] += [a.strip(" ]") for a in line.split(",") if a.strip(" ]")]
            if "]" in line:
                cur = None
    ok = rc == 0 and all(n in per for n in names) and all(
        set(v) <= ALLOWED_AXIOMS for v in per.values())
    return ok, per, log


def leanchecker(modules):
    rc, out, err = run(["lake", "env", "leanchecker"] + modules, cwd=LEAN, timeout=7200)
    return rc == 0, out + err


def cargo_build(bins=None):
    t0 = time.time()
    lock_src = "/repo/Cargo.lock"
    # keep the harness lock file in step with the repository's (offline resolution)
    rc, out, err = run(["cargo", "build", "--offline"] + (sum((["--bin", b] for b in bins), []) if bins else []),
                       cwd=HARNESS, timeout=7200)
    return rc == 0, out + err, time.time() - t0


# ---------------------------------------------------------------------------------------------
# Running cases

def run_harness(engine, lines, timeout=600, extra_args=None, bin_path=None):
    """Feeds op lines to the real code.  Returns (annotated ops, impl results, stderr, rc)."""
    cmd = [bin_path or KVH, engine] + (extra_args or [])
    try:
        rc, out, err = run(cmd, inp="\n".join(lines) + "\n", timeout=timeout,
                           env=dict(ENV, RUST_LOG="off", RUST_BACKTRACE="0"))
    except subprocess.TimeoutExpired:
        return [], [], "timeout", -9
    ann, res = [], []
    for l in out.split("\n"):
        if l.startswith("> "):
            ann.append(l[2:])
        elif l.startswith("< "):
            res.append(l[2:])
        elif l == "<":
            res.append("")
    return ann, res, err, rc


def run_driver(engine, lines, timeout=600):
    try:
        rc, out, err = run([DRIVER, engine], inp="\n".join(lines) + "\n", timeout=timeout)
    except subprocess.TimeoutExpired:
        return [], "timeout", -9
    res = out.split("\n")
    if res and res[-1] == "":
        res.pop()
    return res, err, rc


def split_cases(lines, is_start=lambda l: l.startswith("cfg ")):
    cases, cur = [], []
    for l in lines:
        if is_start(l) and cur:
            cases.append(cur); cur = []
        cur.append(l)
    if cur:
        cases.append(cur)
    return cases


def ddmin(ops, fails, keep_prefix=1, budget=400):
    """Delta debugging over an op list; `fails(ops) -> bool`.  The first `keep_prefix` ops
    (configuration) are always kept."""
    head, body = ops[:keep_prefix], ops[keep_prefix:]
    n = 2
    calls = 0
    while len(body) >= 2 and calls < budget:
        chunk = max(1, len(body) // n)
        reduced = False
        for i in range(0, len(body), chunk):
            cand = body[:i] + body[i + chunk:]
            calls += 1
            if cand and fails(head + cand):
                body = cand; n = max(n - 1, 2); reduced = True
                break
            if calls >= budget:
                break
        if not reduced:
            if chunk == 1:
                break
            n = min(len(body), n * 2)
    return head + body


# ---------------------------------------------------------------------------------------------
# Known findings, verdicts, evidence

def load_known():
    p = os.path.join(ROOT, "known_findings.json")
    if not os.path.exists(p):
        return {"findings": [], "fixed": []}
    return json.load(open(p))


def match_known(prop, signature):
    """A violation is a known finding iff every field of some open entry's signature equals
    the corresponding field of the violation's signature (a list in the entry = any of these values)."""
    for f in load_known().get("findings", []):
        if f.get("property") != prop or f.get("status", "open") != "open":
            continue
        sig = f.get("signature", {})
        if all((signature.get(k) in v) if isinstance(v, list) else (signature.get(k) == v) for k, v in sig.items()):
            return f
    return None


class Report:
    def __init__(self, prop, tier, seed, level="proof"):
        self.prop, self.tier, self.seed, self.level = prop, tier, seed, level
        self.t0 = time.time()
        self.violations = []      # (replay_path, suffix)
        self.known = []
        self.coverage = {}
        self.assumptions = []
        self.notes = []

    def write_replay(self, name, payload):
        d = os.path.join(REPLAYS, self.prop)
        os.makedirs(d, exist_ok=True)
        p = os.path.join(d, name)
        with open(p, "w") as f:
            if isinstance(payload, str):
                f.write(payload)
            else:
                json.dump(payload, f, indent=1)
        return p

    def violation(self, replay_path, no_input=False):
        self.violations.append((replay_path, no_input))

    def known_finding(self, entry):
        if entry["id"] not in [k["id"] for k in self.known]:
            self.known.append(entry)

    def finish(self):
        os.makedirs(EVID, exist_ok=True)
        ev = {
            "property_id": self.prop, "tier": self.tier, "seed": self.seed, "level": self.level,
            "coverage": self.coverage, "assumptions": self.assumptions,
            "wall_s": round(time.time() - self.t0, 2), "violations": len(self.violations),
        }
        if self.notes:
            ev["coverage"]["notes"] = self.notes
        if self.known:
            ev["coverage"]["known_findings_reproduced"] = [k["id"] for k in self.known]
        json.dump(ev, open(os.path.join(EVID, self.prop + ".json"), "w"), indent=1)
        for k in self.known:
            print("KNOWN-FINDING: property=%s %s %s" % (self.prop, k["id"], k.get("what", "")))
        for path, no_input in self.violations:
            print("VIOLATION property=%s replay=%s%s" % (
                self.prop, path, " no-failing-input-found" if no_input else ""))
        cleanup()
        return 1 if self.violations else 0


def proof_stage(rep, module, extra_targets=("kyro_driver",), thorough=False, also=()):
    """Builds the theorem module + driver, audits axioms, scans sources.
    Returns (ok, info dict).  On failure the caller runs its search before reporting."""
    info = {"module": module}
    hits = source_scan()
    info["source_scan_hits"] = hits
    ok, log, secs = lake_build([module] + list(extra_targets), clean=thorough)
    info["lake_build_ok"] = ok
    info["lake_build_s"] = round(secs, 1)
    if not ok:
        errs = [l for l in log.split("\n") if "error" in l][:20]
        info["errors"] = errs
        info["errors_detail"] = [l for l in log.split("\n") if l.startswith("error")][:8]
        try:
            info["obligations"] = obligations_of(module) + sum((obligations_of(m) for m in also), [])
        except OSError:
            info["obligations"] = []
        info["discharged"] = 0
        return False, info
    names = obligations_of(module) + sum((obligations_of(m) for m in also), [])
    aok, per, alog = axiom_audit(module, names)
    info["obligations"] = names
    info["axioms"] = per
    info["axiom_audit_ok"] = aok
    if thorough:
        lok, llog = leanchecker([module])
        info["leanchecker_ok"] = lok
        if not lok:
            info["leanchecker_log"] = llog[-2000:]
        aok = aok and lok
    info["discharged"] = len([n for n in names if n in per and set(per[n]) <= ALLOWED_AXIOMS]) if aok or per else 0
    return (aok and not hits), info


def proof_coverage(rep, info, checker_cmd, trusted):
    rep.coverage["obligations"] = len(info.get("obligations", []))
    rep.coverage["discharged"] = info.get("discharged", 0)
    rep.coverage["checker_cmd"] = checker_cmd
    rep.coverage["trusted_base"] = trusted
    rep.coverage["theorems"] = info.get("obligations", [])
    ax = info.get("axioms", {})
    rep.coverage["axioms_used"] = sorted({a for v in ax.values() for a in v})
    rep.coverage["lake_build_s"] = info.get("lake_build_s")


def rng_for(seed, tag):
    h = hashlib.sha256(("%d/%s" % (seed, tag)).encode()).digest()
    return random.Random(int.from_bytes(h[:8], "big"))


def f32bits(x):
    import struct
    return struct.unpack("<I", struct.pack("<f", x))[0]


def bits_f32(b):
    import struct
    return struct.unpack("<f", struct.pack("<I", b & 0xFFFFFFFF))[0]


def hexs(s):
    return s.encode("utf-8").hex()


def show_vec(bits):
    return "-" if not bits else ",".join(str(b) for b in bits)


def show_meta(d):
    if not d:
        return "-"
    return "|".join("%s:%s" % (hexs(k), hexs(v)) for k, v in d.items())
