"""Generator, comparer and oracles for the `persist` engine (C01, C02, C03, C13 share it)."""
from .common import *
from . import corr
from .store import rand_vec, vbits

KEYS = ["a", "b"]
VALS = ["1", "2", "x", ""]


def rand_meta(rng):
    n = rng.choice([0, 1, 1, 2])
    return {rng.choice(KEYS): rng.choice(VALS) for _ in range(n)}


def split_line(l):
    """'<out> k=v k=v' -> (out, {k: v})"""
    parts = l.split(" ")
    out, kv = [], {}
    for p in parts:
        if "=" in p and p.split("=", 1)[0] in ("acts", "crash", "rec", "ploss", "plossn", "plossv", "views"):
            k, v = p.split("=", 1)
            kv[k] = v
        else:
            out.append(p)
    return " ".join(out), kv


def compare(impl, model):
    if model == "unpredicted":
        return True
    a, ka = split_line(impl)
    b, kb = split_line(model)
    if a != b:
        # fault sweep (C13): element-wise, the model abstains on faults it cannot express
        xs, ys = a.split("#"), b.split("#")
        if "unpredicted" in ys and len(xs) == len(ys) and all(y == "unpredicted" or x == y for x, y in zip(xs, ys)):
            return True
        return False
    if ka.get("acts", "") != kb.get("acts", ""):
        return False
    if "crash" in ka and ka["crash"]:
        rec = kb.get("rec", "").split("#")
        for item in ka["crash"].split("#"):
            j, o = item.split(":", 1)
            j = int(j)
            if j >= len(rec) or rec[j] != o:
                return False
    # power loss: the referenced view (MANIFEST + listed segments + pointed snapshot) of every directory a power failure can
    # leave inside this op must be the view of some action prefix of the model (the hypothesis of C01_power_loss_point)
    if ka.get("plossv", "-") not in ("-", "") and "views" in kb:
        mv = set(kb["views"].split("#"))
        for v in ka["plossv"].split("#"):
            if v not in mv:
                return False
    return True


corr.COMPARERS["persist"] = compare


def gen_case(rng, n_ops=25, crash=False, torn=False, fsync="always", invalid=True):
    dim = rng.choice([1, 3, 4, 8])
    metric = rng.choice(["l2", "cos", "ip"])
    cap = rng.choice([3, 4, 6, 100])
    snap = rng.choice([0, 1, 2, 3, 7, 1000])
    rot = rng.choice([1, 130, 300, 100000])
    ids = list(range(1, rng.choice([2, 3, 5]) + 1))
    ops = ["cfg dim=%d metric=%s cap=%d snap=%d rot=%d fsync=%s crash=%d torn=%d" % (
        dim, metric, cap, snap, rot, fsync, int(crash), int(torn))]
    for _ in range(n_ops):
        op = rng.choices(["insert", "delete", "batch_delete", "update", "snapshot", "restart"],
                         [46, 12, 6, 14, 8, 10])[0]
        i = rng.choice(ids)
        if op == "insert":
            bad = invalid and rng.random() < 0.12
            if bad:
                k = rng.choice(["dim", "nan", "inf", "zero", "huge"])
                if k == "dim":
                    v = rand_vec(rng, dim + 1)
                else:
                    v = rand_vec(rng, dim)
                    v[rng.randrange(dim)] = {"nan": float("nan"), "inf": float("inf"), "zero": 0.0, "huge": 3.0e38}[k]
                    if k == "zero":
                        v = [0.0] * dim
            else:
                v = rand_vec(rng, dim)
            ops.append("insert id=%d v=%s m=%s" % (i, vbits(v), show_meta(rand_meta(rng))))
        elif op == "delete":
            ops.append("delete id=%d" % i)
        elif op == "batch_delete":
            ops.append("batch_delete ids=%s" % show_vec([rng.choice(ids + [99]) for _ in range(rng.choice([0, 1, 2, 3]))]))
        elif op == "update":
            ops.append("update id=%d m=%s merge=%d" % (i, show_meta(rand_meta(rng)), rng.randrange(2)))
        else:
            ops.append(op)
        if rng.random() < 0.25:
            ops.append("disk")
    if rng.random() < 0.2:
        # motif: a batch delete of several LIVE ids, a re-insert of one of them (not the first) inside the next few
        # operations, a snapshot while the batch's sequence numbers are the newest, a restart (sequence-range bookkeeping of
        # multi-frame operations vs snapshot coverage; found missing from the random stream by seeded change C02-3)
        pool = rng.sample(ids, min(len(ids), rng.choice([2, 3]))) if len(ids) >= 2 else ids
        if len(pool) >= 2:
            m = []
            for i in pool:
                m.append("insert id=%d v=%s m=%s" % (i, vbits(rand_vec(rng, dim)), show_meta(rand_meta(rng))))
            m.append("batch_delete ids=%s" % show_vec(pool))
            back = rng.choice(pool[1:])
            m.append("insert id=%d v=%s m=%s" % (back, vbits(rand_vec(rng, dim)), show_meta(rand_meta(rng))))
            if rng.random() < 0.3 and len(pool) > 2:
                m.append("insert id=%d v=%s m=%s" % (pool[-1], vbits(rand_vec(rng, dim)), show_meta(rand_meta(rng))))
            if rng.random() < 0.8:
                m.append("snapshot")
            m += ["restart", "census"]
            ops += m
    ops += ["census", "disk", "restart", "census"]
    return ops


def canon_meta(d):
    return "-" if not d else "|".join("%s:%s" % (k, d[k]) for k in sorted(d))


def show_exp(exp):
    return "[" + ";".join("%d~%s~%s" % (k, exp[k][0], canon_meta(exp[k][1])) for k in sorted(exp)) + "]"


def fields(line):
    parts = line.split(" ")
    return parts[0], dict(p.split("=", 1) for p in parts[1:] if "=" in p)


def parse_meta_hex(s):
    if s in ("-", ""):
        return {}
    return dict(kv.split(":") for kv in s.split("|"))


def c13_class(label, view, man=None):
    if view.startswith("wsees"):
        parts = view.split(":")
        if "alt" in parts[4:]:
            return "c13-wal-altered-entry"
        if parts[3] != "0":
            return "c13-wal-corruption-accepted"
        # which byte-level damage produced the clean-looking shorter segment matters: truncation and length-field
        # damage are outside every checksum (known), payload/checksum/magic damage is not
        lab = label.split(".")
        what = "trunc" if lab[1] == "trunc" else lab[2]
        return "c13-wal-silent-prefix:%s" % what
    if view.startswith(("wgone", "wopen")):
        return "c13-wal-missing-accepted"
    if view.startswith(("sbad", "sgone")):
        return "c13-snapshot-fallback"
    if view.startswith("salt"):
        return "c13-snapshot-altered"
    if view == "mgone":
        return "c13-manifest-gone-accepted"
    if view.startswith("m:") and view != "m:unparsable":
        # WHICH field of the parsed MANIFEST differs from the original decides the class (the MANIFEST has no checksum: some
        # of these are a known finding; a new way of accepting an altered MANIFEST is a new class)
        cls = []
        o, n = (man or "").split("/"), view[2:].split("/")
        if len(o) == 3 and len(n) == 3:
            if o[0] != n[0]:
                cls.append("snap-dropped" if n[0] == "-" else "snap-changed")
            if o[1] != n[1]:
                cls.append("snapseq-dropped" if n[1] == "-" else "snapseq-changed")
            if o[2] != n[2]:
                on, nn = o[2].split(","), n[2].split(",")
                cls.append("segs-emptied" if n[2] == "-" else "segs-shorter" if len(nn) < len(on) else
                           "segs-longer" if len(nn) > len(on) else "segs-entry-changed")
        return "c13-manifest-altered:" + ("+".join(cls) if cls else "other")
    return "c13-other"


def sweep_items(f, r):
    """[(label, concrete, view, outcome)] of a sweep line"""
    if f.get("faults", "-") == "-":
        return []
    fl = f["faults"].split("#")
    outs = r.split("#")
    items = []
    for j, x in enumerate(fl):
        lab, conc, view = x.split("@", 2)
        items.append((lab, conc, view, outs[j] if j < len(outs) else "<missing>"))
    return items


def sweep_oracle(i, f, r):
    """C13: after a single fault, strict start-up refuses or yields exactly the pre-damage collection.
    Truncation of the newest segment is the crash case of C01 and excluded."""
    base = f.get("base", "")
    fails = []
    if base.startswith("err:"):
        return fails
    seen = set()
    for lab, conc, view, out in sweep_items(f, r):
        if out == "skipped" or (lab.startswith("wal.trunc.") and lab.endswith(".newest")):
            continue
        if out.startswith("err:") or out == base:
            continue
        k = c13_class(lab, view, f.get("man"))
        if k in seen:
            continue
        seen.add(k)
        fails.append((k, i, "fault %s (%s; the readers see %s): strict start-up SUCCEEDS with %s, pre-damage collection %s" % (
            conc, lab, view, out[:200], base[:200])))
    return fails


def kvs(r):
    return dict(p.split("=", 1) for p in r.split(" ") if "=" in p)


def bk_chain(bk, k):
    chain = []
    while k is not None and k in bk and not bk[k]["gone"]:
        chain.append(k)
        if bk[k]["full"]:
            return list(reversed(chain))
        k = bk[k]["parent"]
    return None


def pitr_choice(bk, t):
    """(last backup of the chain PITR selects, ambiguous?)"""
    live = [k for k in bk if not bk[k]["gone"]]
    fulls = [k for k in live if bk[k]["full"] and bk[k]["ts"] <= t]
    if not fulls:
        return None, False
    mt = max(bk[k]["ts"] for k in fulls)
    amb = sum(1 for k in fulls if bk[k]["ts"] == mt) > 1
    cur = [k for k in fulls if bk[k]["ts"] == mt][0]
    chain = [cur]
    while True:
        kids = [k for k in live if not bk[k]["full"] and bk[k]["parent"] == cur and bk[k]["ts"] <= t]
        if not kids:
            break
        mt = max(bk[k]["ts"] for k in kids)
        amb = amb or sum(1 for k in kids if bk[k]["ts"] == mt) > 1
        cur = [k for k in kids if bk[k]["ts"] == mt][0]
        chain.append(cur)
    return chain, amb


def backup_oracle(i, op, f, r, exp, bk):
    """C12: (i) restoring a verified backup/chain/PITR target into an empty (or confirmed-clear) directory yields exactly
    the collection as of that backup; (ii) a chain with an altered archive or metadata is refused with the target
    untouched - or, when the alteration is immaterial, still yields exactly that collection; (iii) a non-empty target is
    never cleared without confirmation; (iv) pruning keeps the ancestors of whatever it keeps."""
    fails = []
    kv = kvs(r)
    if op in ("bk_full", "bk_incr"):
        if r.startswith("ok "):
            k = int(kv["b"])
            bk[k] = {"exp": show_exp(exp), "parent": None if kv["parent"] == "-" else int(kv["parent"]), "ts": int(kv["ts"]),
                     "full": kv["type"] == "full", "gone": False, "damaged": None}
    elif op == "bk_damage":
        if r.startswith("ok ") and int(f["b"]) in bk:
            bk[int(f["b"])]["damaged"] = "%s.%s" % (f.get("what"), kv.get("field", "?"))
    elif op in ("bk_restore", "bk_pitr"):
        dirty, clear = f.get("target") == "dirty", f.get("clear") == "1"
        if op == "bk_restore":
            chain, amb = bk_chain(bk, int(f["b"])), False
        else:
            chain, amb = pitr_choice(bk, int(f["ts"]))
        if amb:
            return fails
        junk = kv.get("junk", "-")
        ok = r.startswith("ok ")
        if dirty and not clear and (junk != "kept" or ok):
            fails.append(("c12-cleared-without-confirmation", i, "`%s`: non-empty target and no confirmation, result `%s`" % (op, r[:120])))
            return fails
        if not ok and (kv.get("touched", "0") != "0" or junk == "gone"):
            fails.append(("c12-refused-but-touched", i, "`%s` failed (%s) after touching the target directory" % (op, r[:120])))
            return fails
        if chain is None:
            if ok:
                fails.append(("c12-restored-without-chain", i, "`%s` succeeded although the chain is incomplete: %s" % (op, r[:120])))
            return fails
        want = bk[chain[-1]]["exp"]
        dmg = [bk[k]["damaged"] for k in chain if bk[k]["damaged"]]
        rec = r.split(" rec=", 1)[1].split(" junk=")[0] if ok else None
        if dmg:
            if ok and rec != want:
                what = dmg[0]
                kind = "c12-archive-structure-unchecked" if what.startswith("tar.") and what.split(".")[1] in ("name", "namelen", "count", "datalen", "past-end") \
                    else "c12-metadata-altered-accepted" if what.startswith("json") else "c12-altered-accepted"
                fails.append((kind, i, "chain %s has an altered member (%s) but `%s` proceeds and the restored directory gives %s, "
                              "collection at backup time %s" % (chain, what, op, rec[:160], want[:160])))
            return fails
        if not ok:
            if not (dirty and not clear):
                fails.append(("c12-verified-restore-fails", i, "`%s` of the verified chain %s fails: %s" % (op, chain, r[:120])))
        elif rec != want:
            fails.append(("c12-restore-differs", i, "`%s` of the verified chain %s yields %s, collection when backup %d was taken: %s" % (
                op, chain, rec[:200], chain[-1], want[:200])))
    elif op == "bk_prune":
        if r.startswith("deleted="):
            dels = [] if kv["deleted"] == "-" else [int(x) for x in kv["deleted"].split(",")]
            for k in dels:
                if k in bk:
                    bk[k]["gone"] = True
            for k in bk:
                if not bk[k]["gone"]:
                    p = bk[k]["parent"]
                    if p is not None and p in bk and bk[p]["gone"]:
                        fails.append(("c12-prune-orphans", i, "`%s` deleted backup %d, the parent of retained backup %d" % (" ".join("%s=%s" % x for x in f.items()), p, k)))
                        break
    return fails


def oracle(raw, ann, res):
    """Property oracles evaluated on the implementation's outputs only.
       c02: census after a restart == fold of the acknowledged ops (== live state before it)
       c01: every kill point recovers to acked or acked+in-flight, never an error
       c03: an op that reports failure leaves live and recovered state unchanged"""
    fails = []
    exp = {}
    down = False
    bk = {}          # backup index -> dict(exp=collection when taken, parent, ts, full, gone, damaged=field or None)
    for i, (a, r) in enumerate(zip(ann, res)):
        op, f = fields(a)
        out, kv = split_line(r)
        if op.startswith("bk_") or op == "tick":
            fails += backup_oracle(i, op, f, r, exp, bk)
            continue
        if out.startswith("panic"):
            fails.append(("panic", i, out)); continue
        before = dict(exp)
        inflight_ok = False
        if out == "down":
            continue
        if op == "insert":
            if out == "ok":
                exp[int(f["id"])] = (f["stored"], parse_meta_hex(f["m"]))
            inflight_ok = True
        elif op == "delete":
            if out == "true":
                exp.pop(int(f["id"]), None)
            inflight_ok = True
        elif op == "batch_delete":
            if out.isdigit():
                for x in (f["ids"].split(",") if f["ids"] != "-" else []):
                    exp.pop(int(x), None)
            inflight_ok = True
        elif op == "update":
            if out == "true" and int(f["id"]) in exp:
                m = parse_meta_hex(f["m"])
                nm = dict(exp[int(f["id"])][1]) if f["merge"] == "1" else {}
                nm.update(m)
                exp[int(f["id"])] = (exp[int(f["id"])][0], nm)
            inflight_ok = True
        elif op == "restart":
            if out != "ok":
                down = True
                if int(f.get("io", "0")) == 0:       # a restart that hit an injected fault may fail
                    fails.append(("c02-restart-refused", i, "clean restart refused: %s" % out))
        elif op == "sweep":
            fails += sweep_oracle(i, f, r)
        elif op == "census":
            if out != show_exp(exp):
                fails.append(("c02", i, "census %s differs from the fold of acknowledged ops %s" % (out, show_exp(exp))))
        # crash points of this op (kill model)
        if kv.get("crash"):
            allowed = {show_exp(before), show_exp(exp)}
            partial = set()
            if op == "batch_delete":
                cur = dict(before)
                for x in (f["ids"].split(",") if f["ids"] != "-" else []):
                    if int(x) in cur:
                        cur.pop(int(x))
                        partial.add(show_exp(cur))
                partial -= allowed
            if op == "insert" and inflight_ok and f.get("accept") == "index":
                # in-flight insert that will be refused by the index: its logged form may be visible
                pass
            items = kv["crash"].split("#")
            for item in items:
                j, o = item.split(":", 1)
                if op == "cfg":
                    if o not in ("[]", "err:no_manifest"):
                        fails.append(("c01", i, "crash during initialisation recovers to %s" % o))
                    continue
                if o.startswith("err:"):
                    fails.append(("c01-restart-fails", i, "kill point (after %s actions) of `%s`: strict restart fails with %s" % (j, a[:60], o)))
                elif o in partial:
                    fails.append(("c01-batch-partial", i, "kill point inside `%s` recovers to %s: a proper prefix of the batch is applied" % (a[:60], o)))
                elif o not in allowed:
                    if op == "insert" and f.get("accept") == "index":
                        fails.append(("c03-index-reject", i, "kill point of a refused insert recovers to %s, acknowledged state is %s" % (o, show_exp(before))))
                    else:
                        fails.append(("c01", i, "kill point (after %s actions) of `%s` recovers to %s; allowed %s" % (j, a[:60], o, sorted(allowed))))
            # the same instants under POWER LOSS (fsync=always): un-synced bytes and un-synced directory changes dropped
            for o in (kv.get("ploss", "-").split("#") if kv.get("ploss", "-") != "-" else []):
                if op == "cfg":
                    if o not in ("[]", "err:no_manifest"):
                        fails.append(("c01-power-loss", i, "power loss during initialisation recovers to %s" % o))
                elif o.startswith("err:"):
                    fails.append(("c01-power-loss", i, "power loss inside `%s`: strict restart fails with %s (every kill point of the op recovers)" % (a[:60], o)))
                elif o in partial:
                    fails.append(("c01-batch-partial", i, "power loss inside `%s` recovers to %s: a proper prefix of the batch is applied" % (a[:60], o)))
                elif o not in allowed:
                    fails.append(("c01-power-loss", i, "power loss inside `%s` recovers to %s; allowed %s" % (a[:60], o, sorted(allowed))))
            # a failed op must leave the recovered state unchanged (last crash point = op boundary)
            if op in ("insert", "delete", "batch_delete", "update") and out in ("rejected", "full", "err"):
                last = items[-1].split(":", 1)[1]
                if last != show_exp(before):
                    fails.append(("c03-index-reject" if f.get("accept") == "index" else "c03", i,
                                  "`%s` reported failure but the state recovered after it is %s, before it %s" % (a[:60], last, show_exp(before))))
    return fails
