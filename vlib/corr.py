"""Correspondence runner: real code vs Lean model on the same op lines, plus property oracle."""
from .common import *


def strip_amb(s):
    return re.sub(r" amb=\d", "", s)


RUNNERS = {}       # engine -> f(cases) -> case dicts (engines that are not one in-process harness run)
FIRST_MISMATCH = {}


def run_cases(engine, cases, chunk=150):
    """cases: list of raw op lists (each starting with a cfg line).
    Returns per case: dict(raw, ann, impl, model, err)"""
    if engine in RUNNERS:
        return RUNNERS[engine](cases)
    out = []
    for c0 in range(0, len(cases), chunk):
        part = cases[c0:c0 + chunk]
        flat = [l for c in part for l in c]
        ann, res, err, rc = run_harness(engine, flat)
        anns = split_cases(ann)
        ress, k = [], 0
        for a in anns:
            ress.append(res[k:k + len(a)]); k += len(a)
        if rc != 0 or len(anns) != len(part) or any(len(a) != len(c) for a, c in zip(anns, part)):
            # a crash / wedge inside the chunk: fall back to one process per case
            anns, ress = [], []
            for c in part:
                a, r, e, rc1 = run_harness(engine, c)
                anns.append(a); ress.append(r)
                if rc1 != 0 or len(a) != len(c):
                    ress[-1] = r + ["<harness-died rc=%s %s>" % (rc1, e.strip().split("\n")[-1] if e.strip() else "")]
        flat_ann = [l for a in anns for l in a]
        mres, merr, mrc = run_driver(engine, flat_ann)
        k = 0
        for c, a, r in zip(part, anns, ress):
            m = mres[k:k + len(a)]; k += len(a)
            out.append({"raw": c, "ann": a, "impl": r, "model": m, "engine": engine})
    return out


COMPARERS = {}     # engine -> f(impl_line, model_line) -> bool (equal)


def first_mismatch(case):
    """index of the first op whose canonical result differs (ambiguous float boundaries end the
    comparison of that case), or None"""
    if case.get("engine") in FIRST_MISMATCH:
        return FIRST_MISMATCH[case["engine"]](case)
    cmp = COMPARERS.get(case.get("engine"))
    for i, (a, b) in enumerate(zip(case["impl"], case["model"])):
        if cmp is not None:
            if "amb=1" in a or "amb=1" in b:
                return None
            if not cmp(a, b):
                return i
            continue
        if "amb=1" in a or "amb=1" in b:
            return None
        if strip_amb(a) != strip_amb(b):
            return i
    if len(case["impl"]) != len(case["model"]) or len(case["impl"]) != len(case["raw"]):
        return min(len(case["impl"]), len(case["model"]))
    return None


def shrink(engine, raw, pred, budget=250):
    """pred(case_dict) -> bool (failure still present)"""
    def fails(ops):
        r = run_cases(engine, [ops])
        return bool(r) and pred(r[0])
    return ddmin(raw, fails, keep_prefix=1, budget=budget)


def case_text(engine, case, note=""):
    lines = ["# engine=%s" % engine]
    if note:
        lines += ["# " + l for l in note.split("\n")]
    lines += ["# raw ops (replay with: ./check <prop> --replay <this file>)"]
    lines += case["raw"]
    lines += ["# --- annotated ops | implementation | model"]
    for i, a in enumerate(case["ann"]):
        im = case["impl"][i] if i < len(case["impl"]) else "<missing>"
        mo = case["model"][i] if i < len(case["model"]) else "<missing>"
        cmp = COMPARERS.get(engine)
        same = cmp(im, mo) if cmp else strip_amb(im) == strip_amb(mo)
        lines.append("#   %s | %s | %s%s" % (a, im, mo, "" if same else "   <== differs"))
    return "\n".join(lines) + "\n"


def read_replay(path):
    eng, ops = None, []
    for l in open(path):
        l = l.rstrip("\n")
        if l.startswith("# engine="):
            eng = l.split("=", 1)[1].strip()
        if l.startswith("#") or not l.strip():
            continue
        ops.append(l)
    return eng, ops


def collect(engine, cases, oracle, kinds, rep, stats):
    """runs cases, returns findings (mismatches + oracle failures of the given kinds)"""
    findings = []
    results = run_cases(engine, cases)
    for c in results:
        stats["cases"] += 1
        stats["ops"] += len(c["raw"])
        key = hashlib.sha1("\n".join(c["ann"]).encode()).hexdigest()
        if key not in stats["distinct"]:
            stats["distinct"].add(key)
        mi = first_mismatch(c)
        if mi is not None:
            findings.append({"kind": "mismatch", "engine": engine, "case": c, "idx": mi,
                             "msg": "op %d `%s`: impl `%s` vs model `%s`" % (
                                 mi, c["ann"][mi] if mi < len(c["ann"]) else "?",
                                 c["impl"][mi] if mi < len(c["impl"]) else "<missing>",
                                 c["model"][mi] if mi < len(c["model"]) else "<missing>"),
                             "pred": (lambda cc: first_mismatch(cc) is not None)})
        else:
            stats["validated"] += 1
        for kind, idx, msg in oracle(c["raw"], c["ann"], c["impl"]):
            if kind not in kinds:
                continue
            strat = re.search(r"strat=(\w+)", c["ann"][0])
            sig = {"engine": engine, "kind": kind, "strategy": strat.group(1) if strat else None}
            findings.append({"kind": "oracle", "engine": engine, "case": c, "idx": idx, "msg": msg, "sig": sig,
                             "pred": (lambda cc, kind=kind: any(k == kind for k, _, _ in oracle(cc["raw"], cc["ann"], cc["impl"])))})
    return findings


