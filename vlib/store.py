"""Generator + oracle for the `store` engine (C11 filters; also feeds C02/C06 store-level cases)."""
from .common import *

KEYS = ["a", "b", "c"]
VALUE_POOL = ["1", "2", "10", "9", "-1", "1.5", "1.50", "2e0", "1e1", "0", "-0", "+0", "0.0", "inf", "-inf",
              "+inf", "infinity", "NaN", "nan", "+1", " 1", "1 ", "", "x", "abc", "ab", "b", "é", "日本", "1_000",
              "0x10", "1e400", "-1e400", "1e-400", ".5", "5.", "Z" * 300, "2023-01-01", "2022-12-31", "١"]


def rand_meta(rng, pool):
    n = rng.choice([0, 1, 1, 2, 2, 3])
    return {rng.choice(KEYS): rng.choice(pool) for _ in range(n)}


def rand_vec(rng, dim):
    return [float(rng.choice([-3, -2, -1, -0.5, 0.25, 0.5, 1, 2, 3, 7])) for _ in range(dim)]


def vbits(v):
    return show_vec([f32bits(x) for x in v])


def leaf(rng, pool):
    k = hexs(rng.choice(KEYS + ["zz"]))
    t = rng.choice(["exact", "range", "range", "range", "in", "none"])
    if t == "none":
        return ["none"]
    if t == "exact":
        return ["exact", k, hexs(rng.choice(pool))]
    if t == "in":
        n = rng.choice([0, 1, 2, 3])
        return ["in", k, str(n)] + [hexs(rng.choice(pool)) for _ in range(n)]
    b = rng.choice(["nobound", "ge", "le", "gt", "lt", "ge", "le", "gt", "lt"])
    if b == "nobound":
        return ["range", k, "nobound"]
    return ["range", k, b, hexs(rng.choice(pool))]


def rand_filter(rng, pool, depth):
    if depth == 0 or rng.random() < 0.35:
        return leaf(rng, pool)
    t = rng.choice(["and", "or", "not", "and", "or", "not", "not0"])
    if t == "not0":
        return ["not", "0"]
    if t == "not":
        return ["not", "1"] + rand_filter(rng, pool, depth - 1)
    n = rng.choice([0, 1, 2, 2, 3])
    out = [t, str(n)]
    for _ in range(n):
        out += rand_filter(rng, pool, depth - 1)
    return out


def gen_case(rng, n_ops=30, n_filters=60, depth=3):
    dim = rng.choice([2, 3])
    cap = rng.choice([3, 4, 6, 50])
    metric = rng.choice(["l2", "cos", "ip"])
    pool = rng.sample(VALUE_POOL, rng.choice([5, 8, 12]))
    # strata that must meet each other inside one history: a NaN literal, an infinity, a signed zero, an ordinary
    # number and a non-numeric string (index maintenance differs per class; transitions between classes under
    # update/overwrite/delete are where stale index entries come from)
    for stratum, p in ((["NaN", "nan"], 0.6), (["inf", "-inf", "infinity"], 0.4), (["0", "-0", "+0", "0.0"], 0.4),
                       (["1", "2", "10", "9", "1.5"], 0.9), (["x", "abc", "b", ""], 0.9)):
        if rng.random() < p and not any(v in pool for v in stratum):
            pool.append(rng.choice(stratum))
    ids = list(range(1, rng.choice([3, 5, 7]) + 1))
    ops = ["cfg dim=%d cap=%d metric=%s" % (dim, cap, metric)]

    def filters(k):
        for _ in range(k):
            ops.append("filter f=%s" % ",".join(rand_filter(rng, pool, rng.randrange(depth + 1))))

    for _ in range(n_ops):
        op = rng.choices(["insert", "delete", "batch_delete", "update", "filters"], [40, 12, 6, 22, 20])[0]
        i = rng.choice(ids)
        if op == "insert":
            bad = rng.random() < 0.08
            v = rand_vec(rng, dim + 1) if bad and rng.random() < 0.5 else rand_vec(rng, dim)
            if bad and len(v) == dim:
                v[0] = float("nan")
            ops.append("insert id=%d v=%s m=%s" % (i, vbits(v), show_meta(rand_meta(rng, pool))))
        elif op == "delete":
            ops.append("delete id=%d" % i)
        elif op == "batch_delete":
            ops.append("batch_delete ids=%s" % show_vec([rng.choice(ids + [99]) for _ in range(rng.choice([0, 1, 2, 3]))]))
        elif op == "update":
            ops.append("update id=%d m=%s merge=%d" % (i, show_meta(rand_meta(rng, pool)), rng.randrange(2)))
        else:
            filters(max(1, n_filters // 6))
    filters(n_filters // 2)
    ops.append("census")
    return ops


def f_get(r, k):
    for p in r.split(" "):
        if p.startswith(k + "="):
            return p[len(k) + 1:]
    return None


def oracle(raw, ann, res):
    """C11 on the implementation: the index-selected id set equals the reference scan."""
    fails = []
    for i, (a, r) in enumerate(zip(ann, res)):
        if r.startswith("panic"):
            fails.append(("panic", i, r)); continue
        if a.startswith("filter "):
            ids, n, sc = f_get(r, "ids"), f_get(r, "n"), f_get(r, "scan")
            if ids is None:
                fails.append(("harness", i, r)); continue
            if ids != sc:
                fails.append(("c11", i, "filter selects %s, reference semantics selects %s" % (ids, sc)))
            cnt = 0 if ids == "-" else len(ids.split(","))
            if int(n) != cnt:
                fails.append(("c11", i, "index returned %s ids with duplicates (%d distinct)" % (n, cnt)))
    return fails
