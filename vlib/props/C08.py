"""C08 — no interleaving of concurrent API calls can deadlock."""
import itertools
from ..common import *
from .. import common, conc

MODULE = "KyroModel.Theorems.C08"
GENERATED = ["KyroModel.Conc.LockGraphGenerated", "KyroModel.Conc.LockSystem"]
TRUSTED = [
    "Lean 4 kernel; axioms allowed: propext, Classical.choice, Quot.sound (audited per theorem)",
    "controlled scheduler (harness/src/sched.rs) + hooks in a vendored copy of parking_lot 0.12.5 (harness/vendor/parking_lot, [patch.crates-io] of the harness only): managed threads run the real engine code one at a time; every Mutex/RwLock acquisition attempt is a scheduling point; lock model = mutex, rwlock with writer preference, upgradable read / upgrade, no reentrancy — the same model as Conc/LockSystem.lean",
    "translators/xlate_locks.py: observed nesting edges -> ranks (topological sort) + `decide` obligations; fails closed on cycles and re-entrant acquisitions",
    "coverage assumption (partial): the nesting exhibited by the catalogue of API operations (every unordered pair, DFS with preemption bound, plus random triples) is all the nesting the code has; blocking other than parking_lot locks (none in the sync API) and the async server paths are not covered",
]
CATALOGUE = ["ins:1:5", "ins:3:6", "del:1", "del:2", "q:1", "q:2", "dm:1", "bq:1,2", "ea:2", "ex:1", "um:1:7", "knn:1",
             "flush", "snap", "stats", "bd:1,2", "bdf:1", "bl:1:8", "kb:1",
             # a near-duplicate of a query cached just before: the semantic (similarity) hit path of the query cache
             "kn:1;kn:2", "kn:3", "nf"]


def programs(thorough, rng):
    pairs = list(itertools.combinations_with_replacement(CATALOGUE, 2))
    lines = []
    for a, b in pairs:
        lines.append("explore t0=%s t1=%s mode=dfs bound=%d max=%d persist=1 snap=0 rot=0" % (
            a, b, 2 if thorough else 1, 4000 if thorough else 120))
    # a recent-write tier that has NEVER been drained (the default warm-up drains it once): the ticker's conditional flush against
    # the operations that touch the tier (seeded change C08-4: `needs_flush` nested stats -> documents on that branch only)
    for b in ["del:1", "bd:1,2", "ins:3:6", "flush", "um:1:7", "nf"]:
        lines.append("explore cold=1 warm=ins:1:1;ins:2:2;q:1 t0=nf t1=%s mode=dfs bound=%d max=%d persist=1 snap=0 rot=0" % (
            b, 2 if thorough else 1, 4000 if thorough else 120))
    # two-op threads and triples, random schedules
    for _ in range(60 if thorough else 12):
        ts = [";".join(rng.choice(CATALOGUE) for _ in range(rng.choice([1, 2]))) for _ in range(3)]
        lines.append("explore t0=%s t1=%s t2=%s mode=random seed=%d max=%d persist=1 snap=2 rot=200" % (
            ts[0], ts[1], ts[2], rng.randrange(10 ** 6), 300 if thorough else 40))
    return lines


def run(tier, seed, replay):
    rep = Report("C08", tier, seed, level="proof")
    thorough = tier == "thorough"
    bok, blog, bsecs = cargo_build()
    if not bok:
        rep.violation(rep.write_replay("harness_build.log", blog[-4000:]), no_input=True)
        return rep.finish()
    rng = rng_for(seed, "C08")
    if replay:
        lines = [l for l in open(replay).read().split("\n") if l.startswith(("explore ", "replay "))]
    else:
        lines = []
        d = os.path.join(CORPUS, "C08")
        for p in sorted(os.listdir(d)) if os.path.isdir(d) else []:
            lines += [l for l in open(os.path.join(d, p)).read().split("\n") if l.startswith(("explore ", "replay "))]
        lines += programs(thorough, rng)
    # parallel: split the lines over worker processes
    import concurrent.futures
    chunks = [lines[i::12] for i in range(12)]
    results = []
    with concurrent.futures.ThreadPoolExecutor(max_workers=12) as ex:
        for part in ex.map(lambda ch: conc.explore(ch) if ch else [], chunks):
            results += part
    edges, locks, runs, steps, deadlocks, died = set(), {}, 0, 0, [], []
    cfgs = {}

    def renum(tok, base):
        return re.sub(r"L(\d+)", lambda m: "L%d" % (base + int(m.group(1))), tok)

    for line, r in results:
        if r is None:
            died.append(line); continue
        runs += r["runs"]; steps += r["steps"]
        # lock names (order of first acquisition in the warm-up) are comparable only between engines of one configuration
        f = dict(p.split("=", 1) for p in line.split(" ") if "=" in p)
        key = "persist=%s snap=%s rot=%s" % (f.get("persist", "0"), f.get("snap", "0"), f.get("rot", "0")) + (" cold=1" if f.get("cold") == "1" else "")
        base = cfgs.setdefault(key, 100 * len(cfgs))
        edges |= {renum(e, base) for e in r["edges"]}
        for l in r["locks"]:
            k, v = l.split("=", 1)
            locks.setdefault(renum(k, base), "%s {%s}" % (v, key))
        if r["deadlock"] not in ("-", ""):
            deadlocks.append((line, r))
    for line, r in deadlocks[:3]:
        prog = " ".join(p for p in line.split(" ") if p.startswith(("t0=", "t1=", "t2=", "t3=", "persist=", "snap=", "rot=", "warm=", "cold=")))
        p = rep.write_replay("deadlock_%s.ops" % hashlib.sha1(prog.encode()).hexdigest()[:10],
                             "# engine=conc\n# ORACLE FAILURE on the implementation: DEADLOCK under the controlled scheduler\n# %s\n"
                             "# locks: %s\nreplay %s schedule=%s\n" % (
                                 r["deadlock"].replace("_", " "), ", ".join("%s=%s" % kv for kv in sorted(locks.items())), prog, r["schedule"]))
        sig = {"engine": "conc", "kind": "c08-deadlock", "locks": "+".join(sorted(set(re.findall(r"L\d+", r["deadlock"]))))}
        kf = match_known("C08", sig)
        if kf:
            rep.known_finding(kf)
        else:
            rep.violation(p)
    for line in died[:1]:
        rep.violation(rep.write_replay("harness_died.ops", "# engine=conc\n# the harness produced no answer (crash or real lock-up) on:\n%s\n" % line), no_input=True)
    # regenerate the lock graph model from what was observed, then check the proofs against it
    gpath = os.path.join(scratch(), "lockgraph.json")
    json.dump({"locks": ["%s=%s" % kv for kv in sorted(locks.items(), key=lambda kv: int(kv[0][1:]))], "edges": sorted(edges)}, open(gpath, "w"))
    rc, tout, terr = common.run(["python3", os.path.join(ROOT, "translators", "xlate_locks.py"), gpath], cwd=ROOT)
    ok, info = proof_stage(rep, MODULE, extra_targets=(), thorough=thorough, also=GENERATED)
    info["translator"] = (tout + terr).strip()
    if not ok and not deadlocks:
        p = rep.write_replay("proof_obligation.json", {
            "broken": "the lock nesting observed on the current code does not admit a rank (cycle or re-entrant acquisition), or the C08 theorems no longer check",
            "details": {k: info.get(k) for k in ("errors", "errors_detail", "source_scan_hits", "axioms", "translator")},
            "edges": sorted(edges), "locks": locks,
            "search": "DFS over every pair of catalogue operations (preemption bound %d) and random triples: %d executions, no deadlock reached" % (2 if thorough else 1, runs)})
        rep.violation(p, no_input=True)
    proof_coverage(rep, info, "explore (conc engine) -> python3 translators/xlate_locks.py -> cd lean && lake build %s && <#print axioms audit>" % MODULE, TRUSTED)
    rep.coverage.update({
        "programs": len(lines),
        "traces_validated_against_impl": runs,
        "disagreements_checked": runs,
        "evaluations": runs,
        "distinct_nontrivial": len(lines),
        "scheduling_points": steps,
        "rule": "every unordered pair (incl. an operation with itself) of the API catalogue %s on one engine with persistence, "
                "stateless DFS over schedules at lock-acquisition granularity with preemption bound %d (capped per pair), plus random "
                "schedules of three threads of 1-2 operations with automatic snapshots and tiny rotation thresholds; a deadlock = no "
                "enabled thread; lock nesting edges accumulated over all executions" % (CATALOGUE, 2 if thorough else 1),
        "locks": locks, "nesting_edges": sorted(edges),
        "translator_output": info.get("translator"),
        "exhaustive": False,
        "harness_build_s": round(bsecs, 1),
    })
    rep.assumptions = ["coverage of lock nesting by the catalogue", "writer-preferring reader/writer locks as modelled"]
    return rep.finish()
