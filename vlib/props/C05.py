"""C05 — per-document operations are linearizable under concurrency."""
from ..common import *
from .. import common, conc

MODULE = "KyroModel.Theorems.C05"
TRUSTED = [
    "Lean 4 kernel; axioms allowed: propext, Classical.choice, Quot.sound (audited per theorem)",
    "controlled scheduler + vendored parking_lot hooks (see C08): real engine code, interleavings at lock-acquisition granularity (atomics and lock-free sections run atomically between scheduling points)",
    "linearizability checker (vlib/conc.py, Wing-Gong search) against the per-document register specification; intervals = positions of the invocation / return markers in the global event order",
    "Lean side: the reads' linearisation point is the token check (C04 canonical_check_sound: a copy passes the check iff it is the canonical vector); C05 theorems state what follows for a read made of ONE observation and exhibit the non-linearizable execution of a read made of TWO (vector leg, metadata leg)",
]
INIT = {1: ("1", "1"), 2: ("3", "3")}      # after the warm-up: doc 1 drained to the cold tier, doc 2 also in the hot tier
READS = ["q:%d", "ea:%d", "dm:%d", "ex:%d"]


def programs(thorough, rng):
    lines = []
    ids = [1, 2]
    progs = []
    # systematic two-thread programs on one id
    for id_ in ids:
        for w in ("ins:%d:5" % id_, "del:%d" % id_, "um:%d:7" % id_):
            for r in ("q:%d" % id_, "ea:%d" % id_, "dm:%d" % id_, "bq:1,2", "ex:%d" % id_):
                progs.append(([w], [r]))
                progs.append(([w], [r, r]))
        progs.append((["ins:%d:5" % id_], ["ins:%d:6" % id_, "dm:%d" % id_]))
        progs.append((["ins:%d:5" % id_, "del:%d" % id_], ["dm:%d" % id_, "q:%d" % id_]))
        progs.append((["del:%d" % id_, "ins:%d:5" % id_], ["dm:%d" % id_, "ea:%d" % id_]))
        progs.append((["ins:%d:5" % id_], ["del:%d" % id_, "q:%d" % id_]))
    for a, b in progs:
        lines.append("explore t0=%s t1=%s mode=dfs bound=%d max=%d" % (";".join(a), ";".join(b), 2, 2500 if thorough else 250))
    # the same through the RPC handlers (Query = read with metadata; build-time copy of kyrodb_server.rs, `limits=` world)
    for w in ("sins:0:1:5", "sdel:0:1", "sum:0:1:7", "sins:0:1:5;sdel:0:1", "sdel:0:1;sins:0:1:6"):
        for r in ("sq:0:1", "sq:0:1;sq:0:1"):
            for warm in ("warm=sins:0:1:1", "warm=sins:0:1:1;flush"):
                lines.append("explore limits=5,5 %s t0=%s t1=%s mode=dfs bound=2 max=%d" % (warm, w, r, 2000 if thorough else 220))
    # three threads, random schedules
    for _ in range(80 if thorough else 14):
        id_ = rng.choice(ids)
        ops = ["ins:%d:%d" % (id_, rng.choice([5, 6, 8])), "del:%d" % id_, "um:%d:7" % id_, "q:%d" % id_, "ea:%d" % id_,
               "dm:%d" % id_, "bq:1,2", "flush", "ins:%d:%d" % (3 - id_, 9)]
        ts = [";".join(rng.choice(ops) for _ in range(rng.choice([1, 2, 3]))) for _ in range(3)]
        lines.append("explore t0=%s t1=%s t2=%s mode=random seed=%d max=%d" % (ts[0], ts[1], ts[2], rng.randrange(10 ** 6), 600 if thorough else 80))
    return lines


def run(tier, seed, replay):
    rep = Report("C05", tier, seed, level="proof")
    thorough = tier == "thorough"
    ok, info = proof_stage(rep, MODULE, extra_targets=(), thorough=thorough)
    bok, blog, bsecs = cargo_build()
    if not bok:
        rep.violation(rep.write_replay("harness_build.log", blog[-4000:]), no_input=True)
        proof_coverage(rep, info, "lake build " + MODULE, TRUSTED)
        return rep.finish()
    rng = rng_for(seed, "C05")
    if replay:
        lines = [l for l in open(replay).read().split("\n") if l.startswith(("explore ", "replay "))]
    else:
        lines = []
        d = os.path.join(CORPUS, "C05")
        for p in sorted(os.listdir(d)) if os.path.isdir(d) else []:
            lines += [l for l in open(os.path.join(d, p)).read().split("\n") if l.startswith(("explore ", "replay "))]
        lines += programs(thorough, rng)
    import concurrent.futures
    chunks = [lines[i::12] for i in range(12)]
    results = []
    with concurrent.futures.ThreadPoolExecutor(max_workers=12) as ex:
        for part in ex.map(lambda ch: conc.explore(ch) if ch else [], chunks):
            results += part
    runs = hist = 0
    bad = {}
    for line, r in results:
        if r is None:
            rep.violation(rep.write_replay("harness_died.ops", "# engine=conc\n%s\n" % line), no_input=True)
            continue
        runs += r["runs"]
        if r["deadlock"] not in ("-", ""):
            continue        # C08's business
        srv = " limits=" in line
        for h in r["histories"]:
            hist += 1
            if srv:
                # RPC world: tenant 0's document 1 starts as (1,1); op names map onto the register operations
                for o in h["ops"]:
                    p = o["op"].split(":")
                    o["op"] = ":".join([{"sins": "ins", "sdel": "del", "sum": "um", "sq": "dm"}.get(p[0], p[0])] + p[2:])
                    if o["res"].startswith("err:"):
                        o["res"] = "err"
            res = conc.check_history(h, {1: ("1", "1")} if srv else INIT)
            if res:
                id_, txt, kind = res
                if kind == "order" and "flush" in line:
                    kind = "order-drain"      # a hot-tier drain runs concurrently (see KF-C05-drain-resurrects-deleted)
                if srv:
                    kind += "-rpc"
                bad.setdefault(kind, []).append((line, id_, txt))
    for kind, items in bad.items():
        line, id_, txt = min(items, key=lambda x: len(x[2]))
        prog = " ".join(p for p in line.split(" ") if p.startswith(("t0=", "t1=", "t2=", "t3=", "persist=", "warm=")))
        sig = {"engine": "conc", "kind": "c05-" + kind}
        kf = match_known("C05", sig)
        if kf:
            rep.known_finding(kf)
            continue
        p = rep.write_replay("nonlinearizable_%s.ops" % kind,
                             "# engine=conc\n# ORACLE FAILURE on the implementation: the sub-history of document %d has NO linearization (%s; %d such histories in this run)\n"
                             "# %s\n# initial state: doc1=(1,1) doc2=(3,3)\n%s\n" % (id_, kind, len(items), txt, line))
        rep.violation(p)
    if not ok and not bad:
        p = rep.write_replay("proof_obligation.json", {"broken": "C05 theorems no longer check",
                             "details": {k: info.get(k) for k in ("errors", "errors_detail", "source_scan_hits", "axioms")},
                             "search": "%d executions, %d distinct histories, all linearizable" % (runs, hist)})
        rep.violation(p, no_input=True)
    proof_coverage(rep, info, "cd lean && lake build %s && <#print axioms audit>" % MODULE, TRUSTED)
    rep.coverage.update({
        "programs": len(lines), "traces_validated_against_impl": hist, "disagreements_checked": hist,
        "evaluations": runs, "distinct_nontrivial": hist,
        "rule": "two client threads (writer: insert/overwrite/delete/metadata update; reader: point read, cache-aware read, read with "
                "metadata, bulk read, exists; 1-2 ops each) on ids 1 (cold only) and 2 (hot+cold): stateless DFS over schedules at "
                "lock-acquisition granularity, preemption bound 2; three threads of 1-3 ops with random schedules; every distinct "
                "history checked for per-document linearizability (bulk reads as one read per document)",
        "non_linearizable_by_kind": {k: len(v) for k, v in bad.items()},
        "exhaustive": False, "harness_build_s": round(bsecs, 1),
    })
    rep.assumptions = ["lock-acquisition granularity", "digest injective (C04)"]
    return rep.finish()
