"""C20 — caches and the recent-write tier stay within their configured bounds."""
from ..common import *
from .. import corr, tiered, qcache, verdict

MODULE = "KyroModel.Theorems.C20"
TRUSTED = [
    "Lean 4 kernel; axioms allowed: propext, Classical.choice, Quot.sound (audited per theorem with #print axioms)",
    "model KyroModel/Tiered/{Model,Ops,QueryCache}.lean is hand-written; tied to the code by the tiered and qcache correspondence runs of this check",
    "harness (kvh tiered/qcache), line-protocol canonicalisation, python generator/oracle",
    "oracle inputs not modelled: float normalisation (stored bits), admission decisions, ANN index verdicts, similarity order between queries",
]


def run(tier, seed, replay):
    rep = Report("C20", tier, seed)
    thorough = tier == "thorough"
    ok, info = proof_stage(rep, MODULE, thorough=thorough)
    bok, blog, bsecs = cargo_build()
    if not bok:
        p = rep.write_replay("harness_build.log", blog[-4000:])
        rep.violation(p, no_input=True)
        proof_coverage(rep, info, "lake build " + MODULE, TRUSTED)
        return rep.finish()
    stats = {"cases": 0, "ops": 0, "validated": 0, "distinct": set()}
    kinds = {"c20-l1a", "c20-l1a-ab", "c20-hot", "c20-qc", "panic"}
    findings = []
    if replay:
        eng, ops = corr.read_replay(replay)
        cases_t = [ops] if eng == "tiered" else []
        cases_q = [ops] if eng == "qcache" else []
    else:
        n = 3000 if thorough else 400
        rng = rng_for(seed, "C20/tiered")
        cases_t = []
        for p in sorted(os.listdir(os.path.join(CORPUS, "C20"))) if os.path.isdir(os.path.join(CORPUS, "C20")) else []:
            eng, ops = corr.read_replay(os.path.join(CORPUS, "C20", p))
            if eng == "tiered":
                cases_t.append(ops)
        for i in range(n):
            cases_t.append(tiered.gen_case(rng, pokes=(i % 5 >= 2), n_ops=60 if thorough else 35))
        rngq = rng_for(seed, "C20/qcache")
        cases_q = [qcache.gen_case(rngq, n_ops=60 if thorough else 40) for _ in range(n)]
    findings += corr.collect("tiered", cases_t, tiered.oracle, kinds, rep, stats)
    findings += corr.collect("qcache", cases_q, qcache.oracle, kinds, rep, stats)
    verdict.settle(rep, ok, info, findings, MODULE)
    proof_coverage(rep, info, "cd lean && lake build %s && lake env lean <#print axioms audit>" % MODULE, TRUSTED)
    rep.coverage.update({
        "traces_validated_against_impl": stats["validated"],
        "disagreements_checked": stats["cases"],
        "evaluations": stats["cases"],
        "distinct_nontrivial": len(stats["distinct"]),
        "rule": "seeded random op histories (tiered: writes/reads/drains/pokes with sizes after every op; qcache: "
                "stores/lookups/invalidations with len after every op); distinct by hash of the annotated op "
                "sequence; every case has >= 30 ops so all are non-trivial",
        "ops_executed": stats["ops"],
        "samples": [cases_t[-1][:12] if cases_t else [], cases_q[-1][:12] if cases_q else []],
        "harness_build_s": round(bsecs, 1),
    })
    rep.assumptions = ["circuit breakers closed (no timed searches in these histories)",
                       "sequential histories (concurrency is C05/C08)"]
    return rep.finish()
