"""C04 — lookups by id return the canonical latest version whatever the caches hold."""
from ..common import *
from .. import corr, tiered, verdict

MODULE = "KyroModel.Theorems.C04"
TRUSTED = [
    "Lean 4 kernel; axioms allowed: propext, Classical.choice, Quot.sound (audited per theorem)",
    "hypothesis of the read theorems: the 128-bit payload digest is injective on the vectors in play (Function.Injective digest)",
    "model KyroModel/Tiered/{Model,Ops}.lean is hand-written; tied to the code by the tiered correspondence run",
    "harness kvh tiered (observing CacheStrategy wrapper, pokes through insert_cached / hot_tier().insert_with_coherence)",
    "oracle inputs not modelled: normalised bits, admission decisions, cold-tier acceptance verdicts",
]


def run(tier, seed, replay):
    rep = Report("C04", tier, seed)
    thorough = tier == "thorough"
    ok, info = proof_stage(rep, MODULE, thorough=thorough)
    bok, blog, bsecs = cargo_build()
    if not bok:
        rep.violation(rep.write_replay("harness_build.log", blog[-4000:]), no_input=True)
        proof_coverage(rep, info, "lake build " + MODULE, TRUSTED)
        return rep.finish()
    stats = {"cases": 0, "ops": 0, "validated": 0, "distinct": set()}
    kinds = {"c04", "panic", "harness"}
    if replay:
        eng, ops = corr.read_replay(replay)
        cases = [ops]
    else:
        n = 4000 if thorough else 500
        rng = rng_for(seed, "C04/tiered")
        cases = []
        d = os.path.join(CORPUS, "C04")
        for p in sorted(os.listdir(d)) if os.path.isdir(d) else []:
            cases.append(corr.read_replay(os.path.join(d, p))[1])
        for i in range(n):
            cases.append(tiered.gen_case(rng, pokes=(i % 4 != 0), n_ops=70 if thorough else 40))
    findings = corr.collect("tiered", cases, tiered.oracle, kinds, rep, stats)
    verdict.settle(rep, ok, info, findings, MODULE)
    proof_coverage(rep, info, "cd lean && lake build %s && lake env lean <#print axioms audit>" % MODULE, TRUSTED)
    hist = {}
    for c in cases:
        for l in c:
            hist[l.split(" ")[0]] = hist.get(l.split(" ")[0], 0) + 1
    rep.coverage.update({
        "traces_validated_against_impl": stats["validated"],
        "disagreements_checked": stats["cases"],
        "evaluations": stats["cases"],
        "distinct_nontrivial": len(stats["distinct"]),
        "rule": "seeded random histories over a 3-6 id alphabet mixing every write/read flavour, drains, bulk loads, "
                "invalid inputs and (3 of 4 cases) adversarial plants of stale/corrupt/foreign cache and mirror entries; "
                "strategy x capacity {1,2,5} x hard limit {1,2,4} x metric; distinct by hash of the annotated op sequence",
        "op_histogram": hist,
        "ops_executed": stats["ops"],
        "samples": [cases[-1][:14]],
        "harness_build_s": round(bsecs, 1),
    })
    rep.assumptions = ["digest injective", "circuit breakers closed", "sequential histories (concurrency is C05)"]
    return rep.finish()
