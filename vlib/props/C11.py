"""C11 — metadata filters select exactly the matching documents."""
from ..common import *
from .. import corr, store, tiered, verdict

MODULE = "KyroModel.Theorems.C11"
TRUSTED = [
    "Lean 4 kernel; axioms allowed: propext, Classical.choice, Quot.sound (audited per theorem)",
    "models KyroModel/Store/{Filter,DocStore}.lean and deleteByFilter in Tiered/Model.lean are hand-written; tied to the code by the store and tiered correspondence runs",
    "str::parse::<f64> is an oracle: the harness reports each string's parse result (bits); theorems quantify over every parse function with results < 2^64",
    "IEEE comparison of f64 is modelled on bit patterns (sign/magnitude); validated against Rust's operators by every range filter of the correspondence run",
    "RoaringTreemap / BTreeMap / HashMap are modelled as finite sets / sorted maps (lists with membership semantics)",
]


def run(tier, seed, replay):
    rep = Report("C11", tier, seed)
    thorough = tier == "thorough"
    ok, info = proof_stage(rep, MODULE, thorough=thorough)
    bok, blog, bsecs = cargo_build()
    if not bok:
        rep.violation(rep.write_replay("harness_build.log", blog[-4000:]), no_input=True)
        proof_coverage(rep, info, "lake build " + MODULE, TRUSTED)
        return rep.finish()
    stats = {"cases": 0, "ops": 0, "validated": 0, "distinct": set()}
    cases_s, cases_t = [], []
    if replay:
        eng, ops = corr.read_replay(replay)
        (cases_s if eng == "store" else cases_t).append(ops)
    else:
        d = os.path.join(CORPUS, "C11")
        for p in sorted(os.listdir(d)) if os.path.isdir(d) else []:
            eng, ops = corr.read_replay(os.path.join(d, p))
            (cases_s if eng == "store" else cases_t).append(ops)
        rng = rng_for(seed, "C11/store")
        n = 2500 if thorough else 200
        for i in range(n):
            cases_s.append(store.gen_case(rng, n_ops=40 if thorough else 30, n_filters=120 if thorough else 60,
                                          depth=4 if thorough and i % 3 == 0 else 3))
        rngt = rng_for(seed, "C11/tiered")
        for i in range(n):
            cases_t.append(tiered.gen_case(rngt, pokes=(i % 3 == 0), filters=True, n_ops=45))
    findings = corr.collect("store", cases_s, store.oracle, {"c11", "panic", "harness"}, rep, stats)
    findings += corr.collect("tiered", cases_t, tiered.oracle, {"c11-engine", "panic", "harness"}, rep, stats)
    verdict.settle(rep, ok, info, findings, MODULE)
    proof_coverage(rep, info, "cd lean && lake build %s && lake env lean <#print axioms audit>" % MODULE, TRUSTED)
    nf = sum(1 for c in cases_s for l in c if l.startswith("filter "))
    kinds = {}
    for c in cases_s:
        for l in c:
            if l.startswith("filter "):
                for t in ("exact", "range", "in", "and", "or", "not", "none", "nobound"):
                    if t in l.split("=", 1)[1].split(","):
                        kinds[t] = kinds.get(t, 0) + 1
    rep.coverage.update({
        "traces_validated_against_impl": stats["validated"],
        "disagreements_checked": stats["cases"],
        "evaluations": nf + sum(1 for c in cases_t for l in c if l.startswith("delete_by_filter")),
        "distinct_nontrivial": len(stats["distinct"]),
        "rule": "store engine: random histories (insert/overwrite/delete/batch delete/metadata merge+replace/index-full "
                "compaction) over keys {a,b,c} and a value pool with integers, decimals, exponents, +-0, +-inf, NaN, leading "
                "'+', whitespace, empty, non-ASCII, 300-char strings; interleaved with random filter trees up to depth 3-4 "
                "(all leaf kinds, empty and/or/not); each filter evaluated by real ids_for_metadata_filter, real "
                "scan(matches) and the model. tiered engine: histories with batch_delete_by_metadata_filter. distinct = "
                "distinct annotated histories",
        "filters_evaluated": nf,
        "filter_node_kinds": kinds,
        "ops_executed": stats["ops"],
        "samples": [cases_s[-1][:6] + [l for l in cases_s[-1] if l.startswith("filter ")][:6], cases_t[-1][:10]],
        "harness_build_s": round(bsecs, 1),
    })
    rep.assumptions = ["64-bit hash / bitmap containers behave as sets", "parse results < 2^64 (they are u64 bit patterns)"]
    return rep.finish()
