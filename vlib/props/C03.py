"""C03 — a write that reports failure changes nothing, now or after restart."""
from ..common import *
from .. import persist
from .persist_common import run_persist_property

MODULE = "KyroModel.Theorems.C03"
TRUSTED = [
    "Lean 4 kernel; axioms allowed: propext, Classical.choice, Quot.sound (audited per theorem)",
    "model KyroModel/Persist/{Model,Ops}.lean; tie: persist correspondence run with every invalid-input class and kill-point enumeration (so 'after restart' is decided by the real recover)",
    "FS shim (effect log, fault injection)",
    "storage-fault half: decided by fault enumeration against the implementation, not by a theorem (see DESIGN.md)",
]


def gen(thorough, seed):
    rng = rng_for(seed, "C03/persist")
    n = 400 if thorough else 60
    out = []
    for i in range(n):
        c = persist.gen_case(rng, n_ops=30 if thorough else 18, crash=True, torn=False)
        out.append(c)
    return out


def run(tier, seed, replay):
    return run_persist_property(
        "C03", MODULE, TRUSTED, tier, seed, replay, gen,
        {"c03", "c03-index-reject", "c02", "panic"},
        "seeded random histories with ~12% invalid inserts (wrong dimension, NaN, Inf, zero vector, overflowing 3e38) and "
        "index-full situations (capacities 3..6), every op followed by the real strict recover on the materialised "
        "directory; a failed op must leave live census and recovered census unchanged",
        ["storage faults are exercised by the fault enumeration section"])
