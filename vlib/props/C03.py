"""C03 — a write that reports failure changes nothing, now or after restart."""
from ..common import *
from .. import persist
from .persist_common import run_persist_property

MODULE = "KyroModel.Theorems.C03"
TRUSTED = [
    "Lean 4 kernel; axioms allowed: propext, Classical.choice, Quot.sound (audited per theorem)",
    "model KyroModel/Persist/{Model,Ops}.lean; tie: persist correspondence run with every invalid-input class and kill-point enumeration (so 'after restart' is decided by the real recover)",
    "FS shim (effect log, fault injection)",
    "storage-fault half: decided by fault enumeration against the implementation, not by a theorem (see DESIGN.md)",
]


FAULTS = [
    # (call, errno, short, path) - frame write fails outright / after a short write; the sync after the frame fails;
    # the rollback's truncate fails as well (two faults armed together)
    ("write", 28, 0, "wal_"), ("write", 28, 10, "wal_"), ("write", 5, 0, "wal_"), ("write", 5, 10, "wal_"),
    ("write", 5, 4, "wal_"), ("write", 122, 30, "wal_"), ("write", 27, 1, "wal_"), ("write", 4, 7, "wal_"),
    ("fsync", 5, None, "wal_"), ("fsync", 28, None, "wal_"),
]
# publication faults: the MANIFEST rewrite of a log rotation / automatic snapshot inside a write op fails (temp-file create,
# write, fsync, rename), or the new segment / snapshot file cannot be created; the write op itself is acknowledged
# ("continuing with current WAL"), so everything acknowledged from then on must still be recoverable
PUB_FAULTS = [
    ("rename", 5, None, "MANIFEST"), ("rename", 28, None, "MANIFEST"), ("write", 28, 0, "MANIFEST"), ("write", 5, 3, "MANIFEST"),
    ("fsync", 5, None, "MANIFEST"), ("open", 28, None, "MANIFEST"), ("open", 13, None, "wal_"), ("open", 28, None, "snapshot_"),
    ("write", 28, 0, "snapshot_"), ("fsync", 5, None, "snapshot_"), ("rename", 5, None, "snapshot_"),
]


def with_faults(rng, case):
    """arms a storage fault in front of some of the write ops of a history (crash enumeration off for those histories'
    faulted ops); each faulted history ends with two clean restarts and a census"""
    out = [case[0].replace("crash=1", "crash=0")]
    for l in case[1:]:
        op = l.split(" ")[0]
        if op in ("insert", "delete", "update", "batch_delete", "snapshot") and rng.random() < 0.3:
            call, errno, short, path = rng.choice(PUB_FAULTS if op == "snapshot" or rng.random() < 0.35 else FAULTS)
            # nth=1 only inside a batch (second frame); elsewhere the second WAL write of an op is the magic of a
            # rotated segment, whose failure is swallowed by design (rotation is retried at the next write)
            f = "fault call=%s nth=%d errno=%d path=%s" % (call, rng.choice([0, 1]) if op == "batch_delete" and call == "write" else 0, errno, path)
            if short is not None:
                f += " short=%d" % short
            out.append(f)
            if rng.random() < 0.15:
                out.append("fault call=ftruncate nth=0 errno=5 path=wal_")
        out.append(l)
    return out + ["restart", "census", "restart", "census"]


def big_batch_fault_case(rng):
    """a batch delete of many live documents with a storage fault late in the batch: the batch is one retry / rollback unit,
    so a failed batch leaves NO frame behind (seeded change C03-4 retried and rolled back 64-entry chunks on their own)"""
    n = rng.choice([70, 100, 140])
    ops = ["cfg dim=1 metric=l2 cap=400 snap=%d rot=100000 fsync=always crash=0 torn=0" % rng.choice([0, 1000])]
    for i in range(1, n + 1):
        ops.append("insert id=%d v=%s m=-" % (i, persist.vbits(persist.rand_vec(rng, 1))))
    call, nth = rng.choice([("write", 1), ("write", 2), ("write", 64), ("write", 65), ("write", 100), ("fsync", 1), ("fsync", 2)])
    ops.append("fault call=%s nth=%d errno=%d path=wal_%s" % (call, nth, rng.choice([28, 5, 122]), " short=%d" % rng.choice([0, 10, 30]) if call == "write" else ""))
    ops.append("batch_delete ids=%s" % show_vec(list(range(1, n + 1))))
    ops += ["census", "restart", "census", "insert id=%d v=%s m=-" % (n + 1, persist.vbits(persist.rand_vec(rng, 1))), "restart", "census"]
    return ops


def gen(thorough, seed):
    rng = rng_for(seed, "C03/persist")
    n = 400 if thorough else 60
    out = []
    for i in range(n):
        c = persist.gen_case(rng, n_ops=30 if thorough else 18, crash=True, torn=False)
        out.append(c)
    for i in range(n):
        c = persist.gen_case(rng, n_ops=30 if thorough else 18, crash=False, torn=False, invalid=(i % 3 == 0))
        out.append(with_faults(rng, c))
    for _ in range(30 if thorough else 6):
        out.append(big_batch_fault_case(rng))
    return out


def run(tier, seed, replay):
    return run_persist_property(
        "C03", MODULE, TRUSTED, tier, seed, replay, gen,
        {"c03", "c03-index-reject", "c02", "c02-restart-refused", "panic"},
        "seeded random histories with ~12% invalid inserts (wrong dimension, NaN, Inf, zero vector, overflowing 3e38) and "
        "index-full situations (capacities 3..6), every op followed by the real strict recover on the materialised "
        "directory; a failed op must leave live census and recovered census unchanged; plus as many histories with STORAGE "
        "FAULTS armed in front of ~30% of the write ops: the frame write fails outright or after a short write "
        "(ENOSPC, EIO, EDQUOT, EFBIG, EINTR; 0/1/4/7/10/30 bytes stored), the sync after the frame fails, optionally the "
        "rollback's truncate fails too; the op may fail (must be a no-op: no net bytes left in the log) or be retried and "
        "succeed; later acknowledged writes, two clean restarts and censuses follow; a third of the armed faults hit the "
        "PUBLICATION steps that run inside a write op instead (MANIFEST temp-file create / write / fsync / rename, creation "
        "of the rotated-in segment, snapshot file create / write / fsync / rename) and manual snapshots",
        ["one fault (optionally plus a failing rollback truncate) per operation; faults during start-up are part of C01/C13"])
