"""C06 — search results are sound and reflect acknowledged recent writes."""
from ..common import *
from .. import corr, tiered, verdict

MODULE = "KyroModel.Theorems.C06"
TRUSTED = [
    "Lean 4 kernel; axioms allowed: propext, Classical.choice, Quot.sound (audited per theorem)",
    "model KyroModel/Tiered/Knn.lean (coherence filter of hot candidates on the engine state, hot-first dedup, sort, truncate); what each tier returns for the query (the exhaustive hot scan's top 2k, the ANN's answer) is an INPUT the theorems quantify over; tie: for every search the harness asks the real tiers for exactly those lists, the real engine for its answer, and the model must produce the same answer and the same side effects on the mirror",
    "reference distances computed by the check in f64 from the stored vector bits (tolerance 2e-4 relative)",
    "not modelled: the ANN graph search itself (heuristic; its recall is C16), the SIMD kernels' arithmetic (bounds are C17), timeouts/degraded paths, the batch API's lock amortisation",
]
KINDS = {"c06", "c06-distance-band", "c06-recent-write-missing", "panic", "harness"}


def run(tier, seed, replay):
    rep = Report("C06", tier, seed)
    thorough = tier == "thorough"
    ok, info = proof_stage(rep, MODULE, thorough=thorough)
    bok, blog, bsecs = cargo_build()
    if not bok:
        rep.violation(rep.write_replay("harness_build.log", blog[-4000:]), no_input=True)
        proof_coverage(rep, info, "lake build " + MODULE, TRUSTED)
        return rep.finish()
    stats = {"cases": 0, "ops": 0, "validated": 0, "distinct": set()}
    if replay:
        cases = [corr.read_replay(replay)[1]]
    else:
        rng = rng_for(seed, "C06/tiered")
        cases = []
        d = os.path.join(CORPUS, "C06")
        for p in sorted(os.listdir(d)) if os.path.isdir(d) else []:
            cases.append(corr.read_replay(os.path.join(d, p))[1])
        n = 1500 if thorough else 160
        for i in range(n):
            cases.append(tiered.gen_knn_case(rng, n_ops=(90 if thorough else 60), pokes=(i % 3 == 2)))
        rng2 = rng_for(seed, "C06/stale-crowd")
        for i in range(200 if thorough else 30):
            cases.append(tiered.gen_stale_crowd_case(rng2))
    findings = corr.collect("tiered", cases, tiered.oracle, KINDS, rep, stats)
    verdict.settle(rep, ok, info, findings, MODULE)
    proof_coverage(rep, info, "cd lean && lake build %s && lake env lean <#print axioms audit>" % MODULE, TRUSTED)
    hist, knn, dims, ks = {}, 0, {}, {}
    for c in cases:
        for l in c:
            o = l.split(" ")[0]
            hist[o] = hist.get(o, 0) + 1
            if o == "cfg":
                dm = re.search(r"dim=(\d+) metric=(\w+)", l)
                if dm:
                    dims["%s/%s" % dm.groups()] = dims.get("%s/%s" % dm.groups(), 0) + 1
            if o == "knn":
                knn += 1
                kk = re.search(r" k=(\d+)", l).group(1)
                ks[kk] = ks.get(kk, 0) + 1
    rep.coverage.update({
        "traces_validated_against_impl": stats["validated"],
        "disagreements_checked": stats["cases"],
        "evaluations": knn,
        "distinct_nontrivial": len(stats["distinct"]),
        "rule": "seeded random histories of inserts/overwrites, deletes, batch deletes, drains, bulk loads that bypass the recent-write "
                "tier (and, in a third of them, planted stale mirrors) over 4-40 ids, dimension in {1,3,7,8,9,15,16,17,33} x metric x "
                "hard limit {3,8,64,200}; vectors far from unit norm, exactly unit, or inside the accepted 2% band; queries near "
                "written vectors (incl. exact hits and ties) or random, normalised or not, k in {1..1000}, ef in {1,10,50,200}; "
                "evaluations = searches",
        "op_histogram": hist, "dimension_metric_histories": dims, "k_histogram": ks,
        "ops_executed": stats["ops"],
        "samples": [cases[-1][:10]],
        "harness_build_s": round(bsecs, 1),
    })
    rep.assumptions = ["sequential histories (search || write interleavings are C05/C09)", "non-cached path (ef given); cached answers are C07",
                       "no timeout / circuit-breaker / load-shedding degradation in these runs"]
    return rep.finish()
