"""C02 — restart is lossless."""
from ..common import *
from .. import persist
from .persist_common import run_persist_property

MODULE = "KyroModel.Theorems.C02"
TRUSTED = [
    "Lean 4 kernel; axioms allowed: propext, Classical.choice, Quot.sound (audited per theorem)",
    "model KyroModel/Persist/{Model,Ops}.lean (logical file-system actions; store abstracted to a document map + slot count) is hand-written; tied to the code by the persist correspondence run: results, recognised action sequences, disk listings, censuses",
    "FS shim (in-binary libc interposition) defines what the implementation did on disk",
    "oracle inputs: validator verdicts, normalised vector bits, frame lengths (bincode sizes)",
    "byte-level facts used by the logical model: whole-frame appends, atomic tmp+fsync+rename+dir-fsync publication (validated by C01's kill-point enumeration)",
]


def gen(thorough, seed):
    rng = rng_for(seed, "C02/persist")
    n = 3000 if thorough else 260
    return [persist.gen_case(rng, n_ops=45 if thorough else 28, crash=False) for _ in range(n)]


def run(tier, seed, replay):
    return run_persist_property(
        "C02", MODULE, TRUSTED, tier, seed, replay, gen,
        {"c02", "c02-restart-refused", "panic"},
        "seeded random histories (insert/overwrite/delete/delete-then-reinsert/batch delete with duplicates/metadata "
        "merge+replace/manual snapshot/restart at random positions, 0..n restarts incl. consecutive) x grid metric x "
        "dimension {1,3,4,8} x snapshot interval {0,1,2,3,7,1000} x rotation threshold {1 byte,130,300,huge} x index "
        "capacity {3,4,6,100}; census compared with the fold of acknowledged ops after every restart; distinct = distinct "
        "annotated histories",
        ["no storage faults (C03)", "clean stop at operation boundaries (crash points are C01)"])
