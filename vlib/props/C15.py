"""C15 — every request gets an answer and invalid input is refused without effect."""
from ..common import *
from .. import corr, persist, store, verdict
from .persist_common import collect_persist

MODULE = "KyroModel.Theorems.C15"
TRUSTED = [
    "Lean 4 kernel; axioms allowed: propext, Classical.choice, Quot.sound (audited per theorem)",
    "models KyroModel/Server/Validate.lean (validators, search planner, oversampling) and Persist/* (durable write path) are hand-written; tied to the code by the validate and persist correspondence runs",
    "not modelled: tonic/prost decoding, streaming handlers, the panic-containment layer, per-RPC glue of kyrodb_server (black-box; see DESIGN.md for what the rpc engine covers)",
]

LENS = [0, 1, 2, 16, 768, 4095, 4096, 4097, 5000]
KS = [0, 1, 2, 10, 999, 1000, 1001, 4294967295]
EFS = [0, 1, 50, 9999, 10000, 10001, 4294967295]
IDS = [0, 1, 2, 4294967295, 4294967296, 18446744073709551615]


def deep_filter(rng, depth):
    if depth == 0:
        return store.leaf(rng, ["1", "x", ""])
    t = rng.choice(["and", "or", "not", "not", "and1", "or1"])
    if t == "not":
        return ["not", "1"] + deep_filter(rng, depth - 1)
    if t in ("and1", "or1"):
        return [t[:-1], "1"] + deep_filter(rng, depth - 1)
    n = rng.choice([0, 1, 2, 3])
    out = [t, str(n)]
    for i in range(n):
        out += deep_filter(rng, depth - 1 if i == 0 else rng.randrange(min(depth, 3)))
    return out


def gen_validate(rng, n):
    ops = []
    for _ in range(n):
        k = rng.choice(["vsearch", "vsearch", "vinsert", "oversample"])
        if k == "oversample":
            ops.append("oversample f=%s" % ",".join(deep_filter(rng, rng.choice([0, 1, 2, 3, 5, 12, 40]))))
        elif k == "vinsert":
            ops.append("vinsert id=%d len=%d finite=%d pos=%d" % (rng.choice(IDS), rng.choice(LENS), rng.random() < 0.8, rng.randrange(100)))
        else:
            f = "-" if rng.random() < 0.3 else ",".join(deep_filter(rng, rng.choice([0, 1, 2, 3, 8])))
            ops.append("vsearch len=%d finite=%d k=%d ef=%d ns=%d f=%s pos=%d" % (
                rng.choice(LENS), rng.random() < 0.8, rng.choice(KS), rng.choice(EFS), rng.randrange(2), f, rng.randrange(100)))
    return ops


# ---------------------------------------------------------------------------------------------
# through the real server binary: every request answered, server keeps serving, refused => no effect (live + restart)

NAN, PINF, NINF, FMAX, SUBN = 2143289344, 2139095040, 4286578688, 2139095039, 1
X_IDS = [100, 101, 102, 103, 104]          # ids the invalid items aim at
Y_IDS = [105, 106, 107, 108, 109]          # ids the valid items of mixed streams use
CENSUS = "bq t=ta ids=1,2,3,%s emb=1" % ",".join(str(x) for x in X_IDS + Y_IDS)
DIM = 3
# second census: a wide search (k = 1000 > collection size) - it also shows documents stored under ids the point reads refuse
# (id 0, out-of-range ids), which BulkQuery cannot name
CENSUS2 = "search t=ta q=1065353216,1065353216,1065353216 k=1000 ns=- f=- emb=0 ef=0"
LEGIT_IDS = {"1", "2", "3"} | {str(x) for x in X_IDS + Y_IDS}


def _vec(rng, kind):
    good = [f32bits(rng.choice([0.5, 1.0, -1.0, 2.0])) for _ in range(DIM)]
    if kind == "ok":
        return good
    if kind == "empty":
        return []
    if kind == "over":
        return [f32bits(0.5)] * 4097
    if kind == "wrongdim":
        return good + [f32bits(1.0)] * rng.choice([1, 5])
    if kind == "short":
        return good[:DIM - 1]
    if kind == "zero":
        return [0] * DIM
    if kind in ("nan", "pinf", "ninf", "fmax", "subn"):
        v = list(good)
        v[rng.randrange(DIM)] = {"nan": NAN, "pinf": PINF, "ninf": NINF, "fmax": FMAX, "subn": SUBN}[kind]
        return v
    raise ValueError(kind)


VKINDS = ["empty", "over", "wrongdim", "short", "zero", "nan", "pinf", "ninf", "fmax", "subn"]
NONFINITE = ("nan", "pinf", "ninf")


def _deep(depth, leaf="exact,61,78"):
    return "not,1," * depth + leaf


def rpc_case(rng, n):
    from .. import rpc
    ops = ["cfg dim=%d tenants=ta:1000,tb:1000 cap=%d" % (DIM, rng.choice([4, 64])), "start"]
    for i in (1, 2, 3):
        ops.append("ins t=ta id=%d v=%s m=61:78 ns=-" % (i, show_vec(_vec(rng, "ok"))))
    ops.append("ins t=ta id=100 v=%s m=61:79 ns=-" % show_vec(_vec(rng, "ok")))     # one of the X ids already exists (overwrite attempts)
    ops.append(CENSUS)
    bad_ids = [0, 4294967296, 18446744073709551615]
    for _ in range(n):
        k = rng.choice(["ins", "ins", "ins", "bins", "bins", "bload", "bload", "search", "search", "bsearch", "q", "bq", "del", "bd", "um", "bdf"])
        vk = rng.choice(VKINDS)
        if k == "ins":
            if rng.random() < 0.25:
                ops.append("ins t=ta id=%d v=%s m=- ns=- #kind=badid" % (rng.choice(bad_ids), show_vec(_vec(rng, "ok"))))
            else:
                ops.append("ins t=ta id=%d v=%s m=61:7a ns=- #kind=%s" % (rng.choice(X_IDS), show_vec(_vec(rng, vk)), vk))
        elif k in ("bins", "bload"):
            items, kinds = [], []
            for j in range(rng.randint(1, 5)):
                if rng.random() < 0.5:
                    kk = rng.choice(VKINDS + ["badid"])
                    iid = rng.choice(bad_ids) if kk == "badid" else rng.choice(X_IDS)
                    items.append("%d;%s;61:7a;-" % (iid, show_vec(_vec(rng, "ok" if kk == "badid" else kk))))
                    kinds.append(kk)
                else:
                    items.append("%d;%s;61:7b;-" % (rng.choice(Y_IDS), show_vec(_vec(rng, "ok"))))
                    kinds.append("ok")
            ops.append("%s t=ta docs=%s #kind=%s" % (k, "/".join(items), ",".join(kinds)))
        elif k in ("search", "bsearch"):
            what = rng.choice(["vec", "k", "ef", "deep", "emptyops"])
            q = _vec(rng, vk if what == "vec" and vk != "over" else "ok")
            kk = rng.choice([0, 1001, 4294967295]) if what == "k" else rng.choice([1, 2, 1000])
            ef = rng.choice([10001, 4294967295]) if what == "ef" else rng.choice([0, 1, 10000])
            f = "-"
            if what == "deep":
                f = _deep(rng.choice([5, 30, 60, 99, 120, 200]))
            elif what == "emptyops":
                f = rng.choice(["and,0", "or,0", "not,0", "none", "or,1,none", "and,2,none,or,0", "not,1,none"])
            if k == "search":
                ops.append("search t=ta q=%s k=%d ns=- f=%s emb=0 ef=%d #kind=%s" % (show_vec(q), kk, f, ef, what))
            else:
                qs = [show_vec(_vec(rng, "ok")), show_vec(q), show_vec(_vec(rng, "ok"))]
                ops.append("bsearch t=ta qs=%s k=%d ns=- f=%s ef=%d #kind=%s" % ("/".join(qs), kk, f, ef, what))
        elif k == "q":
            ops.append("q t=ta id=%d ns=- emb=1 #kind=badid" % rng.choice(bad_ids))
        elif k == "bq":
            if rng.random() < 0.3:
                ops.append("bq t=ta ids=%s emb=0 #kind=oversized" % ",".join(str(1 + i % 7) for i in range(10001)))
            else:
                ops.append("bq t=ta ids=1,%d,2 emb=0 #kind=badid" % rng.choice(bad_ids))
        elif k == "del":
            ops.append("del t=ta id=%d ns=- #kind=badid" % rng.choice(bad_ids))
        elif k == "bd":
            if rng.random() < 0.3:
                ops.append("bd t=ta ids=%s ns=- #kind=oversized" % ",".join(str(1000 + i) for i in range(10001)))
            else:
                ops.append("bd t=ta ids=1,%d ns=- #kind=badid" % rng.choice(bad_ids[1:]))
        elif k == "um":
            ops.append("um t=ta id=%d m=61:7c merge=%d ns=- #kind=badid" % (rng.choice(bad_ids), rng.randint(0, 1)))
        elif k == "bdf":
            ops.append("bdf t=ta f=%s ns=- #kind=deep" % _deep(rng.choice([60, 99, 120, 200]), leaf="exact,61,7a7a"))
        ops.append("q t=ta id=1 ns=- emb=0")           # keeps serving
        ops.append(CENSUS)
        ops.append(CENSUS2)
    ops += ["restart", CENSUS, CENSUS2, "stop"]
    return ops


def rpc_oracle(case):
    raw, impl = case["raw"], case["impl"]
    fails = []
    last_census = None
    for i, (l, r) in enumerate(zip(raw, impl)):
        if r.startswith("<harness") or r in ("not-running",) or r.startswith(("exited", "start-timeout")):
            fails.append(("c15-no-answer", i, "`%s` got no answer / the server is gone: %s" % (l[:200], r)))
            break
        op = l.split(" ")[0]
        kind = l.split("#kind=")[1] if "#kind=" in l else None
        if l == CENSUS2:
            m = re.search(r"res=(\S+)", r)
            ids = {it.split("~")[0] for it in (m.group(1).split(";") if m and m.group(1) != "-" else [])}
            alien = sorted(ids - LEGIT_IDS)
            if alien:
                prev = [x for x in raw[:i] if "#kind=" in x]
                fails.append(("c15-refused-with-effect", i, "a wide search shows document(s) %s: no valid request could have stored such an id "
                              "(last boundary request: `%s`)" % (alien, (prev[-1] if prev else "-")[:300])))
                break
            continue
        if l == CENSUS:
            if last_census is not None and last_census[0] != r:
                j, prev = last_census[1], raw[last_census[1] + 1:i]
                req = next((x for x in prev if "#kind=" in x), None)
                ans = impl[raw.index(req)] if req in raw else "?"
                if req is None:
                    fails.append(("c15-restart-differs", i, "the census after the restart differs: %s vs %s" % (last_census[0], r)))
                else:
                    changed = _changed_ids(last_census[0], r)
                    kinds = req.split("#kind=")[1].split(",")
                    rop = req.split(" ")[0]
                    allowed = set()
                    if rop in ("bins", "bload"):
                        items = re.search(r"docs=(\S+)", req).group(1).split("/")
                        allowed = {it.split(";")[0] for it, kk in zip(items, kinds) if kk in ("ok", "zero", "subn", "fmax")}
                        if ans.startswith("err"):
                            allowed = set()      # the whole stream was answered with a refusal status: it may have stored nothing
                    elif rop == "ins" and ans.startswith("ok") and kinds[0] in ("zero", "subn", "fmax"):
                        allowed = {re.search(r"id=(\d+)", req).group(1)}
                    bad = [c for c in changed if c not in allowed]
                    if bad:
                        fails.append(("c15-refused-with-effect", i, "after `%s` (answer `%s`) documents %s changed although the request / item "
                                      "was invalid: census `%s` -> `%s`" % (req[:300], ans, bad, last_census[0][:300], r[:300])))
            last_census = (r, i)
            continue
        if op in ("bins", "bload") and kind and r.startswith("ok"):
            # the stream's own counters: every item is either stored or failed, and only valid items can be stored
            m1, m2 = re.search(r" n=(\d+)", r), re.search(r" failed=(\d+)", r)
            kinds_ = kind.split(",")
            can = sum(1 for kk in kinds_ if kk in ("ok", "zero", "subn", "fmax"))
            if m1 and m2 and (int(m1.group(1)) + int(m2.group(1)) != len(kinds_) or int(m1.group(1)) > can):
                fails.append(("c15-refused-with-effect", i, "`%s` answers `%s`: %d item(s), at most %d valid - a refused item is counted as stored "
                              "(or an item is counted twice)" % (l[:300], r[:120], len(kinds_), can)))
        if op == "bsearch" and r.startswith("ok"):
            parts = [] if r == "ok -" else r[3:].split(" | ")
            nq = len(re.search(r"qs=(\S+)", l).group(1).split("/"))
            if not any(p.startswith("err:") for p in parts) and len(parts) != nq:
                fails.append(("c15-no-answer", i, "`%s`: %d requests in the stream, %d answers and no status: %s" % (l[:200], nq, len(parts), r[:200])))
        if op == "q" and kind is None and not r.startswith("ok 1~1"):
            fails.append(("c15-stops-serving", i, "the liveness read after `%s` answers `%s`" % (raw[i - 1][:200], r)))
        # non-finite vectors are refused on every write path
        if kind and op == "ins" and kind in NONFINITE and r.startswith("ok"):
            fails.append(("c15-nonfinite-accepted", i, "`%s` accepted a non-finite vector: %s" % (l[:200], r)))
        if r.startswith("ok") and re.search(r"~[\d,]*(%d|%d|%d)" % (NAN, PINF, NINF), r):
            fails.append(("c15-nonfinite-stored", i, "`%s` shows a stored non-finite vector: %s" % (l[:200], r[:300])))
    return fails


def _changed_ids(a, b):
    def parse(s):
        m = re.search(r"res=(\S+)", s)
        return {it.split("~")[0]: it for it in (m.group(1).split(";") if m else [])}
    pa, pb = parse(a), parse(b)
    return sorted(k for k in set(pa) | set(pb) if pa.get(k) != pb.get(k))


def rpc_stage(rep, thorough, seed, replay_ops=None):
    from .. import rpc
    from .C13 import _rpcfs_runner
    sok, slog, ssecs = rpc.server_build()
    if not sok:
        rep.violation(rep.write_replay("server_build.log", slog[-4000:]), no_input=True)
        return [], {}
    rng = rng_for(seed, "C15/rpc")
    cases = [replay_ops] if replay_ops else [rpc_case(rng, 40 if thorough else 22) for _ in range(60 if thorough else 12)]
    findings, kinds, answers = [], {}, {}
    for c in _rpcfs_runner([[l.split(" #kind=")[0] for l in c] for c in cases]):
        c["raw"] = cases.pop(0)                         # keep the kind annotations for the oracle
        for l, r in zip(c["raw"], c["impl"]):
            if "#kind=" in l:
                key = l.split(" ")[0] + ":" + l.split("#kind=")[1].split(",")[0]
                kinds[key] = kinds.get(key, 0) + 1
                a = r.split(" ")[0] if r.startswith("err:") else "ok"
                answers[a] = answers.get(a, 0) + 1
        for kind, idx, msg in rpc_oracle(c):
            findings.append({"kind": "oracle", "engine": "rpcfs", "case": c, "idx": idx, "msg": msg,
                             "sig": {"engine": "rpcfs", "kind": kind}, "pred": None})
    return findings, {"rpc_pathological_requests": sum(kinds.values()), "rpc_request_kinds": kinds, "rpc_answers": answers,
                      "server_build_s": round(ssecs, 1)}


def run(tier, seed, replay):
    rep = Report("C15", tier, seed)
    thorough = tier == "thorough"
    ok, info = proof_stage(rep, MODULE, thorough=thorough)
    bok, blog, bsecs = cargo_build()
    if not bok:
        rep.violation(rep.write_replay("harness_build.log", blog[-4000:]), no_input=True)
        proof_coverage(rep, info, "lake build " + MODULE, TRUSTED)
        return rep.finish()
    rng = rng_for(seed, "C15")
    lines = gen_validate(rng, 60000 if thorough else 6000)
    replay_rpc = None
    if replay:
        eng, ops = corr.read_replay(replay)
        lines = ops if eng == "validate" else []
        replay_rpc = ops if eng == "rpcfs" else None
    ann, res, herr, hrc = run_harness("validate", lines, timeout=1800)
    mres, merr, mrc = run_driver("validate", ann)
    mism = [(l, r, m) for l, r, m in zip(lines, res, mres) if r != m]
    panics = [(l, r) for l, r in zip(lines, res) if r.startswith("panic")]
    errk = {}
    for r in res:
        errk[r.split(" ")[0]] = errk.get(r.split(" ")[0], 0) + 1
    # oracle on the implementation: an accepted search/insert has fields in the documented ranges
    bad = []
    for l, r in zip(lines, res):
        f = dict(p.split("=", 1) for p in l.split(" ")[1:] if "=" in p)
        if l.startswith("vsearch"):
            okf = 1 <= int(f["len"]) <= 4096 and f["finite"] in ("1", "True") and 1 <= int(f["k"]) <= 1000 and int(f["ef"]) <= 10000
            if r.startswith("ok") != okf:
                bad.append((l, r))
            if r.startswith("ok"):
                sk = int(re.search(r"search_k=(\d+)", r).group(1))
                if not (int(f["k"]) <= sk <= 10000):
                    bad.append((l, r))
        elif l.startswith("vinsert"):
            okf = int(f["id"]) >= 1 and 1 <= int(f["len"]) <= 4096 and f["finite"] in ("1", "True")
            if (r == "ok") != okf:
                bad.append((l, r))
        elif l.startswith("oversample") and r.isdigit() and not (1 <= int(r) <= 50):
            bad.append((l, r))
    findings = []
    if panics or bad:
        l, r = (panics or bad)[0]
        p = rep.write_replay("validator_oracle.ops", "# engine=validate\n# ORACLE FAILURE: %s\n%s\n# -> %s\n" % (
            "validator panicked" if panics else "validator decision outside the documented contract", l, r))
        rep.violation(p)
    elif mism:
        l, r, m = mism[0]
        p = rep.write_replay("mismatch_validate.ops", "# engine=validate\n# CORRESPONDENCE BROKEN (%d rows)\n%s\n# impl: %s\n# model: %s\n" % (len(mism), l, r, m))
        rep.violation(p, no_input=True)
    # durable write path: refused writes leave live + recovered state unchanged
    stats = {"cases": 0, "ops": 0, "validated": 0, "distinct": set()}
    prng = rng_for(seed, "C15/persist")
    pcases = [] if replay else [persist.gen_case(prng, n_ops=16, crash=True, torn=False) for _ in range(200 if thorough else 25)]
    pf = collect_persist(pcases, {"c03", "c03-index-reject", "panic"}, rep, stats, lambda k, c: {"engine": "persist", "kind": k})
    rf, rcov = rpc_stage(rep, thorough, seed, replay_rpc) if (replay_rpc or not replay) else ([], {})
    pf += rf
    verdict.settle(rep, ok and not (panics or bad or mism), info, pf, MODULE) if (pf or not ok) and not (panics or bad or mism) else None
    proof_coverage(rep, info, "cd lean && lake build %s && lake env lean <#print axioms audit>" % MODULE, TRUSTED)
    rep.coverage.update({
        "traces_validated_against_impl": len(lines) - len(mism) + stats["validated"],
        "disagreements_checked": len(lines) + stats["cases"],
        "evaluations": len(lines) + stats["ops"],
        "distinct_nontrivial": len(set(lines)) + len(stats["distinct"]),
        "rule": "validator requests generated structurally: every field x boundary/pathological values (len 0,1,4096,4097; NaN/+-Inf at "
                "random positions; k 0,1,1000,1001,2^32-1; ef 0,10000,10001; id 0,1,2^32,2^64-1; filter trees to depth 40 incl. "
                "empty AND/OR/NOT) through the real validators vs the model + contract oracle; plus persist histories with invalid "
                "inserts whose refusal must leave live and recovered state unchanged",
        "result_kinds": errk,
        "samples": lines[:5],
        "harness_build_s": round(bsecs, 1),
    })
    rep.coverage.update(rcov)
    rep.assumptions = ["RPC glue is black-box only"]
    return rep.finish()
