"""C15 — every request gets an answer and invalid input is refused without effect."""
from ..common import *
from .. import corr, persist, store, verdict
from .persist_common import collect_persist

MODULE = "KyroModel.Theorems.C15"
TRUSTED = [
    "Lean 4 kernel; axioms allowed: propext, Classical.choice, Quot.sound (audited per theorem)",
    "models KyroModel/Server/Validate.lean (validators, search planner, oversampling) and Persist/* (durable write path) are hand-written; tied to the code by the validate and persist correspondence runs",
    "not modelled: tonic/prost decoding, streaming handlers, the panic-containment layer, per-RPC glue of kyrodb_server (black-box; see DESIGN.md for what the rpc engine covers)",
]

LENS = [0, 1, 2, 16, 768, 4095, 4096, 4097, 5000]
KS = [0, 1, 2, 10, 999, 1000, 1001, 4294967295]
EFS = [0, 1, 50, 9999, 10000, 10001, 4294967295]
IDS = [0, 1, 2, 4294967295, 4294967296, 18446744073709551615]


def deep_filter(rng, depth):
    if depth == 0:
        return store.leaf(rng, ["1", "x", ""])
    t = rng.choice(["and", "or", "not", "not", "and1", "or1"])
    if t == "not":
        return ["not", "1"] + deep_filter(rng, depth - 1)
    if t in ("and1", "or1"):
        return [t[:-1], "1"] + deep_filter(rng, depth - 1)
    n = rng.choice([0, 1, 2, 3])
    out = [t, str(n)]
    for i in range(n):
        out += deep_filter(rng, depth - 1 if i == 0 else rng.randrange(min(depth, 3)))
    return out


def gen_validate(rng, n):
    ops = []
    for _ in range(n):
        k = rng.choice(["vsearch", "vsearch", "vinsert", "oversample"])
        if k == "oversample":
            ops.append("oversample f=%s" % ",".join(deep_filter(rng, rng.choice([0, 1, 2, 3, 5, 12, 40]))))
        elif k == "vinsert":
            ops.append("vinsert id=%d len=%d finite=%d pos=%d" % (rng.choice(IDS), rng.choice(LENS), rng.random() < 0.8, rng.randrange(100)))
        else:
            f = "-" if rng.random() < 0.3 else ",".join(deep_filter(rng, rng.choice([0, 1, 2, 3, 8])))
            ops.append("vsearch len=%d finite=%d k=%d ef=%d ns=%d f=%s pos=%d" % (
                rng.choice(LENS), rng.random() < 0.8, rng.choice(KS), rng.choice(EFS), rng.randrange(2), f, rng.randrange(100)))
    return ops


def run(tier, seed, replay):
    rep = Report("C15", tier, seed)
    thorough = tier == "thorough"
    ok, info = proof_stage(rep, MODULE, thorough=thorough)
    bok, blog, bsecs = cargo_build()
    if not bok:
        rep.violation(rep.write_replay("harness_build.log", blog[-4000:]), no_input=True)
        proof_coverage(rep, info, "lake build " + MODULE, TRUSTED)
        return rep.finish()
    rng = rng_for(seed, "C15")
    lines = gen_validate(rng, 60000 if thorough else 6000)
    if replay:
        eng, ops = corr.read_replay(replay)
        lines = ops if eng == "validate" else []
    ann, res, herr, hrc = run_harness("validate", lines, timeout=1800)
    mres, merr, mrc = run_driver("validate", ann)
    mism = [(l, r, m) for l, r, m in zip(lines, res, mres) if r != m]
    panics = [(l, r) for l, r in zip(lines, res) if r.startswith("panic")]
    errk = {}
    for r in res:
        errk[r.split(" ")[0]] = errk.get(r.split(" ")[0], 0) + 1
    # oracle on the implementation: an accepted search/insert has fields in the documented ranges
    bad = []
    for l, r in zip(lines, res):
        f = dict(p.split("=", 1) for p in l.split(" ")[1:] if "=" in p)
        if l.startswith("vsearch"):
            okf = 1 <= int(f["len"]) <= 4096 and f["finite"] in ("1", "True") and 1 <= int(f["k"]) <= 1000 and int(f["ef"]) <= 10000
            if r.startswith("ok") != okf:
                bad.append((l, r))
            if r.startswith("ok"):
                sk = int(re.search(r"search_k=(\d+)", r).group(1))
                if not (int(f["k"]) <= sk <= 10000):
                    bad.append((l, r))
        elif l.startswith("vinsert"):
            okf = int(f["id"]) >= 1 and 1 <= int(f["len"]) <= 4096 and f["finite"] in ("1", "True")
            if (r == "ok") != okf:
                bad.append((l, r))
        elif l.startswith("oversample") and r.isdigit() and not (1 <= int(r) <= 50):
            bad.append((l, r))
    findings = []
    if panics or bad:
        l, r = (panics or bad)[0]
        p = rep.write_replay("validator_oracle.ops", "# engine=validate\n# ORACLE FAILURE: %s\n%s\n# -> %s\n" % (
            "validator panicked" if panics else "validator decision outside the documented contract", l, r))
        rep.violation(p)
    elif mism:
        l, r, m = mism[0]
        p = rep.write_replay("mismatch_validate.ops", "# engine=validate\n# CORRESPONDENCE BROKEN (%d rows)\n%s\n# impl: %s\n# model: %s\n" % (len(mism), l, r, m))
        rep.violation(p, no_input=True)
    # durable write path: refused writes leave live + recovered state unchanged
    stats = {"cases": 0, "ops": 0, "validated": 0, "distinct": set()}
    prng = rng_for(seed, "C15/persist")
    pcases = [] if replay else [persist.gen_case(prng, n_ops=16, crash=True, torn=False) for _ in range(200 if thorough else 25)]
    pf = collect_persist(pcases, {"c03", "c03-index-reject", "panic"}, rep, stats, lambda k, c: {"engine": "persist", "kind": k})
    verdict.settle(rep, ok and not (panics or bad or mism), info, pf, MODULE) if (pf or not ok) and not (panics or bad or mism) else None
    proof_coverage(rep, info, "cd lean && lake build %s && lake env lean <#print axioms audit>" % MODULE, TRUSTED)
    rep.coverage.update({
        "traces_validated_against_impl": len(lines) - len(mism) + stats["validated"],
        "disagreements_checked": len(lines) + stats["cases"],
        "evaluations": len(lines) + stats["ops"],
        "distinct_nontrivial": len(set(lines)) + len(stats["distinct"]),
        "rule": "validator requests generated structurally: every field x boundary/pathological values (len 0,1,4096,4097; NaN/+-Inf at "
                "random positions; k 0,1,1000,1001,2^32-1; ef 0,10000,10001; id 0,1,2^32,2^64-1; filter trees to depth 40 incl. "
                "empty AND/OR/NOT) through the real validators vs the model + contract oracle; plus persist histories with invalid "
                "inserts whose refusal must leave live and recovered state unchanged",
        "result_kinds": errk,
        "samples": lines[:5],
        "harness_build_s": round(bsecs, 1),
    })
    rep.assumptions = ["RPC glue is black-box only"]
    return rep.finish()
