"""C12 — restoring a backup reproduces the collection as of that backup."""
from ..common import *
from .. import persist
from .persist_common import run_persist_property

MODULE = "KyroModel.Theorems.C12"
TRUSTED = [
    "Lean 4 kernel; axioms allowed: propext, Classical.choice, Quot.sound (audited per theorem)",
    "model KyroModel/Persist/Backup.lean (backup = shipped logical files; restore = verify chain, guarded clear, overlay; PITR selection; retention with ancestor closure) on top of Persist/Model.lean; tie: same histories with backup/restore/prune ops through the real BackupManager/RestoreManager under a virtual wall clock and through the model, comparing archive member lists, metadata, restore outcomes (real strict recover on the restored directory) and prune decisions",
    "inputs supplied by the harness: wall-clock seconds, per-segment 'modified since the parent's timestamp' bits (file mtimes restamped with the virtual clock)",
    "not modelled: archive byte format and checksum arithmetic (exercised by structural damage ops, judged by the oracle only); S3 transport; the kyrodb_backup CLI",
]
KINDS = {"c12-restore-differs", "c12-verified-restore-fails", "c12-cleared-without-confirmation", "c12-refused-but-touched",
         "c12-restored-without-chain", "c12-archive-structure-unchecked", "c12-metadata-altered-accepted",
         "c12-altered-accepted", "c12-prune-orphans", "c02", "panic"}


def gen_history(rng, n_ops, damage):
    dim = rng.choice([1, 2, 3])
    snap = rng.choice([0, 0, 2, 3, 5])
    rot = rng.choice([1, 100, 130, 300, 100000])
    ids = list(range(1, rng.choice([3, 5, 8]) + 1))
    now = 1700000000 + rng.randrange(10 ** 6)           # the virtual wall clock, advanced only by `tick`
    ops = ["cfg dim=%d metric=l2 cap=300 snap=%d rot=%d fsync=always crash=0 torn=0 wall=%d" % (dim, snap, rot, now)]
    nb = 0
    btimes = []
    damaged = set()
    for _ in range(n_ops):
        op = rng.choices(["insert", "delete", "update", "snapshot", "restart", "tick", "bk_full", "bk_incr", "bk_restore",
                          "bk_pitr", "bk_prune", "bk_damage"],
                         [40, 8, 6, 9, 5, 10, 6, 10, 9, 5, 3, 0])[0]
        i = rng.choice(ids)
        if op == "insert":
            ops.append("insert id=%d v=%s m=%s" % (i, persist.vbits(persist.rand_vec(rng, dim)), show_meta(persist.rand_meta(rng))))
        elif op == "delete":
            ops.append("delete id=%d" % i)
        elif op == "update":
            ops.append("update id=%d m=%s merge=%d" % (i, show_meta(persist.rand_meta(rng)), rng.randrange(2)))
        elif op == "tick":
            d = rng.choice([0, 1, 1, 2, 30, 3600, 5000, 86400, 100000, 700000])
            ops.append("tick secs=%d" % d); now += d
        elif op == "bk_full":
            ops.append("bk_full"); nb += 1; btimes.append(now)
        elif op == "bk_incr":
            if nb:
                par = nb - 1 if rng.random() < 0.7 else rng.randrange(nb)
                if par != nb - 1 and rng.random() < 0.8:
                    # a second child of an older backup: give it its own timestamp and its own content
                    d = rng.choice([1, 2, 30])
                    ops.append("tick secs=%d" % d); now += d
                    ops.append("insert id=%d v=%s m=%s" % (i, persist.vbits(persist.rand_vec(rng, dim)), show_meta(persist.rand_meta(rng))))
                ops.append("bk_incr parent=%d" % par); nb += 1; btimes.append(now)
                if par != nb - 2 and rng.random() < 0.6:
                    # sibling incrementals (two children of one parent): a point-in-time restore at or after the newer one
                    d = rng.choice([0, 1, 5])
                    if d:
                        ops.append("tick secs=%d" % d); now += d
                    ops.append("bk_pitr ts=%d clear=1 target=%s" % (now + rng.choice([0, 0, 3]), rng.choice(["empty", "dirty"])))
        elif op == "bk_restore":
            if nb:
                ops.append("bk_restore b=%d clear=%d target=%s" % (rng.randrange(nb), rng.random() < 0.4, rng.choice(["empty", "empty", "dirty"])))
        elif op == "bk_pitr":
            ts = rng.choice([now, now + 1] + [t + e for t in btimes[-3:] for e in (-1, 0, 1)]) if rng.random() < 0.7 else 1700000000 + rng.randrange(3 * 10 ** 6)
            ops.append("bk_pitr ts=%d clear=1 target=%s" % (ts, rng.choice(["empty", "dirty"])))
        elif op == "bk_prune":
            ops.append("bk_prune hourly=%d daily=%d weekly=%d monthly=%d minage=%d" % (
                rng.choice([0, 1, 24]), rng.choice([0, 1, 7]), rng.choice([0, 1, 4]), rng.choice([0, 1, 12]), rng.choice([0, 0, 1])))
        elif op in ("snapshot", "restart"):
            ops.append(op)
        elif op == "bk_damage":
            if nb:
                k = rng.randrange(nb)
                if rng.random() < 0.75:
                    at = rng.choice(["count", "namelen", "name", "name", "datalen", "data", "data"])
                    ops.append("bk_damage b=%d what=tar at=%s nth=%d byte=%d bit=%d" % (k, at, rng.randrange(6), rng.randrange(64), rng.randrange(8)))
                elif rng.random() < 0.5:
                    ops.append("bk_damage b=%d what=%s trunc=%d" % (k, rng.choice(["tar", "json"]), rng.randrange(1000)))
                else:
                    ops.append("bk_damage b=%d what=json pos=%d bit=%d" % (k, rng.randrange(1000), rng.randrange(8)))
                ops.append("bk_restore b=%d clear=1 target=dirty" % (k if rng.random() < 0.6 else rng.randrange(nb)))
    # close: restore every backup once into an empty directory
    for k in range(nb):
        if rng.random() < 0.7:
            ops.append("bk_restore b=%d clear=0 target=empty" % k)
    # then (half of the histories) damage archives / metadata and try to restore over a non-empty target
    if damage and nb:
        for _ in range(rng.choice([1, 2, 4])):
            k = rng.randrange(nb)
            if rng.random() < 0.75:
                at = rng.choice(["count", "namelen", "name", "name", "datalen", "data", "data"])
                ops.append("bk_damage b=%d what=tar at=%s nth=%d byte=%d bit=%d" % (k, at, rng.randrange(6), rng.randrange(64), rng.randrange(8)))
            elif rng.random() < 0.5:
                ops.append("bk_damage b=%d what=%s trunc=%d" % (k, rng.choice(["tar", "json"]), rng.randrange(1000)))
            else:
                ops.append("bk_damage b=%d what=json pos=%d bit=%d" % (k, rng.randrange(1000), rng.randrange(8)))
            ops.append("bk_restore b=%d clear=1 target=dirty" % (k if rng.random() < 0.6 else rng.randrange(nb)))
    ops += ["census", "disk"]
    return ops


def gen_prune_history(rng):
    """retention timelines: several backups per bucket, incrementals on old and recent parents, every age class,
    then prunes with and without a minimum age, then every surviving backup restored"""
    dim = rng.choice([1, 2])
    ops = ["cfg dim=%d metric=l2 cap=300 snap=%d rot=%d fsync=always crash=0 torn=0 wall=%d" % (
        dim, rng.choice([0, 2, 3]), rng.choice([100, 300, 100000]), 1700000000 + rng.randrange(10 ** 6))]
    nb = 0
    for step in range(rng.randint(5, 11)):
        for _ in range(rng.randint(1, 2)):
            ops.append("insert id=%d v=%s m=%s" % (rng.randint(1, 5), persist.vbits(persist.rand_vec(rng, dim)), show_meta(persist.rand_meta(rng))))
        if nb and rng.random() < 0.55:
            ops.append("bk_incr parent=%d" % (nb - 1 if rng.random() < 0.5 else rng.randrange(nb)))
        else:
            ops.append("bk_full")
        nb += 1
        ops.append("tick secs=%d" % rng.choice([1, 60, 60, 1800, 7200, 7200, 40000, 86400, 90000, 200000, 345600, 700000, 2700000]))
    for _ in range(rng.randint(1, 3)):
        ops.append("bk_prune hourly=%d daily=%d weekly=%d monthly=%d minage=%d" % (
            rng.choice([0, 1, 2, 24]), rng.choice([0, 1, 7]), rng.choice([0, 1, 4]), rng.choice([0, 1, 12]), rng.choice([0, 1, 1, 2, 5])))
        if rng.random() < 0.5:
            ops.append("tick secs=%d" % rng.choice([60, 7200, 90000]))
    for k in range(nb):
        ops.append("bk_restore b=%d clear=0 target=empty" % k)
    return ops


def gen(thorough, seed):
    rng = rng_for(seed, "C12/persist")
    n = 400 if thorough else 70
    cases = [gen_history(rng, rng.choice([15, 30, 45]) if not thorough else rng.choice([20, 40, 70]), damage=(k % 2 == 1)) for k in range(n)]
    rngp = rng_for(seed, "C12/prune")
    return cases + [gen_prune_history(rngp) for _ in range(200 if thorough else 40)]


def run(tier, seed, replay):
    return run_persist_property(
        "C12", MODULE, TRUSTED, tier, seed, replay, gen, KINDS,
        "seeded random histories of writes, snapshots (manual/automatic), rotation, compaction and restarts under a virtual "
        "wall clock, with full and incremental backups (parent = latest or any earlier backup) at arbitrary quiescent points, "
        "clock ticks from 0 s to 8 days (same-second cases included), restores of every backup (into empty and non-empty "
        "targets, with and without confirmation), point-in-time restores, retention pruning with random policies (plus dedicated "
        "retention timelines: several backups per bucket, incrementals on old and recent parents, minimum ages 0-5 days), and — in "
        "half of the histories — single-byte flips/truncations aimed at each structural field of an archive (count, name "
        "length, name, data length, data) or of the metadata JSON followed by a restore; every restored directory is started "
        "with the real strict recover and compared with the collection when the backup was taken",
        ["quiescent backups only (no writes in flight while archiving)", "local backup directory (no S3)",
         "equal-timestamp ties in PITR/prune selection depend on directory order: skipped"])
