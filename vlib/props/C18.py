"""C18 — unsafe durability and exposure settings are refused outside benchmark mode."""
import itertools
from ..common import *
from .. import common, corr, verdict

MODULE = "KyroModel.Theorems.C18"
TRUSTED = [
    "Lean 4 kernel; axioms allowed: propext, Classical.choice, Quot.sound (audited per theorem)",
    "translator translators/xlate_config.py (Rust validate() -> Lean Bool function); fails closed (unparsed conditions become opaque atoms / missing definitions); cross-checked by running the generated validate against the real loader on the full cross product",
    "hand-written Safe predicate (Theorems/C18.lean)",
    "not modelled: serde/config-crate deserialisation (exercised by the correspondence over TOML, YAML, env overrides); the trim/bracket/zone/lower-case chain of is_loopback_host (checked against python's classification of a host table); server exit status (thorough tier)",
]

ENVS = [("production", "production"), ("pilot", "pilot"), ("benchmark", "benchmark"), (" Pilot ", "pilot"),
        ("PRODUCTION", "production"), ("Benchmark\t", "benchmark"), ("staging", "other"), ("prod", "other"),
        ("pilot2", "other")]
HOSTS = [("127.0.0.1", 1), ("0.0.0.0", 0), ("localhost", 1), ("::1", 1), ("[::1]", 1), ("192.168.1.10", 0),
         (" LocalHost ", 1), ("127.5.6.7", 1), ("::", 0), ("example.com", 0), ("128.0.0.1", 0), ("::1%lo0", 1),
         ("[::]", 0), ("10.127.0.1", 0)]


HHOSTS = [(None, None), (None, None), ("127.0.0.1", 1), ("0.0.0.0", 0), ("localhost", 1), ("10.0.0.7", 0)]


def canon(line):
    return line.split(" ")[0]


corr.COMPARERS["config"] = lambda a, b: canon(a) == canon(b)


def rows(thorough, rng):
    out = []
    base = dict(fsync="data_only", snap="10000", recovery="strict", strategy="learned", auth=1, rl=1, obs="all",
                fresh=0, tls=0)
    grid = list(itertools.product(
        ["none", "data_only", "full"], ["0", "10000"], ["strict", "best_effort"], ["learned", "lru", "abtest"],
        [0, 1], [0, 1], ["disabled", "metrics_and_slo", "all"], [0, 1], [0, 1]))
    vias = ["toml", "yaml", "env", "envonly"]
    for (env, cls) in ENVS:
        hosts = HOSTS if cls in ("pilot", "production") else HOSTS[:2]
        for (host, loop) in hosts:
            sel = grid if (thorough or (env in ("pilot", "production") and host in ("127.0.0.1", "0.0.0.0"))) \
                else rng.sample(grid, 40)
            for (fs, sn, rc, st, au, rl, ob, fr, tl) in sel:
                # rows that are safe in every durability / auth dimension sit on the exposure boundary (TLS x bind hosts): all
                # delivery routes and all observability hosts for them, one random choice for the rest
                critical = (fs != "none" and sn != "0" and rc == "strict" and st == "learned" and au == 1 and rl == 1
                            and ob != "disabled" and fr == 0)
                via = rng.choice(vias) if not (thorough or critical) else None
                # "whatever the remaining settings are": the observability listener's own bind host (unset = the gRPC host)
                hh = rng.choice(HHOSTS) if not critical else None          # thorough: all routes; all observability hosts only on the boundary
                for v in ([via] if via else vias):
                    for (hhost, hloop) in ([hh] if hh else HHOSTS[1:]):
                        row = ("cfgrow env=%s envclass=%s fsync=%s snap=%s recovery=%s strategy=%s auth=%d rl=%d "
                               "obs=%s fresh=%d tls=%d host=%s loop=%d hhost=%s hloop=%d via=%s" % (
                                   hexs(env), cls, fs, sn, rc, st, au, rl, ob, fr, tl, hexs(host), loop,
                                   "-" if hhost is None else hexs(hhost), loop if hhost is None else hloop, v))
                        out.append(row)
                        if critical and tl == 0:
                            # TLS switched OFF while certificate and key paths are still configured: the flag decides, not the
                            # material (seeded change C18-3)
                            out.append(row + " certs=1")
    return out


def fields(l):
    return dict(p.split("=", 1) for p in l.split(" ")[1:] if "=" in p)


def safe(f):
    e = f["envclass"]
    if e in ("production", "pilot"):
        if f["fsync"] == "none" or f["snap"] == "0" or f["recovery"] != "strict" or f["strategy"] != "learned":
            return False
    if e == "pilot":
        if not (f["auth"] == "1" and f["rl"] == "1" and f["obs"] != "disabled" and f["fresh"] == "0"
                and (f["tls"] == "1" or f["loop"] == "1")):
            return False
    if e == "production" and f["loop"] == "0" and f["auth"] != "1":
        return False
    return True


def run(tier, seed, replay):
    rep = Report("C18", tier, seed)
    thorough = tier == "thorough"
    # 1. regenerate the model from the current source
    rc, out, err = run_cmd_translator()
    ok, info = proof_stage(rep, MODULE, thorough=thorough)
    info["translator"] = (out + err).strip()
    bok, blog, bsecs = cargo_build()
    if not bok:
        rep.violation(rep.write_replay("harness_build.log", blog[-4000:]), no_input=True)
        proof_coverage(rep, info, "lake build " + MODULE, TRUSTED)
        return rep.finish()
    rng = rng_for(seed, "C18")
    lines = [l for l in open(replay).read().split("\n") if l.startswith("cfgrow")] if replay else rows(thorough, rng)
    findings, n_accept, mism, unsafe = [], 0, [], []
    all_res = []
    accept_by_env = {}
    for c0 in range(0, len(lines), 4000):
        part = lines[c0:c0 + 4000]
        ann, res, herr, hrc = run_harness("config", part, timeout=1800)
        mres, merr, mrc = run_driver("config", ann) if ok or os.path.exists(DRIVER) else ([], "", 1)
        for i, l in enumerate(part):
            r = res[i] if i < len(res) else "<missing>"
            all_res.append(r)
            f = fields(l)
            if canon(r) == "accept":
                n_accept += 1
                accept_by_env[f["envclass"]] = accept_by_env.get(f["envclass"], 0) + 1
                if not safe(f):
                    unsafe.append((l, r))
            if i < len(mres) and canon(mres[i]) != canon(r):
                mism.append((l, r, mres[i]))
    for l, r in unsafe[:1]:
        p = rep.write_replay("unsafe_config_accepted.ops",
                             "# engine=config\n# ORACLE FAILURE: the real loader ACCEPTS an unsafe configuration\n%s\n# -> %s\n" % (l, r))
        if not match_known("C18", {"engine": "config", "kind": "unsafe-accepted"}):
            rep.violation(p)
    if mism and not unsafe:
        l, r, m = mism[0]
        p = rep.write_replay("mismatch_config.ops",
                             "# engine=config\n# CORRESPONDENCE BROKEN: generated validate and real loader disagree on %d rows\n%s\n# impl: %s\n# model: %s\n" % (len(mism), l, r, m))
        rep.violation(p, no_input=True)
    if not ok and not unsafe and not mism:
        p = rep.write_replay("proof_obligation.json", {
            "broken": "C18_validate_sound (or a sibling) no longer checks against the regenerated Config/Generated.lean",
            "details": {k: info.get(k) for k in ("errors", "source_scan_hits", "axioms", "translator")},
            "search": "every row of the cross product through the real loader: no unsafe configuration accepted"})
        rep.violation(p, no_input=True)
    scov = server_exit_stage(rep, lines, all_res, thorough, rng) if not replay else {}
    proof_coverage(rep, info, "python3 translators/xlate_config.py && cd lean && lake build %s && <#print axioms audit>" % MODULE, TRUSTED)
    rep.coverage.update({
        "programs": 1,
        "traces_validated_against_impl": len(lines) - len(mism),
        "disagreements_checked": len(lines),
        "evaluations": len(lines),
        "distinct_nontrivial": len(set(lines)),
        "rule": "rows of the cross product environment (9 spellings incl. case/whitespace/unknown) x host (14, loopback and not) "
                "x fsync x snapshot{0,>0} x recovery x strategy x auth x rate limit x observability mode x fresh-start x TLS, "
                "each delivered via TOML, YAML, environment overrides on a safe base file, or environment only "
                "(quick: full grid for pilot/production on one loopback and one non-loopback host, sampled elsewhere; thorough: "
                "exhaustive); every row non-trivial (reaches validate)",
        "accepted_rows": n_accept, "accepted_by_env": accept_by_env,
        "translator_output": info.get("translator"),
        "samples": lines[:3],
        "exhaustive": bool(thorough),
        "harness_build_s": round(bsecs, 1),
    })
    rep.coverage.update(scov)
    rep.assumptions = ["hosts that are neither IP literals nor 'localhost' but start with '127.' are outside the generated table"]
    return rep.finish()


def server_exit_stage(rep, lines, results, thorough, rng):
    """`... and the server refuses to start on a rejected configuration`: the REAL kyrodb_server binary on files of rejected
    (and, as a control, accepted) rows: exit status / keeps running"""
    from .. import rpc
    import subprocess, signal
    sok, slog, ssecs = rpc.server_build()
    if not sok:
        rep.violation(rep.write_replay("server_build.log", slog[-4000:]), no_input=True)
        return {}
    rows = [(l, r) for l, r in zip(lines, results) if (" via=toml" in l or " via=yaml" in l)]
    rej = [x for x in rows if canon(x[1]) == "reject" and not safe(fields(x[0]))]
    acc = [x for x in rows if canon(x[1]) == "accept" and " tls=0" in x[0] and "hhost=-" in x[0] and " loop=1" in x[0]]
    pick = rng.sample(rej, min(len(rej), 40 if thorough else 12)) + rng.sample(acc, min(len(acc), 6 if thorough else 3))
    d = scratch()
    emit = []
    for i, (l, r) in enumerate(pick):
        path = os.path.join(d, "c18_%d.%s" % (i, "yaml" if " via=yaml" in l else "toml"))
        emit.append((l + " emit=" + path, path, r))
    run_harness("config", [e[0] for e in emit])
    open(os.path.join(d, "keys.yaml"), "w").write("api_keys:\n  - key: kyro_ta_%s\n    tenant_id: ta\n    tenant_name: ta\n    max_qps: 0\n    max_vectors: 10\n    enabled: true\n" % ("a" * 32))
    outcomes = {"rejected:exit-nonzero": 0, "rejected:STARTED": 0, "accepted:running": 0, "accepted:exited": 0}
    bad = None
    for k, (line, path, r) in enumerate(emit):
        env = dict(ENV, RUST_LOG="off")
        for key in list(env):
            if key.startswith("KYRODB__"):
                env.pop(key)
        port = 33000 + (os.getpid() * 7 + k) % 20000
        p = subprocess.Popen([rpc.SERVER_BIN, "--config", path, "--port", str(port), "--data-dir", os.path.join(d, "c18data_%d" % k)],
                             cwd=d, env=env, stdout=subprocess.DEVNULL, stderr=subprocess.DEVNULL)
        try:
            rc = p.wait(timeout=4 if canon(r) == "reject" else 2.5)
        except subprocess.TimeoutExpired:
            rc = None
            p.send_signal(signal.SIGKILL); p.wait()
        if canon(r) == "reject":
            if rc is None or rc == 0:
                outcomes["rejected:STARTED"] += 1
                bad = bad or (line, "the server binary keeps running / exits 0 on a configuration the loader rejects (rc=%s)" % rc)
            else:
                outcomes["rejected:exit-nonzero"] += 1
        else:
            outcomes["accepted:running" if rc is None else "accepted:exited"] += 1
    if bad:
        p = rep.write_replay("server_started_on_rejected_config.ops", "# engine=config\n# ORACLE FAILURE: %s\n%s\n" % (bad[1], bad[0]))
        rep.violation(p)
    return {"server_exit_status": outcomes, "server_build_s": round(ssecs, 1)}


def run_cmd_translator():
    return common.run(["python3", os.path.join(ROOT, "translators", "xlate_config.py")], cwd=ROOT)
