"""C10 — tenants are isolated end to end (the real kyrodb_server binary over gRPC/HTTP)."""
from ..common import *
from .. import corr, rpc, verdict

MODULE = "KyroModel.Theorems.C10"
TRUSTED = [
    "Lean 4 kernel; axioms allowed: propext, Classical.choice, Quot.sound (audited per theorem)",
    "model KyroModel/Server/Tenant.lean is hand-written (tenant layer of kyrodb_server.rs over the abstract document map "
    "that C01-C11 establish); tied to the code by driving the REAL kyrodb_server binary (built from /repo's working tree on "
    "every run) over gRPC/HTTP with the tonic client generated from the repository's proto and comparing every answer",
    "the nearest-neighbour ORDER a search starts from is computed in the driver with Float from the stored vector bits "
    "(Euclidean, dyadic coordinates: exact); theorems quantify over every order; ties are reported, not guessed",
    "non-interference oracle (independent of the model): the same history replayed on a fresh server with the other "
    "tenants' requests removed must give each tenant the same answers",
    "not modelled: TLS, rate limiting (max_qps=0), process-wide Health/Metrics (outside the property), timing",
]
KINDS = {"c10-namespace-mismatch", "c10-reserved-key-filter", "c10-unauthenticated-accepted", "c10-reserved-key-shown", "c10-not-found-carries-data", "c10-interference",
         "c10-search-interference", "c10-flush-count", "c10-usage-interference", "harness"}


def oracle(raw, ann, impl):
    raise RuntimeError("rpc oracles take the case")


def collect(cases, oracle_fn, kinds, rep, stats):
    findings = []
    for c in rpc.run_cases(cases):
        stats["cases"] += 1
        stats["ops"] += len(c["raw"])
        stats["servers"] += 1 + sum(1 for t, (idx, _) in c["proj"].items() if len(idx) != len(c["raw"]))
        for l in c["raw"]:
            stats["op_kinds"][rpc.op_of(l)] = stats["op_kinds"].get(rpc.op_of(l), 0) + 1
        for r in c["impl"]:
            k = r.split(" ")[0] if r.startswith(("err:", "http:")) else ("ok" if r.startswith("ok") else r[:16])
            stats["answers"][k] = stats["answers"].get(k, 0) + 1
        stats["distinct"].add(hashlib.sha1("\n".join(c["raw"]).encode()).hexdigest())
        mi = rpc.first_mismatch(c)
        if mi is not None:
            findings.append({"kind": "mismatch", "engine": "rpc", "case": c, "idx": mi,
                             "msg": "op %d `%s`: server `%s` vs model `%s`" % (mi, c["raw"][mi], c["impl"][mi] if mi < len(c["impl"]) else "<missing>",
                                                                              c["model"][mi] if mi < len(c["model"]) else "<missing>"),
                             "pred": (lambda cc: rpc.first_mismatch(cc) is not None)})
        else:
            stats["validated"] += 1
        for kind, idx, msg in oracle_fn(c):
            if kind not in kinds:
                continue
            stats["oracle_kinds"][kind] = stats["oracle_kinds"].get(kind, 0) + 1
            findings.append({"kind": "oracle", "engine": "rpc", "case": c, "idx": idx, "msg": msg,
                             "sig": {"engine": "rpc", "kind": kind},
                             "pred": (lambda cc, kind=kind: any(k == kind for k, _, _ in oracle_fn(cc)))})
    return findings


def new_stats():
    return {"cases": 0, "ops": 0, "validated": 0, "distinct": set(), "servers": 0, "op_kinds": {}, "answers": {}, "oracle_kinds": {}}


def run(tier, seed, replay):
    rep = Report("C10", tier, seed)
    thorough = tier == "thorough"
    ok, info = proof_stage(rep, MODULE, thorough=thorough)
    bok, blog, bsecs = cargo_build()
    sok, slog, ssecs = rpc.server_build() if bok else (False, "", 0)
    if not bok or not sok:
        rep.violation(rep.write_replay("build.log", (blog + slog)[-4000:]), no_input=True)
        proof_coverage(rep, info, "lake build " + MODULE, TRUSTED)
        return rep.finish()
    stats = new_stats()
    cases = []
    if replay:
        cases.append(corr.read_replay(replay)[1])
    else:
        d = os.path.join(CORPUS, "C10")
        for p in sorted(os.listdir(d)) if os.path.isdir(d) else []:
            cases.append(corr.read_replay(os.path.join(d, p))[1])
        rng = rng_for(seed, "C10/rpc")
        for i in range(400 if thorough else 44):
            cases.append(rpc.gen_case(rng, n_ops=60 if thorough else 40, focus="c10"))
    findings = collect(cases, rpc.oracle_c10, KINDS, rep, stats)
    verdict.settle(rep, ok, info, findings, MODULE)
    proof_coverage(rep, info, "cd lean && lake build %s && lake env lean <#print axioms audit>" % MODULE, TRUSTED)
    rep.coverage.update({
        "traces_validated_against_impl": stats["validated"],
        "disagreements_checked": stats["cases"],
        "evaluations": stats["ops"],
        "distinct_nontrivial": len(stats["distinct"]),
        "server_processes": stats["servers"],
        "op_kinds": stats["op_kinds"],
        "answer_kinds": stats["answers"],
        "oracle_failures_by_kind": stats["oracle_kinds"],
        "rule": "random RPC histories of 2-3 tenants (plus a disabled key, an unknown key, no key, an admin) against the real "
                "kyrodb_server with auth enabled: colliding local ids 0..7, 2^32-1, 2^32; vectors and queries from one small "
                "shared pool (identical vectors/queries across tenants, cache reuse); namespaces; spoofed reserved keys in "
                "metadata and in filters; filter trees with NOT/OR/IN; Insert, BulkInsert, BulkLoadHnsw, Query, BulkQuery, "
                "Search, BulkSearch, UpdateMetadata, Delete, BatchDelete by ids and by filter, FlushHotTier, /usage "
                "(self/all), restarts. Every answer compared with the model; every history replayed once per tenant with the "
                "other tenants' requests removed (non-interference)",
        "exhaustive": False,
        "harness_build_s": round(bsecs, 1), "server_build_s": round(ssecs, 1),
    })
    rep.assumptions = ["exact nearest-neighbour order on the small collections generated (ties reported)", "max_qps=0 (no rate limiting)"]
    return rep.finish()
