"""C19 — rate limits bound admitted traffic."""
from ..common import *
from .. import corr, ratelimit, verdict, conc

MODULE = "KyroModel.Theorems.C19"
TRUSTED = [
    "Lean 4 kernel; axioms allowed: propext, Classical.choice, Quot.sound (audited per theorem)",
    "model KyroModel/Server/RateLimit.lean (exact integer arithmetic in nano-tokens / ns) is hand-written; tied to the code by running the real RateLimiter under a virtual monotonic clock (in-binary interposition of clock_gettime) on the same call patterns",
    "f64 arithmetic of the implementation: the comparison of a case ends at a decision within 10 nano-tokens of the threshold (counted in the evidence)",
    "the argument that a mutex-protected bucket sees calls at monotone clock readings under every interleaving (C19_global_all_schedules) relies on parking_lot mutual exclusion and CLOCK_MONOTONIC",
]


# ---------------------------------------------------------------------------------------------
# concurrent callers (controlled scheduler, real RateLimiter, virtual clock moved only by `adv` ops)

DRAIN5 = "warm=rc:b:10;rc:b:10;rc:b:10;rc:b:10;rc:b:10"      # tenant b empties a global bucket of 5 at t=0


def conc_programs(thorough, rng):
    mx = 4000 if thorough else 500
    lines = [
        # a caller of tenant a (rate 1, burst 1) is refused by the (empty) global bucket; time passes; two more callers of a
        "explore rl=5 %s t0=rc:a:1 t1=adv:1000;rc:a:1;rc:a:1 mode=dfs bound=3 max=%d" % (DRAIN5, mx),
        "explore rl=5 %s t0=rc:a:1 t1=adv:1000 t2=rc:a:1;rc:a:1 mode=dfs bound=2 max=%d" % (DRAIN5, mx),
        "explore rl=5 %s t0=rc:a:2;rc:a:2 t1=adv:500;rc:a:2;rc:a:2 mode=dfs bound=2 max=%d" % (DRAIN5, mx),
        # no time passes at all: burst only, jointly
        "explore rl=- t0=rc:a:2;rc:a:2 t1=rc:a:2;rc:a:2 mode=dfs bound=2 max=%d" % mx,
        "explore rl=3 t0=rc:a:2;rc:a:2 t1=rc:b:2;rc:b:2 t2=rc:c:2 mode=dfs bound=2 max=%d" % mx,
        "explore rl=1 t0=rc:a:1;rc:a:1 t1=rc:b:1;rc:a:1 mode=dfs bound=2 max=%d" % mx,
    ]
    for _ in range(40 if thorough else 8):
        qa = rng.choice([1, 2])                      # one max_qps per tenant (the limiter keeps the first caller's capacity)
        ops = ["rc:a:%d" % qa, "rc:a:%d" % qa, "rc:b:2", "adv:500", "adv:1000", "rc:a:%d" % qa]
        ts = [";".join(rng.choice(ops) for _ in range(rng.choice([1, 2, 3]))) for _ in range(3)]
        lines.append("explore rl=%s %s t0=%s t1=%s t2=%s mode=random seed=%d max=%d" % (
            rng.choice(["-", "2", "5"]), rng.choice(["", DRAIN5]), ts[0], ts[1], ts[2], rng.randrange(10 ** 6), 400 if thorough else 60))
    return [re.sub(r"  +", " ", l) for l in lines]


def window_violation(calls, rate, burst):
    """calls: [(t_before, t_after, admitted)]; every window [t_before_i, t_after_j]: admitted inside <= burst + rate*dt"""
    adm = sorted((c for c in calls if c[2]), key=lambda c: (c[0], c[1]))
    for i in range(len(adm)):
        for j in range(i, len(adm)):
            a, b = adm[i][0], max(adm[j][1], adm[i][1])
            n = sum(1 for c in adm if c[0] >= a and c[1] <= b)
            if n > burst + rate * (b - a) / 1e9 + 1e-6:
                return "%d admitted between t=%.3fs and t=%.3fs, bound %d + %d*dt = %.3f" % (n, (a - 1e12) / 1e9, (b - 1e12) / 1e9, burst, rate, burst + rate * (b - a) / 1e9)
    return None


def conc_check(lines, rep):
    import concurrent.futures
    chunks = [lines[i::8] for i in range(8)]
    results = []
    with concurrent.futures.ThreadPoolExecutor(max_workers=8) as ex:
        for part in ex.map(lambda ch: conc.explore(ch) if ch else [], chunks):
            results += part
    runs = hist = 0
    bad = {}
    for line, r in results:
        if r is None:
            rep.violation(rep.write_replay("harness_died.ops", "# engine=conc\n%s\n" % line), no_input=True)
            continue
        runs += r["runs"]
        g = re.search(r" rl=(\S+)", line).group(1)
        for h in r["histories"]:
            hist += 1
            per, allc = {}, []
            for o in h["ops"]:
                p = o["op"].split(":")
                if p[0] != "rc":
                    continue
                m = re.fullmatch(r"(true|false)/(\d+)/(\d+)", o["res"])
                if not m:
                    continue
                c = (int(m.group(2)), int(m.group(3)), m.group(1) == "true")
                per.setdefault((p[1], int(p[2])), []).append(c)
                allc.append(c)
            txt = "; ".join("T%d %s=>%s [%d,%d]" % (o["t"], o["op"], o["res"].split("/")[0], o["inv"], o["ret"]) for o in sorted(h["ops"], key=lambda o: o["inv"]))
            for (t, qps), calls in per.items():
                w = window_violation(calls, qps, qps)
                if w:
                    bad.setdefault("c19-conc-tenant", []).append((line, "tenant %s (rate %d/s, burst %d): %s -- %s" % (t, qps, qps, w, txt)))
            if g != "-" and not line.count("warm="):
                w = window_violation(allc, int(g), int(g))
                if w:
                    bad.setdefault("c19-conc-global", []).append((line, "global limit %s: %s -- %s" % (g, w, txt)))
    for kind, items in bad.items():
        line, txt = min(items, key=lambda x: len(x[1]))
        sig = {"engine": "conc", "kind": kind}
        kf = match_known("C19", sig)
        if kf:
            rep.known_finding(kf)
            continue
        p = rep.write_replay("%s.ops" % kind, "# engine=conc\n# ORACLE FAILURE on the implementation (real RateLimiter, controlled schedule, virtual clock): %s\n# (%d such histories in this run)\n%s\n" % (txt, len(items), line))
        rep.violation(p)
    return {"programs": len(lines), "executions": runs, "distinct_histories": hist, "violations_by_kind": {k: len(v) for k, v in bad.items()}}


def run(tier, seed, replay):
    rep = Report("C19", tier, seed)
    thorough = tier == "thorough"
    ok, info = proof_stage(rep, MODULE, thorough=thorough, also=("KyroModel.Theorems.C19FirstUse",))
    bok, blog, bsecs = cargo_build()
    if not bok:
        rep.violation(rep.write_replay("harness_build.log", blog[-4000:]), no_input=True)
        proof_coverage(rep, info, "lake build " + MODULE, TRUSTED)
        return rep.finish()
    stats = {"cases": 0, "ops": 0, "validated": 0, "distinct": set()}
    clines = []
    if replay:
        eng, ops = corr.read_replay(replay)
        cases = [ops] if eng != "conc" else []
        clines = [l for l in ops if l.startswith(("explore ", "replay "))] if eng == "conc" else []
    else:
        d = os.path.join(CORPUS, "C19")
        for f in sorted(os.listdir(d)) if os.path.isdir(d) else []:
            eng, ops = corr.read_replay(os.path.join(d, f))
            if eng == "conc":
                clines += [l for l in ops if l.startswith(("explore ", "replay "))]
        clines += conc_programs(thorough, rng_for(seed, "C19/conc"))
        rng = rng_for(seed, "C19")
        cases = [ratelimit.gen_case(rng, n_ops=120 if thorough else 60) for _ in range(6000 if thorough else 600)]
    findings = corr.collect("ratelimit", cases, ratelimit.oracle, {"c19-tenant", "c19-global", "c19-refused-with-budget", "panic"}, rep, stats)
    ccov = conc_check(clines, rep) if clines else {}
    verdict.settle(rep, ok, info, findings, MODULE)
    proof_coverage(rep, info, "cd lean && lake build %s && lake env lean <#print axioms audit>" % MODULE, TRUSTED)
    rep.coverage.update({
        "traces_validated_against_impl": stats["validated"],
        "disagreements_checked": stats["cases"],
        "evaluations": stats["cases"],
        "distinct_nontrivial": len(stats["distinct"]),
        "rule": "seeded call patterns (bursts, steady arrivals at and around the rate, idle gaps, observability reads) over 1-3 "
                "tenants with rates {1,2,5,20,100} and global limit {none,3,10,50}, virtual clock advanced explicitly and by a "
                "per-read tick {0,10ns,1us,100us}; oracle on the implementation: every window of calls admits <= burst + rate*dt "
                "(per tenant and globally); distinct = distinct annotated patterns",
        "ops_executed": stats["ops"],
        "samples": [cases[-1][:12]] if cases else [],
        "harness_build_s": round(bsecs, 1),
        "concurrent": dict(ccov, rule="2-3 caller threads on the real RateLimiter under the controlled scheduler (lock-acquisition granularity, DFS with "
                                      "preemption bound 2-3, plus random schedules); the virtual clock moves only through explicit `adv` operations that "
                                      "are scheduled like any other; every window [before call i, after call j] of every history: admitted <= burst + "
                                      "rate*dt per tenant, and globally when the global bucket starts full"),
    })
    rep.assumptions = ["interleavings at lock-acquisition granularity",
                       "same max_qps for a tenant on every call"]
    return rep.finish()
