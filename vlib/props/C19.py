"""C19 — rate limits bound admitted traffic."""
from ..common import *
from .. import corr, ratelimit, verdict

MODULE = "KyroModel.Theorems.C19"
TRUSTED = [
    "Lean 4 kernel; axioms allowed: propext, Classical.choice, Quot.sound (audited per theorem)",
    "model KyroModel/Server/RateLimit.lean (exact integer arithmetic in nano-tokens / ns) is hand-written; tied to the code by running the real RateLimiter under a virtual monotonic clock (in-binary interposition of clock_gettime) on the same call patterns",
    "f64 arithmetic of the implementation: the comparison of a case ends at a decision within 10 nano-tokens of the threshold (counted in the evidence)",
    "the argument that a mutex-protected bucket sees calls at monotone clock readings under every interleaving (C19_global_all_schedules) relies on parking_lot mutual exclusion and CLOCK_MONOTONIC",
]


def run(tier, seed, replay):
    rep = Report("C19", tier, seed)
    thorough = tier == "thorough"
    ok, info = proof_stage(rep, MODULE, thorough=thorough)
    bok, blog, bsecs = cargo_build()
    if not bok:
        rep.violation(rep.write_replay("harness_build.log", blog[-4000:]), no_input=True)
        proof_coverage(rep, info, "lake build " + MODULE, TRUSTED)
        return rep.finish()
    stats = {"cases": 0, "ops": 0, "validated": 0, "distinct": set()}
    if replay:
        cases = [corr.read_replay(replay)[1]]
    else:
        rng = rng_for(seed, "C19")
        cases = [ratelimit.gen_case(rng, n_ops=120 if thorough else 60) for _ in range(6000 if thorough else 600)]
    findings = corr.collect("ratelimit", cases, ratelimit.oracle, {"c19-tenant", "c19-global", "c19-refused-with-budget", "panic"}, rep, stats)
    verdict.settle(rep, ok, info, findings, MODULE)
    proof_coverage(rep, info, "cd lean && lake build %s && lake env lean <#print axioms audit>" % MODULE, TRUSTED)
    rep.coverage.update({
        "traces_validated_against_impl": stats["validated"],
        "disagreements_checked": stats["cases"],
        "evaluations": stats["cases"],
        "distinct_nontrivial": len(stats["distinct"]),
        "rule": "seeded call patterns (bursts, steady arrivals at and around the rate, idle gaps, observability reads) over 1-3 "
                "tenants with rates {1,2,5,20,100} and global limit {none,3,10,50}, virtual clock advanced explicitly and by a "
                "per-read tick {0,10ns,1us,100us}; oracle on the implementation: every window of calls admits <= burst + rate*dt "
                "(per tenant and globally); distinct = distinct annotated patterns",
        "ops_executed": stats["ops"],
        "samples": [cases[-1][:12]] if cases else [],
        "harness_build_s": round(bsecs, 1),
    })
    rep.assumptions = ["sequential callers in this run (the concurrent refund window is exercised by the scheduler check)",
                       "same max_qps for a tenant on every call"]
    return rep.finish()
