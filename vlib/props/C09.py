"""C09 — snapshots and compaction racing with writers lose and duplicate nothing."""
from ..common import *
from .. import common, conc

MODULE = "KyroModel.Theorems.C09"
TRUSTED = [
    "Lean 4 kernel; axioms allowed: propext, Classical.choice, Quot.sound (audited per theorem)",
    "controlled scheduler + vendored parking_lot hooks (see C08): real engine with persistence, interleavings at lock-acquisition granularity; after every explored schedule the real strict recover runs on the data directory and is compared with the final live collection",
    "step-level protocol model in Theorems/C09.lean (three writer steps, atomic snapshot read + compaction); the lock discipline it assumes (writer steps one critical section, snapshot read outside) is what snapshot_lock / write_gate are read to enforce and what the exploration exercises; file I/O is not a scheduling point",
]


def programs(thorough, rng):
    lines = []
    writers = ["ins:3:6", "ins:1:5", "del:1", "del:2", "um:2:7", "bd:1,2", "ins:4:8"]
    for snap, rot in ((0, 0), (1, 1), (2, 150), (3, 1)):
        for a in writers:
            lines.append("explore t0=%s;%s t1=snap;snap mode=dfs bound=%d max=%d persist=1 snap=%d rot=%d" % (
                a, rng.choice(writers), 2 if thorough else 1, 3000 if thorough else 150, snap, rot))
        for _ in range(12 if thorough else 3):
            ts = [";".join(rng.choice(writers) for _ in range(rng.choice([1, 2, 3]))) for _ in range(2)]
            lines.append("explore t0=%s t1=%s t2=snap;snap mode=random seed=%d max=%d persist=1 snap=%d rot=%d" % (
                ts[0], ts[1], rng.randrange(10 ** 6), 500 if thorough else 60, snap, rot))
    return lines


def run(tier, seed, replay):
    rep = Report("C09", tier, seed, level="proof")
    thorough = tier == "thorough"
    ok, info = proof_stage(rep, MODULE, extra_targets=(), thorough=thorough, also=("KyroModel.Theorems.C09Manifest",))
    bok, blog, bsecs = cargo_build()
    if not bok:
        rep.violation(rep.write_replay("harness_build.log", blog[-4000:]), no_input=True)
        proof_coverage(rep, info, "lake build " + MODULE, TRUSTED)
        return rep.finish()
    rng = rng_for(seed, "C09")
    if replay:
        lines = [l for l in open(replay).read().split("\n") if l.startswith(("explore ", "replay "))]
    else:
        lines = []
        d = os.path.join(CORPUS, "C09")
        for p in sorted(os.listdir(d)) if os.path.isdir(d) else []:
            lines += [l for l in open(os.path.join(d, p)).read().split("\n") if l.startswith(("explore ", "replay "))]
        lines += programs(thorough, rng)
    import concurrent.futures
    chunks = [lines[i::12] for i in range(12)]
    results = []
    with concurrent.futures.ThreadPoolExecutor(max_workers=12) as ex:
        for part in ex.map(lambda ch: conc.explore(ch) if ch else [], chunks):
            results += part
    runs = hist = 0
    bad = {}
    finals = {}
    for line, r in results:
        if r is None:
            rep.violation(rep.write_replay("harness_died.ops", "# engine=conc\n%s\n" % line), no_input=True)
            continue
        runs += r["runs"]
        for h in r["histories"]:
            hist += 1
            if ";rec;" not in h["final"]:
                continue
            live, rec = h["final"].split(";rec;")
            finals[live] = finals.get(live, 0) + 1
            if rec.startswith("ERR:"):
                bad.setdefault("c09-restart-refused", []).append((line, h, rec))
            elif rec != live:
                bad.setdefault("c09-restart-differs", []).append((line, h, "live [%s] recovered [%s]" % (live, rec)))
    for kind, items in bad.items():
        line, h, msg = min(items, key=lambda x: len(x[1]["ops"]))
        sig = {"engine": "conc", "kind": kind}
        kf = match_known("C09", sig)
        if kf:
            rep.known_finding(kf); continue
        txt = "; ".join("T%d %s=>%s [%d,%d]" % (o["t"], o["op"], o["res"], o["inv"], o["ret"]) for o in h["ops"])
        p = rep.write_replay("%s.ops" % kind, "# engine=conc\n# ORACLE FAILURE on the implementation: after all calls returned, restart from the data directory "
                             "does not yield the final live collection (%d such histories)\n# %s\n# history: %s\n%s\n" % (len(items), msg, txt, line))
        rep.violation(p)
    if not ok and not bad:
        p = rep.write_replay("proof_obligation.json", {"broken": "C09 theorems no longer check",
                             "details": {k: info.get(k) for k in ("errors", "errors_detail", "source_scan_hits", "axioms")},
                             "search": "%d executions, %d distinct histories: restart always equal to the final live collection" % (runs, hist)})
        rep.violation(p, no_input=True)
    proof_coverage(rep, info, "cd lean && lake build %s && <#print axioms audit>" % MODULE, TRUSTED)
    rep.coverage.update({
        "programs": len(lines), "traces_validated_against_impl": hist, "disagreements_checked": hist,
        "evaluations": runs, "distinct_nontrivial": hist,
        "rule": "1-2 writer threads (insert/overwrite/delete/metadata update/batch delete, 1-3 ops) against a thread issuing two manual "
                "snapshots, with automatic snapshot intervals {off,1,2,3} and rotation thresholds {off,1,150 bytes}: DFS over schedules at "
                "lock-acquisition granularity (preemption bound %d) and random schedules; after each schedule: strict recover of the data "
                "directory vs final live collection" % (2 if thorough else 1),
        "distinct_final_collections": len(finals),
        "exhaustive": False, "harness_build_s": round(bsecs, 1),
    })
    rep.assumptions = ["lock-acquisition granularity; file-system calls are not scheduling points", "process stays alive (crashes are C01)"]
    return rep.finish()
