"""C13 — strict recovery never silently returns damaged state."""
from ..common import *
from .. import persist, corr
from .persist_common import run_persist_property

MODULE = "KyroModel.Theorems.C13"
TRUSTED = [
    "Lean 4 kernel; axioms allowed: propext, Classical.choice, Quot.sound (audited per theorem)",
    "model KyroModel/Persist/{Model,Damage}.lean: strict recovery of a directory in which one file is gone / unreadable / yields fewer frames / parses to other fields; tie: for every enumerated byte-level fault the real per-file readers' view of the damaged file is the model's input and the real strict recover on the damaged directory is compared with the model's outcome",
    "model KyroModel/Persist/Codec.lean: byte-level frame scanner (length, payload, CRC-32 as a parameter); tie: `codec` correspondence on damaged byte strings",
    "not proved: that CRC-32 detects every single-bit flip (a property of the polynomial; exercised on every flip enumerated); bincode payload decoding; the server binary's start-up wrapper",
]
KINDS = {"c13-wal-silent-prefix:trunc", "c13-wal-silent-prefix:len", "c13-wal-silent-prefix:payload", "c13-wal-silent-prefix:crc",
         "c13-wal-silent-prefix:magic", "c13-wal-silent-prefix:tail", "c13-snapshot-fallback", "c13-manifest-altered", "c13-wal-altered-entry",
         "c13-wal-corruption-accepted", "c13-wal-missing-accepted", "c13-snapshot-altered",
         "c13-manifest-gone-accepted", "c13-other", "panic"}


def gen_history(rng, n_ops, level, k):
    dim = rng.choice([1, 2, 3, 4])
    metric = rng.choice(["l2", "l2", "ip"])
    snap = rng.choice([0, 2, 3, 5, 1000])
    rot = rng.choice([1, 100, 130, 300, 100000])
    ids = list(range(1, rng.choice([3, 5, 8]) + 1))
    ops = ["cfg dim=%d metric=%s cap=200 snap=%d rot=%d fsync=always crash=0 torn=0" % (dim, metric, snap, rot)]
    for _ in range(n_ops):
        op = rng.choices(["insert", "delete", "update", "snapshot", "restart", "batch_delete"], [55, 12, 10, 10, 8, 5])[0]
        i = rng.choice(ids)
        if op == "insert":
            v = persist.rand_vec(rng, dim)
            ops.append("insert id=%d v=%s m=%s" % (i, persist.vbits(v), show_meta(persist.rand_meta(rng))))
        elif op == "delete":
            ops.append("delete id=%d" % i)
        elif op == "batch_delete":
            ops.append("batch_delete ids=%s" % show_vec([rng.choice(ids) for _ in range(rng.choice([1, 2]))]))
        elif op == "update":
            ops.append("update id=%d m=%s merge=%d" % (i, show_meta(persist.rand_meta(rng)), rng.randrange(2)))
        else:
            ops.append(op)
    ops += ["disk", "sweep level=%s seed=%d" % (level, k)]
    return ops


def gen(thorough, seed):
    rng = rng_for(seed, "C13/persist")
    cases = []
    n = 60 if thorough else 14
    for k in range(n):
        level = "full" if (thorough and k % 6 == 0) else "quick"
        cases.append(gen_history(rng, rng.choice([8, 14, 22, 30]), level, k))
    return cases


def frames_of(b):
    v, off = [], 4
    while off + 4 <= len(b):
        n = int.from_bytes(b[off:off + 4], "little")
        if n == 0 or off + 8 + n > len(b):
            break
        v.append((off, n)); off += 8 + n
    return v


def damaged_variants(rng, b, thorough):
    """byte strings derived from a clean segment: every truncation, flips of every bit of the
    length and checksum fields and of sampled payload bits, double damage, garbage tails"""
    out = []
    fr = frames_of(b)
    cuts = range(len(b) + 1) if (thorough or len(b) < 200) else sorted(
        {0, 1, 3, 4, 5, len(b) - 1} | {o + d for o, n in fr for d in (0, 1, 4, 5, 4 + n, 4 + n + 3, 8 + n)} |
        {rng.randrange(len(b)) for _ in range(10)})
    for c in cuts:
        if 0 <= c <= len(b):
            out.append(("trunc", b[:c]))
    for fi, (o, n) in enumerate(fr):
        bits = range(32) if (thorough or fi in (0, len(fr) // 2)) else (0, 6, 8, 16, 26, 27, 31)
        for k in bits:
            x = bytearray(b); x[o + k // 8] ^= 1 << (k % 8); out.append(("flip-len", bytes(x)))
            x = bytearray(b); x[o + 4 + n + k // 8] ^= 1 << (k % 8); out.append(("flip-crc", bytes(x)))
        for k in (range(n * 8) if thorough and n < 80 else [rng.randrange(n * 8) for _ in range(6)]):
            x = bytearray(b); x[o + 4 + k // 8] ^= 1 << (k % 8); out.append(("flip-payload", bytes(x)))
    for k in range(4):
        x = bytearray(b); x[k] ^= 1 << rng.randrange(8); out.append(("flip-magic", bytes(x)))
    for _ in range(12 if thorough else 4):
        x = bytearray(b)
        for _ in range(2):
            if len(x):
                x[rng.randrange(len(x))] ^= 1 << rng.randrange(8)
        out.append(("double", bytes(x[:rng.randrange(len(x) + 1)] if rng.random() < 0.5 else x)))
    for _ in range(6 if thorough else 2):
        out.append(("garbage-tail", b + bytes(rng.randrange(256) for _ in range(rng.choice([1, 3, 4, 7, 12, 40])))))
    # length fields set to boundary values
    for (o, n) in fr[:2]:
        for val in (0, 1, n - 1, n + 1, 104857600, 104857601, 0xFFFFFFFF):
            x = bytearray(b); x[o:o + 4] = int(val).to_bytes(4, "little"); out.append(("set-len", bytes(x)))
    return out


def codec_extra(rep, thorough, seed):
    """byte-level tie: real WalWriter/WalReader vs Codec.readFile (with CRC-32 computed in Lean)"""
    rng = rng_for(seed, "C13/codec")
    gens = ["walgen seed=%d n=%d dim=%d" % (rng.randrange(10 ** 6), rng.choice([0, 1, 2, 3, 5, 8]), rng.choice([1, 2, 5]))
            for _ in range(40 if thorough else 10)]
    ann, res, err, rc = run_harness("codec", gens)
    lines, kinds = [], {}
    for a in ann:
        hx = fields_of(a).get("bytes", "-")
        b = bytes.fromhex(hx) if hx != "-" else b""
        for kind, v in damaged_variants(rng, b, thorough):
            lines.append("walbytes bytes=%s" % (v.hex() or "-"))
            kinds[kind] = kinds.get(kind, 0) + 1
    findings, n_ok, outcomes = [], 0, {}
    for c0 in range(0, len(lines), 3000):
        part = gens + lines[c0:c0 + 3000] if c0 == 0 else lines[c0:c0 + 3000]
        ann2, res2, err2, rc2 = run_harness("codec", part, timeout=1800)
        mres, merr, mrc = run_driver("codec", ann2, timeout=1800)
        for i, l in enumerate(part):
            im = res2[i] if i < len(res2) else "<missing>"
            mo = mres[i] if i < len(mres) else "<missing>"
            cls = "open-err" if im == "open-err" else ("corrupted>0" if "corrupted=0" not in im else "clean-view")
            outcomes[cls] = outcomes.get(cls, 0) + 1
            if im == mo:
                n_ok += 1
            elif not findings:
                findings.append({"kind": "mismatch", "engine": "codec", "idx": 0, "pred": None,
                                 "case": {"raw": [l], "ann": [ann2[i] if i < len(ann2) else l], "impl": [im], "model": [mo], "engine": "codec"},
                                 "msg": "byte-level reader: impl `%s` vs Codec.readFile `%s` on %s" % (im, mo, l[:200])})
    return findings, {"codec_byte_strings_compared": n_ok + len(findings), "codec_agreeing": n_ok,
                      "codec_damage_kinds": kinds, "codec_reader_outcomes": outcomes}


# ---------------------------------------------------------------------------------------------
# through the real server binary's start-up

def _rpcfs_runner(cases):
    from concurrent.futures import ThreadPoolExecutor
    from .. import rpc
    with ThreadPoolExecutor(max_workers=12) as ex:
        outs = list(ex.map(rpc._run_one, cases))
    return [{"raw": c, "ann": c, "impl": o, "model": o, "engine": "rpcfs"} for c, o in zip(cases, outs)]


corr.RUNNERS["rpcfs"] = _rpcfs_runner
SERVER_FAULTS = ["op=rm file=MANIFEST", "op=trunc file=MANIFEST at=0", "op=flip file=MANIFEST at=0",
                 "op=rm file=wal:0", "op=rm file=wal:1", "op=rm file=wal:2", "op=trunc file=wal:0 at=0", "op=trunc file=wal:1 at=3",
                 "op=flip file=wal:0 at=0", "op=flip file=wal:1 at=1", "op=rm file=snap:0", "op=rm file=snap:1",
                 "op=trunc file=snap:0 at=0", "op=flip file=snap:0 at=0", "op=flip file=snap:1 at=2"]


def server_oracle(case):
    """census before the clean stop vs census after the damaged directory was started"""
    raw, impl = case["raw"], case["impl"]
    fails = []
    fi = next((i for i, l in enumerate(raw) if l.startswith("fs ")), None)
    if fi is None or not impl[fi].startswith("ok"):
        return fails
    if any(r.startswith("<harness") for r in impl):
        return [("harness", 0, "harness died")]
    before = [impl[i] for i in range(fi) if raw[i].startswith("bq ")][-2:]
    started = impl[fi + 1]
    if started != "ok":
        return fails                                  # refused to start
    after = [impl[i] for i in range(fi + 2, len(raw)) if raw[i].startswith("bq ")][:2]
    if before != after:
        f = dict(p.split("=", 1) for p in raw[fi].split(" ")[1:])
        cls = f["file"].split(":")[0].lower()
        kind = "c13-server-%s-%s" % (cls, f["op"])
        if cls == "snap":
            # the same silent fallback to an older snapshot file as KF-C13-snapshot-fallback, reached through the server's start-up
            kind = "c13-server-snapshot-fallback"
        fails.append((kind, fi, "the server binary starts successfully after `%s` with a different collection: before %s, after %s" % (raw[fi], before, after)))
    return fails


def server_extra(rep, thorough, seed):
    from .. import rpc
    sok, slog, ssecs = rpc.server_build()
    if not sok:
        rep.violation(rep.write_replay("server_build.log", slog[-4000:]), no_input=True)
        return [], {}
    rng = rng_for(seed, "C13/server")
    cases = []
    d = os.path.join(CORPUS, "C13")
    for p in sorted(os.listdir(d)) if os.path.isdir(d) else []:
        if p.endswith(".rpc"):
            cases.append(corr.read_replay(os.path.join(d, p))[1])
    ids = "1,2,3,4,5,6,7,8"
    # every damage on a directory with snapshots (small interval) and on one that was never snapshotted (WAL segments only)
    for fault, snap in [(f, sn) for f in SERVER_FAULTS * (3 if thorough else 1) for sn in (None, 1000) if sn is None or "snap:" not in f]:
        ops = ["cfg dim=2 tenants=ta:50,tb:50 cap=%d snap=%d" % (rng.choice([4, 64]), snap or rng.choice([2, 3, 5])), "start"]
        for phase in range(rng.choice([2, 3])):
            for _ in range(rng.randint(3, 7)):
                t = rng.choice(["ta", "tb"])
                if rng.random() < 0.75:
                    ops.append("ins t=%s id=%d v=%s m=- ns=-" % (t, rng.randint(1, 8), show_vec([f32bits(rng.choice([0.0, 0.5, 1.0, 2.0])) for _ in range(2)])))
                else:
                    ops.append("del t=%s id=%d ns=-" % (t, rng.randint(1, 8)))
            ops.append("restart")
        ops += ["bq t=ta ids=%s emb=1" % ids, "bq t=tb ids=%s emb=1" % ids, "stop", "fs " + fault, "start",
                "bq t=ta ids=%s emb=1" % ids, "bq t=tb ids=%s emb=1" % ids, "stop"]
        cases.append(ops)
    findings, outcomes = [], {}
    for c in _rpcfs_runner(cases):
        fi = next((i for i, l in enumerate(c["raw"]) if l.startswith("fs ")), None)
        if fi is not None:
            key = c["raw"][fi][3:].split(" at=")[0] + " => " + ("no-such-file" if not c["impl"][fi].startswith("ok") else
                  "refused" if c["impl"][fi + 1] != "ok" else "started")
            outcomes[key] = outcomes.get(key, 0) + 1
        for kind, idx, msg in server_oracle(c):
            findings.append({"kind": "oracle", "engine": "rpcfs", "case": c, "idx": idx, "msg": msg,
                             "sig": {"engine": "rpcfs", "kind": kind},
                             "pred": (lambda cc, kind=kind: any(k == kind for k, _, _ in server_oracle(cc)))})
    return findings, {"server_startup_faults": len(cases), "server_startup_outcomes": outcomes, "server_build_s": round(ssecs, 1)}


def both_extra(rep, thorough, seed):
    f1, c1 = codec_extra(rep, thorough, seed)
    f2, c2 = server_extra(rep, thorough, seed)
    return f1 + f2, dict(c1, **c2)


def fields_of(a):
    return dict(p.split("=", 1) for p in a.split(" ")[1:] if "=" in p)


def run(tier, seed, replay):
    if replay and corr.read_replay(replay)[0] == "rpcfs":
        from .. import rpc, verdict
        rep = Report("C13", tier, seed)
        ok, info = proof_stage(rep, MODULE)
        bok, blog, _ = cargo_build()
        sok, slog, _ = rpc.server_build() if bok else (False, "", 0)
        if not (bok and sok):
            rep.violation(rep.write_replay("build.log", (blog + slog)[-4000:]), no_input=True)
            return rep.finish()
        findings = []
        for c in _rpcfs_runner([corr.read_replay(replay)[1]]):
            for kind, idx, msg in server_oracle(c):
                findings.append({"kind": "oracle", "engine": "rpcfs", "case": c, "idx": idx, "msg": msg,
                                 "sig": {"engine": "rpcfs", "kind": kind}, "pred": None})
        verdict.settle(rep, ok, info, findings, MODULE)
        proof_coverage(rep, info, "lake build " + MODULE, TRUSTED)
        return rep.finish()

    def post(rep, thorough, seed):
        return [], {}
    r = run_persist_property(
        "C13", MODULE, TRUSTED, tier, seed, replay, gen, KINDS,
        "seeded random histories (inserts/overwrites/deletes/metadata updates, manual and automatic snapshots, rotation at "
        "1..300 bytes, segment compaction, restarts) ending in a clean stop, then EVERY enumerated single fault on the directory: "
        "per file removal; truncation to each frame boundary, boundary+-1, inside length/payload/CRC and random lengths; bit "
        "flips in magic, each frame's length field (all 32 bits for one frame per segment), first/middle/last payload byte, CRC, "
        "random offsets; snapshot magic/size/version/payload/CRC; every byte of the MANIFEST (3 of 8 bits quick, all thorough); "
        "the real strict recover runs on each damaged directory; evaluations = faults",
        ["truncation of the newest segment is excluded (crash case, C01)",
         "flips that make a snapshot's size field >= 32 GiB are not run in-process (allocator abort or EOF error depending on host memory; both are refusals)"],
        extra=both_extra)
    return r
