"""Shared runner for the persistence-family checks (C01, C02, C03)."""
from ..common import *
from .. import corr, persist, verdict


def run_persist_property(prop, module, trusted, tier, seed, replay, gen_cases, kinds, rule, assumptions,
                         extra=None, also=()):
    rep = Report(prop, tier, seed)
    thorough = tier == "thorough"
    ok, info = proof_stage(rep, module, thorough=thorough, also=also)
    bok, blog, bsecs = cargo_build()
    if not bok:
        rep.violation(rep.write_replay("harness_build.log", blog[-4000:]), no_input=True)
        proof_coverage(rep, info, "lake build " + module, trusted)
        return rep.finish()
    stats = {"cases": 0, "ops": 0, "validated": 0, "distinct": set()}
    if replay:
        cases = [corr.read_replay(replay)[1]]
    else:
        cases = []
        d = os.path.join(CORPUS, prop)
        for p in sorted(os.listdir(d)) if os.path.isdir(d) else []:
            if p.endswith(".ops"):
                cases.append(corr.read_replay(os.path.join(d, p))[1])
        cases += gen_cases(thorough, seed)

    def sig_of(kind, case):
        return {"engine": "persist", "kind": kind}

    findings = collect_persist(cases, kinds, rep, stats, sig_of)
    extra_cov = {}
    if extra:
        more, extra_cov = extra(rep, thorough, seed)
        findings += more
    verdict.settle(rep, ok, info, findings, module)
    proof_coverage(rep, info, "cd lean && lake build %s && lake env lean <#print axioms audit>" % module, trusted)
    ploss_n = 0
    ploss_views = 0
    hist, crashes, index_rej, feats = {}, 0, 0, {"rotation": 0, "auto_or_manual_snapshot": 0, "segment_compaction": 0,
                                                  "restarts>=2": 0, "failed_op": 0, "tombstone_compaction_possible": 0}
    for c in stats.get("results", []):
        acts = " ".join(c["impl"])
        feats["rotation"] += any("walCreate" in l for a, l in zip(c["ann"], c["impl"]) if not a.startswith(("restart", "cfg")))
        feats["auto_or_manual_snapshot"] += "snapPut" in acts
        feats["segment_compaction"] += "unlinkWal" in acts
        feats["restarts>=2"] += sum(1 for l in c["raw"] if l == "restart") >= 3
        feats["failed_op"] += any(l.startswith(("rejected", "full")) for l in c["impl"])
        for l in c["impl"]:
            m = re.search(r" plossn=(\d+)", l)
            if m:
                ploss_n += int(m.group(1))
                mv = re.search(r" plossv=(\S+)", l)
                if mv and mv.group(1) != "-":
                    ploss_views += mv.group(1).count("#") + 1
                l = l.split(" ploss=")[0]
            if " crash=" in l and l.split(" crash=", 1)[1].strip():
                crashes += l.split(" crash=", 1)[1].count("#") + 1
        for l in c["ann"]:
            hist[l.split(" ")[0]] = hist.get(l.split(" ")[0], 0) + 1
            index_rej += "accept=index" in l
    faults, fhist = 0, {}
    for c in stats.get("results", []):
        for a, l in zip(c["ann"], c["impl"]):
            if a.startswith("sweep "):
                _, ff = persist.fields(a)
                base = ff.get("base", "")
                for lab, conc, view, out in persist.sweep_items(ff, l):
                    faults += 1
                    cls = "skipped" if out == "skipped" else "refused" if out.startswith("err:") else "same" if out == base else "DIFFERENT"
                    key = ".".join(lab.split(".")[:3]) if not lab.startswith("manifest") else lab
                    fhist.setdefault(key, {}).setdefault(cls, 0)
                    fhist[key][cls] += 1
    bkstats = {}
    for c in stats.get("results", []):
        for a, l in zip(c["ann"], c["impl"]):
            op = a.split(" ")[0]
            if op.startswith("bk_"):
                key = op + ":" + ("ok" if l.startswith(("ok", "deleted=-")) else "deleted" if l.startswith("deleted=") else l.split(" ")[0])
                if op == "bk_incr" and l.startswith("ok") and "members=s" in l:
                    key += "+snapshot"
                if op == "bk_damage":
                    key = op + ":" + (l.split("field=")[1] if "field=" in l else "?")
                bkstats[key] = bkstats.get(key, 0) + 1
    restores = sum(v for k, v in bkstats.items() if k.startswith(("bk_restore", "bk_pitr", "bk_prune")))
    rep.coverage.update({
        "traces_validated_against_impl": stats["validated"],
        "disagreements_checked": stats["cases"],
        "evaluations": faults if faults else restores if restores else (stats["cases"] if not crashes else crashes),
        "backup_ops_by_outcome": bkstats,
        "single_faults_recovered_by_real_code": faults,
        "fault_outcomes_by_class": fhist,
        "distinct_nontrivial": len(stats["distinct"]),
        "rule": rule,
        "op_histogram": hist,
        "histories_exercising": feats,
        "kill_points_recovered_by_real_code": crashes,
        "power_loss_directories_recovered_by_real_code": ploss_n,
        "power_loss_referenced_views_matched_to_model_prefixes": ploss_views,
        "accept_index_observed": index_rej,
        "ops_executed": stats["ops"],
        "samples": [cases[-1][:12]] if cases else [],
        "harness_build_s": round(bsecs, 1),
    })
    rep.coverage.update(extra_cov)
    rep.assumptions = assumptions
    return rep.finish()


def collect_persist(cases, kinds, rep, stats, sig_of):
    findings = []
    results = corr.run_cases("persist", cases, chunk=40)
    stats["results"] = results
    for c in results:
        stats["cases"] += 1
        stats["ops"] += len(c["raw"])
        stats["distinct"].add(hashlib.sha1("\n".join(c["ann"]).encode()).hexdigest())
        mi = corr.first_mismatch(c)
        if mi is not None:
            findings.append({"kind": "mismatch", "engine": "persist", "case": c, "idx": mi,
                             "msg": "op %d `%s`: impl `%s` vs model `%s`" % (
                                 mi, c["ann"][mi][:120] if mi < len(c["ann"]) else "?",
                                 c["impl"][mi][:300] if mi < len(c["impl"]) else "<missing>",
                                 c["model"][mi][:300] if mi < len(c["model"]) else "<missing>"),
                             "pred": (lambda cc: corr.first_mismatch(cc) is not None)})
        else:
            stats["validated"] += 1
        seen = set()
        for kind, idx, msg in persist.oracle(c["raw"], c["ann"], c["impl"]):
            if (kind not in kinds and kind.split(":")[0] not in kinds) or kind in seen:
                continue
            seen.add(kind)
            findings.append({"kind": "oracle", "engine": "persist", "case": c, "idx": idx, "msg": msg,
                             "sig": sig_of(kind, c),
                             "pred": (lambda cc, kind=kind: any(k == kind for k, _, _ in persist.oracle(cc["raw"], cc["ann"], cc["impl"])))})
            if not kind.endswith("-partial") and not kind.startswith("c13-"):
                break      # later failures of the same history are knock-on effects
    return findings
