"""C07 — the query-result cache never serves stale or foreign results."""
from ..common import *
from .. import corr, tiered, qcache, verdict, conc

MODULE = "KyroModel.Theorems.C07"
TRUSTED = [
    "Lean 4 kernel; axioms allowed: propext, Classical.choice, Quot.sound (audited per theorem)",
    "model KyroModel/Tiered/QueryCache.lean (keyed LRU store with generation guard, requested-k, scope in the key, reverse invalidation by document, boundary invalidation with the exact decision `mustDrop` as specification); float decisions (similarity order, query-to-insert distances) are inputs computed by the harness in f64 independently of the engine's kernels; tie: qcache correspondence incl. boundary-stress vectors (dims 8..96, difference spread over prefix/tail, 2e-4..0.3 inside/outside the boundary)",
    "Lemmas/PrefixBound.lean (Mathlib, reals): the pre-filter's upper bounds dominate the exact quantities for every dimension and prefix length",
    "engine level: oracle only (the tiered model abstains on cached searches): every CacheHit of the real engine is matched to the stored result it is a prefix of and judged against the write log since",
    "not modelled: float rounding inside the pre-filter (exercised near the boundary, 256-ulp band reported as ambiguous), the 64-bit hash of the quantised query (treated as injective), thread interleavings beyond one writer against one searcher at lock granularity (the generation guard is proved on the sequential model; the engine's write-then-invalidate order is explored, see coverage.concurrent)",
]
KINDS = {"c07-foreign-scope", "c07-wider-k", "c07-unexplained-hit", "c07-deleted-served", "c07-pre-overwrite-distance",
         "c07-omits-closer-write", "c07-omits-closer-write-band", "c07-stale-entry-kept", "panic", "harness"}


# ---------------------------------------------------------------------------------------------
# one searching thread against one writing thread (controlled scheduler, real engine)

WRITERS = ["ins:5:0",        # a new document that becomes the nearest
           "ins:1:9",        # overwrite: document 1 moves away (cached distance / rank is pre-overwrite)
           "ins:2:0",        # overwrite: document 2 moves next to the query
           "del:1", "bd:1,2", "um:1:7", "bl:5:0", "ins:5:0;del:5", "del:1;ins:1:0"]


def conc_programs(thorough):
    mx = 3000 if thorough else 400
    lines = []
    for w in WRITERS:
        for srch in (["kn:1", "kn:1;kn:1"] if thorough else ["kn:1"]):
            lines.append("explore t0=%s t1=%s post=kn:1;kf:1 mode=dfs bound=%d max=%d persist=0 snap=0 rot=0" % (w, srch, 3 if thorough else 2, mx))
    if thorough:
        for w in WRITERS[:4]:
            lines.append("explore t0=%s t1=kn:1 t2=kn:1 post=kn:1;kf:1 mode=random seed=7 max=600 persist=0 snap=0 rot=0" % w)
    return lines


def conc_check(lines, rep):
    """after every schedule of (writer || searcher) a sequential observer repeats the cacheable search and runs the same
    query past the cache: the two answers must be the same ids in the same order"""
    import concurrent.futures
    chunks = [lines[i::8] for i in range(8)]
    results = []
    with concurrent.futures.ThreadPoolExecutor(max_workers=8) as ex:
        for part in ex.map(lambda ch: conc.explore(ch) if ch else [], chunks):
            results += part
    runs = hist = 0
    bad = []
    for line, r in results:
        if r is None:
            rep.violation(rep.write_replay("harness_died.ops", "# engine=conc\n%s\n" % line), no_input=True)
            continue
        runs += r["runs"]
        for h in r["histories"]:
            hist += 1
            m = re.search(r";post;kn:\d+=>([^!]*)!kf:\d+=>(.*)$", h["final"])
            if h["final"] == "deadlock" or not m:
                bad.append((line, "no post-state: %s" % h["final"][:120], h)); continue
            if m.group(1) != m.group(2):
                txt = "; ".join("T%d %s=>%s [%d,%d]" % (o["t"], o["op"], o["res"], o["inv"], o["ret"]) for o in sorted(h["ops"], key=lambda o: o["inv"]))
                bad.append((line, "after every call returned, the cacheable search answers [%s] but a search past the cache answers [%s] -- %s" % (m.group(1), m.group(2), txt), h))
    if bad:
        line, txt, h = min(bad, key=lambda x: len(x[1]))
        sig = {"engine": "conc", "kind": "c07-stale-after-race"}
        kf = match_known("C07", sig)
        if kf:
            rep.known_finding(kf)
        else:
            p = rep.write_replay("c07-stale-after-race.ops", "# engine=conc\n# ORACLE FAILURE on the implementation (real engine, controlled schedule): %s\n# (%d such histories in this run)\n%s\n" % (txt, len(bad), line))
            rep.violation(p)
    return {"programs": len(lines), "executions": runs, "distinct_histories": hist, "stale_after_race": len(bad),
            "rule": "writer (insert of a nearer document / overwrite away / overwrite nearer / delete / batch delete / metadata update / bulk "
                    "load / insert+delete / delete+re-insert) against one cacheable search of a fixed query, every schedule at "
                    "lock-acquisition granularity with preemption bound 2 (3 thorough); afterwards the cacheable search must answer "
                    "exactly what the same search past the cache answers"}


def run(tier, seed, replay):
    rep = Report("C07", tier, seed)
    thorough = tier == "thorough"
    ok, info = proof_stage(rep, MODULE, thorough=thorough, also=("KyroModel.Theorems.C07Conc",))
    bok, blog, bsecs = cargo_build()
    if not bok:
        rep.violation(rep.write_replay("harness_build.log", blog[-4000:]), no_input=True)
        proof_coverage(rep, info, "lake build " + MODULE, TRUSTED)
        return rep.finish()
    stats = {"cases": 0, "ops": 0, "validated": 0, "distinct": set()}
    findings = []
    eng = None
    if replay:
        eng, ops = corr.read_replay(replay)
    rng = rng_for(seed, "C07")
    # 1. cache level: exact model, boundary stress
    qcases = [ops] if eng == "qcache" else ([] if replay else
              [qcache.gen_boundary_case(rng) for _ in range(600 if thorough else 90)] +
              [qcache.gen_case(rng, n_ops=50) for _ in range(400 if thorough else 60)])
    probes = kept_wrong = 0
    if qcases:
        qstats = {"cases": 0, "ops": 0, "validated": 0, "distinct": set()}
        findings += corr.collect("qcache", qcases, qcache.oracle, KINDS, rep, qstats)
        for k_ in ("cases", "ops", "validated"):
            stats[k_] += qstats[k_]
        stats["distinct"] |= qstats["distinct"]
        # a kept entry the exact decision drops is a stale servable entry: an oracle failure, not only a mismatch.  The exact
        # decision (`mustDrop`, evaluated by the model on distances the harness computed in f64, amb=0: not within rounding
        # distance of the boundary) is the specification C07_kept_entry_is_unaffected is about.
        for f in [x for x in findings if x["kind"] == "mismatch" and x["engine"] == "qcache"]:
            c, j = f["case"], f["idx"]
            a, im, mo = c["ann"][j], c["impl"][j], c["model"][j]
            mm = re.fullmatch(r"(\d+) amb=0", mo)
            if a.startswith("inv_insert") and mm and im.isdigit() and int(im) < int(mm.group(1)):
                findings.append({"kind": "oracle", "engine": "qcache", "case": c, "idx": j,
                                 "msg": "`invalidate_for_insert` removed %s cached entr%s where the exact boundary decision removes %s: an entry whose "
                                        "result omits a vector strictly inside its boundary stays servable (%s)" % (
                                            im, "y" if im == "1" else "ies", mm.group(1), a[:200]),
                                 "sig": {"engine": "qcache", "kind": "c07-stale-entry-kept"}, "pred": None})
                break
    # 2. engine level
    tcases = [ops] if eng == "tiered" else ([] if replay else [])
    corpus_conc = []
    if not replay:
        d = os.path.join(CORPUS, "C07")
        for p in sorted(os.listdir(d)) if os.path.isdir(d) else []:
            e2, o2 = corr.read_replay(os.path.join(d, p))
            if e2 == "conc":
                corpus_conc += [l for l in o2 if l.startswith(("explore ", "replay "))]
                continue
            (tcases if e2 == "tiered" else qcases).append(o2)
        tcases += [tiered.gen_qcache_case(rng, n_ops=(110 if thorough else 70)) for _ in range(1200 if thorough else 150)]
    hits = searches = 0
    if tcases:
        tstats = {"cases": 0, "ops": 0, "validated": 0, "distinct": set()}
        findings += corr.collect("tiered", tcases, tiered.oracle, KINDS, rep, tstats)
        for k_ in ("cases", "ops", "validated"):
            stats[k_] += tstats[k_]
        stats["distinct"] |= tstats["distinct"]
    ccov = {}
    if eng == "conc":
        ccov = conc_check([l for l in ops if l.startswith(("explore ", "replay "))], rep)
    elif not replay:
        ccov = conc_check(corpus_conc + conc_programs(thorough), rep)
    verdict.settle(rep, ok, info, findings, MODULE)
    proof_coverage(rep, info, "cd lean && lake build %s && lake env lean <#print axioms audit>" % MODULE, TRUSTED)
    rep.coverage.update({
        "concurrent": ccov,
        "traces_validated_against_impl": stats["validated"],
        "disagreements_checked": stats["cases"],
        "evaluations": stats["ops"],
        "distinct_nontrivial": len(stats["distinct"]),
        "rule": "cache level: one cached query with a full result list and vectors inserted 2e-4..30% inside/outside its boundary, "
                "difference spread over the first 32 coordinates and the tail (dims 8,32,33,40,64,96; l2/cos/ip; in-band norms), plus "
                "random store/get/invalidate histories over scopes, k values and generations; engine level: pools of 2-5 queries "
                "searched repeatedly through the cacheable path in two scopes with writes/overwrites/deletes/bulk loads/metadata "
                "updates/drains of documents near those queries in between (unit, in-band and far-from-unit vectors)",
        "cache_level_cases": len(qcases), "engine_level_cases": len(tcases),
        "ops_executed": stats["ops"],
        "harness_build_s": round(bsecs, 1),
    })
    rep.assumptions = ["the store-after-invalidate guarantee is proved on the sequential model (a store carrying generation g is refused "
                       "once any invalidation ran after g was read); the atomicity of the generation check with the map update "
                       "relies on the implementation's write lock; the ORDER write-then-invalidate inside the engine's write paths is explored "
                       "by the scheduler stage (coverage.concurrent) with one searcher against one writer",
                       "the 64-bit hash of the quantised query is treated as injective"]
    return rep.finish()
