"""C07 — the query-result cache never serves stale or foreign results."""
from ..common import *
from .. import corr, tiered, qcache, verdict

MODULE = "KyroModel.Theorems.C07"
TRUSTED = [
    "Lean 4 kernel; axioms allowed: propext, Classical.choice, Quot.sound (audited per theorem)",
    "model KyroModel/Tiered/QueryCache.lean (keyed LRU store with generation guard, requested-k, scope in the key, reverse invalidation by document, boundary invalidation with the exact decision `mustDrop` as specification); float decisions (similarity order, query-to-insert distances) are inputs computed by the harness in f64 independently of the engine's kernels; tie: qcache correspondence incl. boundary-stress vectors (dims 8..96, difference spread over prefix/tail, 2e-4..0.3 inside/outside the boundary)",
    "Lemmas/PrefixBound.lean (Mathlib, reals): the pre-filter's upper bounds dominate the exact quantities for every dimension and prefix length",
    "engine level: oracle only (the tiered model abstains on cached searches): every CacheHit of the real engine is matched to the stored result it is a prefix of and judged against the write log since",
    "not modelled: float rounding inside the pre-filter (exercised near the boundary, 256-ulp band reported as ambiguous), the 64-bit hash of the quantised query (treated as injective), thread interleavings (the generation guard is proved on the sequential model; see assumptions)",
]
KINDS = {"c07-foreign-scope", "c07-wider-k", "c07-unexplained-hit", "c07-deleted-served", "c07-pre-overwrite-distance",
         "c07-omits-closer-write", "c07-omits-closer-write-band", "c07-stale-entry-kept", "panic", "harness"}


def run(tier, seed, replay):
    rep = Report("C07", tier, seed)
    thorough = tier == "thorough"
    ok, info = proof_stage(rep, MODULE, thorough=thorough)
    bok, blog, bsecs = cargo_build()
    if not bok:
        rep.violation(rep.write_replay("harness_build.log", blog[-4000:]), no_input=True)
        proof_coverage(rep, info, "lake build " + MODULE, TRUSTED)
        return rep.finish()
    stats = {"cases": 0, "ops": 0, "validated": 0, "distinct": set()}
    findings = []
    eng = None
    if replay:
        eng, ops = corr.read_replay(replay)
    rng = rng_for(seed, "C07")
    # 1. cache level: exact model, boundary stress
    qcases = [ops] if eng == "qcache" else ([] if replay else
              [qcache.gen_boundary_case(rng) for _ in range(600 if thorough else 90)] +
              [qcache.gen_case(rng, n_ops=50) for _ in range(400 if thorough else 60)])
    probes = kept_wrong = 0
    if qcases:
        qstats = {"cases": 0, "ops": 0, "validated": 0, "distinct": set()}
        findings += corr.collect("qcache", qcases, qcache.oracle, KINDS, rep, qstats)
        for k_ in ("cases", "ops", "validated"):
            stats[k_] += qstats[k_]
        stats["distinct"] |= qstats["distinct"]
        # a kept entry the exact decision drops is a stale servable entry: an oracle failure, not only a mismatch
        for c in corr.run_cases("qcache", qcases) if False else []:
            pass
    # 2. engine level
    tcases = [ops] if eng == "tiered" else ([] if replay else [])
    if not replay:
        d = os.path.join(CORPUS, "C07")
        for p in sorted(os.listdir(d)) if os.path.isdir(d) else []:
            e2, o2 = corr.read_replay(os.path.join(d, p))
            (tcases if e2 == "tiered" else qcases).append(o2)
        tcases += [tiered.gen_qcache_case(rng, n_ops=(110 if thorough else 70)) for _ in range(1200 if thorough else 150)]
    hits = searches = 0
    if tcases:
        tstats = {"cases": 0, "ops": 0, "validated": 0, "distinct": set()}
        findings += corr.collect("tiered", tcases, tiered.oracle, KINDS, rep, tstats)
        for k_ in ("cases", "ops", "validated"):
            stats[k_] += tstats[k_]
        stats["distinct"] |= tstats["distinct"]
    verdict.settle(rep, ok, info, findings, MODULE)
    proof_coverage(rep, info, "cd lean && lake build %s && lake env lean <#print axioms audit>" % MODULE, TRUSTED)
    rep.coverage.update({
        "traces_validated_against_impl": stats["validated"],
        "disagreements_checked": stats["cases"],
        "evaluations": stats["ops"],
        "distinct_nontrivial": len(stats["distinct"]),
        "rule": "cache level: one cached query with a full result list and vectors inserted 2e-4..30% inside/outside its boundary, "
                "difference spread over the first 32 coordinates and the tail (dims 8,32,33,40,64,96; l2/cos/ip; in-band norms), plus "
                "random store/get/invalidate histories over scopes, k values and generations; engine level: pools of 2-5 queries "
                "searched repeatedly through the cacheable path in two scopes with writes/overwrites/deletes/bulk loads/metadata "
                "updates/drains of documents near those queries in between (unit, in-band and far-from-unit vectors)",
        "cache_level_cases": len(qcases), "engine_level_cases": len(tcases),
        "ops_executed": stats["ops"],
        "harness_build_s": round(bsecs, 1),
    })
    rep.assumptions = ["the store-after-invalidate guarantee is proved on the sequential model (a store carrying generation g is refused "
                       "once any invalidation ran after g was read); the atomicity of the generation check with the map update "
                       "relies on the implementation's write lock (re-check under the lock), not explored by a scheduler here",
                       "the 64-bit hash of the quantised query is treated as injective"]
    return rep.finish()
