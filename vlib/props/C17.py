"""C17 — unchecked memory access in the SIMD kernels and packed graph storage stays in bounds."""
from ..common import *
from .. import common

MODULE = "KyroModel.Theorems.C17"
GENERATED = ["KyroModel.Simd.Generated"]
TRUSTED = [
    "Lean 4 kernel; axioms allowed: propext, Classical.choice, Quot.sound (audited per theorem)",
    "translators/xlate_simd.py: regex extraction of loop ranges, `let` offsets and raw-pointer loads from every `unsafe fn` of simd.rs; the table intrinsic -> lanes read (_mm_loadu_ps 4, _mm256_loadu_ps 8, _mm512_loadu_ps 16, vld1q_f32 4); fails closed (untranslatable access -> translatorProblems, and the number of obligations must equal the number of `.as_ptr().add(` sites); usize overflow of `i * 32` etc. not modelled (slice lengths are < 2^59)",
    "translators/xlate_packed.py: extraction of PackedLevel0/visited-bitset index arithmetic; saturating_* translated as exact arithmetic",
    "fenced run (harness/src/mem.rs): in-binary allocator that ends every heap block at a PROT_NONE page; an over-read inside a Vec's spare capacity is not detected; validates the translator's reading of the kernels on lengths 0..N and drives the real HNSW index",
    "Miri (thorough tier, corpus/C17/*_miri.rs through harness_miri/): an interpreter run on a few scenarios - a search aid for the pointer-arithmetic lint, not a proof",
    "not modelled (partial): that every dense id reaching an `_unchecked` accessor is < node count (graph-closure invariant of HNSW construction) — linted syntactically for neighbour ids, exercised by the fenced run; NEON kernels are translated and proved but cannot execute on this x86-64 host",
]


def run_translators():
    outs = []
    ok = True
    for t in ("xlate_simd.py", "xlate_packed.py"):
        rc, out, err = common.run(["python3", os.path.join(ROOT, "translators", t)], cwd=ROOT)
        outs.append((out + err).strip())
        ok = ok and rc == 0 and "PROBLEM" not in out
    return ok, outs


def op_lines(thorough, kernels):
    lens = list(range(0, 131)) + ([131 + 7 * i for i in range(40)] + [383, 384, 385, 767, 768, 769, 1535, 1536, 1537, 4096, 4099] if thorough else [255, 256, 257, 384, 768, 1536])
    lines = []
    for k in kernels:
        for n in lens:
            lines.append("kern %s %d" % (k, n))
    dims = [1, 2, 3, 5, 7, 8, 13, 16, 17, 31, 33, 64, 65] + ([4, 9, 15, 23, 47, 63, 100, 127, 129, 384] if thorough else [])
    for metric in ("cos", "l2", "ip"):
        for d in dims:
            for (n, k, ef) in ([(0, 3, 8), (1, 1, 1), (37, 5, 24)] + ([(150, 10, 64), (400, 20, 200)] if thorough else [(90, 10, 48)] if d in (7, 13, 33) else [])):
                lines.append("hnsw %s %d %d %d %d %d" % (metric, d, n, k, ef, d * 7 + n))
    # forced graph degree M: the packed level-0 record is 1 + max(2M, 8) + dimension words rounded up to the record
    # alignment; M with (cap + 1 + dimension) already aligned leaves NO padding behind the last record
    ms = [4, 7, 8, 15, 16, 23, 31, 32, 47, 63, 64] + ([5, 6, 12, 24, 39, 48, 55] if thorough else [])
    for m in ms:
        for d in ([1, 2, 3, 14, 15] if thorough else [1, 2, 15]):
            for (n, k, ef) in [(130, 10, 10000)] + ([(400, 10, 64)] if thorough else []):
                lines.append("hnsw l2 %d %d %d %d %d %d" % (d, n, k, ef, d * 7 + n + m, m))
    return lines


def miri_stage(rep):
    """thorough tier: every corpus/C17/*_miri.rs is copied into harness_miri/tests/ and run under `cargo +nightly miri test`
    against the CURRENT /repo/engine (pointer-arithmetic and aliasing rules the fenced native run cannot see)."""
    import glob, shutil
    hm = os.path.join(ROOT, "harness_miri")
    tests = os.path.join(hm, "tests")
    shutil.rmtree(tests, ignore_errors=True)
    os.makedirs(tests)
    names = []
    for f in sorted(glob.glob(os.path.join(CORPUS, "C17", "*_miri.rs"))):
        shutil.copy(f, tests); names.append(os.path.basename(f))
    try:
        shutil.copy("/repo/Cargo.lock", os.path.join(hm, "Cargo.lock"))
    except OSError:
        pass
    t0 = time.time()
    try:
        rc, out, err = common.run(["cargo", "+nightly", "miri", "test", "--offline"], cwd=hm, timeout=5400,
                                  env=dict(ENV, RUSTFLAGS="-C debug-assertions=off", MIRIFLAGS="-Zmiri-disable-isolation", CARGO_NET_OFFLINE="true"))
    except subprocess.TimeoutExpired:
        return {"scenarios": names, "outcome": "timeout (not counted)", "wall_s": round(time.time() - t0)}
    log = out + err
    ub = "Undefined Behavior" in log
    if ub:
        m = re.search(r"error: Undefined Behavior:[^\n]*", log)
        p = rep.write_replay("miri_undefined_behaviour.log",
                             "# engine=miri (cd harness_miri && RUSTFLAGS='-C debug-assertions=off' cargo +nightly miri test --offline; scenarios: %s)\n"
                             "# ORACLE FAILURE on the implementation: %s\n%s\n" % (", ".join(names), m.group(0) if m else "Undefined Behavior", log[-6000:]))
        rep.violation(p)
    return {"scenarios": names, "outcome": "undefined behaviour" if ub else ("ok" if rc == 0 else "did not run (rc=%d): %s" % (rc, log[-300:])),
            "wall_s": round(time.time() - t0)}


def run(tier, seed, replay):
    rep = Report("C17", tier, seed, level="proof")
    thorough = tier == "thorough"
    tok, touts = run_translators()
    ok, info = proof_stage(rep, MODULE, extra_targets=(), thorough=thorough, also=GENERATED)
    info["translator"] = touts
    ok = ok and tok
    bok, blog, bsecs = cargo_build()
    if not bok:
        rep.violation(rep.write_replay("harness_build.log", blog[-4000:]), no_input=True)
        proof_coverage(rep, info, "lake build " + MODULE, TRUSTED)
        return rep.finish()
    _, res, _, _ = run_harness("mem", ["kernels"])
    kernels = [x.split(":")[0] for x in (res[0].split(" ") if res else [])]
    isas = sorted({x.split(":")[1] for x in (res[0].split(" ") if res else [])})
    if replay:
        lines = [l for l in open(replay).read().split("\n") if l.startswith(("kern ", "hnsw "))]
    else:
        lines = op_lines(thorough, kernels)
    bad = []
    done = 0
    stats = {"kern": 0, "hnsw": 0, "unsupported": 0}
    i = 0
    while i < len(lines):
        part = lines[i:i + 400]
        ann, out, err, rc = run_harness("mem", part, timeout=3600)
        for j, l in enumerate(part):
            r = out[j] if j < len(out) else "<process died rc=%s>" % rc
            if r == "unsupported-isa":
                stats["unsupported"] += 1
            elif r == "ok" or r.startswith("ok "):
                stats[l.split(" ")[0]] += 1
            else:
                bad.append((l, r))
            done += 1
            if j >= len(out) or r == "SEGV":
                break
        if len(out) < len(part) or (out and out[-1] == "SEGV"):
            # the process ended at op len(out)-1 (or before answering op len(out)); resume after it
            i += max(len(out), 1) if (out and out[-1] == "SEGV") else len(out) + 1
        else:
            i += len(part)
        if len(bad) >= 5:
            break
    if bad:
        l, r = bad[0]
        p = rep.write_replay("out_of_bounds.ops",
                             "# engine=mem\n# ORACLE FAILURE on the implementation: with every heap block ending at a guard page this op\n"
                             "# %s\n%s\n# -> %s\n# further failing ops in this run: %s\n" % (
                                 "faults (read outside the buffer)" if "SEGV" in r or "died" in r else "fails",
                                 l, r, "; ".join("%s -> %s" % b for b in bad[1:5])))
        if not match_known("C17", {"engine": "mem", "op": l.split(" ")[0]}):
            rep.violation(p)
    elif not ok:
        p = rep.write_replay("proof_obligation.json", {
            "broken": "the bounds obligations regenerated from simd.rs / ann_backend.rs (or the C17 layout theorems over them) no longer check",
            "details": {k: info.get(k) for k in ("errors", "errors_detail", "source_scan_hits", "axioms", "translator")},
            "search": "fenced run of every kernel wrapper on %d lengths and %d HNSW build/search scenarios: no fault" % (stats["kern"], stats["hnsw"])})
        rep.violation(p, no_input=True)
    miri = miri_stage(rep) if thorough and not replay else {"skipped": "thorough tier only"}
    proof_coverage(rep, info, "python3 translators/xlate_simd.py && python3 translators/xlate_packed.py && cd lean && lake build %s && <#print axioms audit>" % MODULE, TRUSTED)
    rep.coverage.update({
        "programs": len(kernels),
        "traces_validated_against_impl": stats["kern"] + stats["hnsw"],
        "disagreements_checked": done,
        "evaluations": done,
        "distinct_nontrivial": len(set(lines)),
        "rule": "kern: each discovered `*_entry` kernel wrapper (ISAs %s) on two exact-size slices ending at a guard page, "
                "every length 0..130 plus larger ones; hnsw: HnswVectorIndex built and searched through the public API for "
                "dimensions that are and are not multiples of 4/8/16 under the three metrics, with wrong-dimension inserts and "
                "queries that must be refused, plus forced graph degrees M 4..64 (incl. the M whose packed record has no padding) at "
                "dimension 1, 2, 15 with wide beams; the harness is built with debug assertions, so every `get_unchecked` outside its "
                "slice aborts (std's unsafe-precondition checks) even when the word read is still inside the allocation; any "
                "SIGSEGV/SIGBUS/abort/panic is a failure" % ",".join(isas),
        "kernel_wrappers": kernels,
        "ops": stats,
        "translator_output": touts,
        "miri": miri,
        "samples": lines[:2] + lines[-2:],
        "exhaustive": False,
        "harness_build_s": round(bsecs, 1),
    })
    rep.assumptions = ["slice lengths fit in usize arithmetic without overflow", "x86-64 host: NEON kernels proved, not executed"]
    return rep.finish()
