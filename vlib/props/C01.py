"""C01 — acknowledged writes survive a crash at any instant and restart always succeeds."""
from ..common import *
from .. import persist
from .persist_common import run_persist_property

MODULE = "KyroModel.Theorems.C01"
ALSO = ("KyroModel.Theorems.C01Periodic",)
TRUSTED = [
    "Lean 4 kernel; axioms allowed: propext, Classical.choice, Quot.sound (audited per theorem)",
    "model KyroModel/Persist/{Model,Ops}.lean at the granularity of logical actions; tie: for every effect boundary of every op the real strict recover on the materialised directory is compared with the model's recovery of the corresponding action prefix",
    "FS shim + crash-state materialiser (kill model: every completed effect persists; torn prefixes of frame writes)",
    "not proved: that a torn frame is ignored / publication is atomic at byte level (validated by the enumeration); the power-loss model is reduced to the kill model by ENUMERATION (every power-loss directory of every instant is recovered by the real code), not by a theorem",
]


def gen(thorough, seed):
    rng = rng_for(seed, "C01/persist")
    n = 500 if thorough else 60
    cases = [persist.gen_case(rng, n_ops=35 if thorough else 18, crash=True, torn=(i % 2 == 0)) for i in range(n)]
    # second failure model (power loss, fsync-every-write): at every effect boundary also every directory a power failure
    # may leave - per file only the bytes of its last fsync or everything, a prefix of the un-synced directory changes
    for i, c in enumerate(cases):
        if i % 3 == 0 and " fsync=always" in c[0]:
            c[0] += " ploss=1"
    return cases


# ---------------------------------------------------------------------------------------------
# periodic-fsync clause: an operation acknowledged more than one flush interval before a power failure survives it

def periodic_case(rng, calls):
    iv = rng.choice([50, 100])
    rot = rng.choice([0, 0, 1, 150])                        # log rotation: off / after every write / every few writes
    ops = ["cfg interval=%d" % iv + (" rot=%d" % rot if rot else "")]
    now = 0
    next_tick = iv
    for _ in range(rng.randint(6, 14)):
        k = rng.choice(["ins", "ins", "ins", "del", "advance", "advance", "ploss", "restart"])
        if k == "restart":
            ops.append("restart")
            continue
        if k == "ins":
            ops.append("ins id=%d x=%d" % (rng.randint(1, 4), rng.randint(1, 9)))
        elif k == "del":
            ops.append("del id=%d" % rng.randint(1, 4))
        elif k == "advance":
            target = now + rng.choice([1, iv // 2, iv, iv + 1, 2 * iv + 3, 5 * iv])
            while next_tick <= target:                      # the server's timer fires at every multiple of the interval
                ops.append("advance ms=%d" % (next_tick - now)); now = next_tick
                ops.append("timer calls=%s" % calls)
                next_tick += iv
            if target > now:
                ops.append("advance ms=%d" % (target - now)); now = target
        else:
            ops.append("ploss")
    ops.append("advance ms=%d" % (next_tick - now)); now = next_tick
    ops.append("timer calls=%s" % calls)
    ops.append("advance ms=%d" % (iv + 1))
    ops.append("ploss")
    return ops


def periodic_oracle(case):
    raw, impl = case["raw"], case["impl"]
    iv = int(re.search(r"interval=(\d+)", raw[0]).group(1))
    acked = []                                                # (ack time, op)
    fails = []
    for i, (l, r) in enumerate(zip(raw, impl)):
        if r.startswith("unknown-timer-call") or r.startswith(("bad-op", "<")):
            fails.append(("harness", i, "%s -> %s" % (l, r))); break
        if l == "restart" and not r.startswith("ok"):
            fails.append(("c01-periodic-restart", i, "a clean restart under the periodic policy fails: %s" % r)); break
        m = re.match(r"ok t=(\d+)", r)
        if m and l.startswith(("ins ", "del ")):
            acked.append((int(m.group(1)), l))
        if l == "ploss":
            now = int(re.search(r"now=(\d+)", r).group(1))
            states = r.split("states=", 1)[1].split("#")
            # states allowed: the fold of a prefix of the acknowledged operations that contains at least every operation
            # acknowledged more than one interval before `now`
            jmin = sum(1 for t, _ in acked if now - t > iv)
            allowed = set()
            for j in range(jmin, len(acked) + 1):
                cur = {}
                for _, o in acked[:j]:
                    f = dict(p.split("=") for p in o.split(" ")[1:])
                    if o.startswith("ins"):
                        cur[int(f["id"])] = int(f["x"])
                    else:
                        cur.pop(int(f["id"]), None)
                allowed.add("[" + ",".join("%d:%d" % kv for kv in sorted(cur.items())) + "]")
            for st in states:
                if st not in allowed:
                    lost = [o for t, o in acked[:jmin]]
                    fails.append(("c01-periodic-loss", i, "power loss at t=%d ms (flush interval %d ms) may leave %s; %d operation(s) were acknowledged more than one "
                                  "interval earlier (last: `%s` at t=%d) - allowed: %s" % (now, iv, st, jmin, lost[-1] if lost else "-", acked[jmin - 1][0] if jmin else 0, sorted(allowed))))
                    return fails
    return fails


def periodic_mismatch(cd):
    """model (Persist/Periodic.lean through the driver) vs implementation on one history: acknowledgement lines must be equal;
    at a power-loss point every outcome the real code can recover to must be an outcome of the model, and the model's
    smallest outcome (synced frames only) must be among the real ones.  Returns None when the model abstains (byte-threshold
    rotation, snapshots), (idx, msg) for the first difference, (0, None) when they agree."""
    if cd["model"] and cd["model"][0].startswith("unmodelled"):
        return None
    for i, (l, r, m) in enumerate(zip(cd["raw"], cd["impl"], cd["model"])):
        if l.startswith("timer"):
            if r.split(" ")[0] != m.split(" ")[0]:
                return (i, "`%s`: implementation `%s`, model `%s`" % (l, r, m))
        elif l == "ploss":
            if "states=" not in r or "states=" not in m:
                return (i, "`ploss`: implementation `%s`, model `%s`" % (r, m))
            rs, ms = r.split("states=", 1)[1].split("#"), m.split("states=", 1)[1].split("#")
            extra = [x for x in rs if x not in ms]
            if extra:
                return (i, "power loss: the implementation can be left with %s, which the model does not admit (model: %s)" % (extra, ms))
            if ms[0] not in rs:
                return (i, "power loss: the model's synced-only outcome %s is not among the implementation's %s (the code syncs more than the model says)" % (ms[0], rs))
        elif r != m:
            return (i, "`%s`: implementation `%s`, model `%s`" % (l, r, m))
    return (0, None)


def periodic_extra(rep, thorough, seed, only=None):
    from .. import corr
    rc, out, err = common_run(["python3", os.path.join(ROOT, "translators", "xlate_timer.py")])
    m = re.search(r"calls=(\S+)", out)
    if rc != 0 or not m:
        p = rep.write_replay("periodic_translator.txt", "the periodic task of kyrodb_server.rs could not be translated: %s %s\n" % (out, err))
        rep.violation(p, no_input=True)
        return [], {"periodic": {"translator": (out + err).strip()}}
    calls = m.group(1)
    rng = rng_for(seed, "C01/periodic")
    cases = []
    d = os.path.join(CORPUS, "C01")
    for f in sorted(os.listdir(d)) if os.path.isdir(d) else []:
        if f.endswith(".periodic"):
            ops = corr.read_replay(os.path.join(d, f))[1]
            cases.append([re.sub(r"calls=\S+", "calls=" + calls, l) for l in ops])      # the calls are the CURRENT source's
    cases += [periodic_case(rng, calls) for _ in range(300 if thorough else 40)]
    if only is not None:
        cases = [[re.sub(r"calls=\S+", "calls=" + calls, l) for l in only]]
    findings, nstates, checks = [], 0, 0
    flat = [l for c in cases for l in c]
    ann, res, herr, hrc = run_harness("periodic", flat, timeout=1800)
    mres, merr, mrc = run_driver("periodic", flat, timeout=600)
    k = 0
    compared = mism = 0
    for c in cases:
        r = res[k:k + len(c)]; mr = mres[k:k + len(c)]; k += len(c)
        cd = {"raw": c, "ann": c, "impl": r + ["<missing>"] * (len(c) - len(r)), "model": mr + ["<missing>"] * (len(c) - len(mr)), "engine": "periodic"}
        d = periodic_mismatch(cd)
        if d is not None:
            compared += d[0] >= 0
            if d[0] >= 0 and d[1]:
                mism += 1
                findings.append({"kind": "mismatch", "engine": "periodic", "case": cd, "idx": d[0], "msg": d[1],
                                 "sig": {"engine": "periodic", "kind": "mismatch"}, "pred": None})
        for l, x in zip(c, cd["impl"]):
            if l == "ploss" and "states=" in x:
                checks += 1; nstates += len(x.split("states=", 1)[1].split("#"))
        for kind, idx, msg in periodic_oracle(cd):
            findings.append({"kind": "oracle", "engine": "periodic", "case": cd, "idx": idx, "msg": msg,
                             "sig": {"engine": "periodic", "kind": kind}, "pred": None})
    return findings, {"periodic": {"timer_calls_extracted_from_source": calls, "histories": len(cases), "power_loss_checks": checks,
                                   "histories_compared_with_model": compared, "model_disagreements": mism,
                                   "distinct_outcomes_seen": nstates,
                                   "rule": "TieredEngine with persistence under FsyncPolicy::Periodic(50|100 ms), log rotation off / after every write / every few "
                                           "writes, clean restarts (shutdown flush, drop, strict TieredEngine::recover) and a virtual monotonic clock; the server's "
                                           "periodic task body (calls extracted from kyrodb_server.rs on every run) replayed at every multiple of the interval; "
                                           "at random instants every directory a power failure may leave is recovered strictly: it must be the fold of a prefix "
                                           "of the acknowledged operations containing all those acknowledged more than one interval earlier"}}


def common_run(cmd):
    from ..common import run as _run
    return _run(cmd, cwd=ROOT)


def run(tier, seed, replay):
    if replay:
        from .. import corr, verdict
        eng, ops = corr.read_replay(replay)
        if eng == "periodic" or replay.endswith(".periodic"):
            rep = Report("C01", tier, seed)
            ok, info = proof_stage(rep, MODULE, thorough=False, also=ALSO)
            bok, blog, bsecs = cargo_build()
            if not bok:
                rep.violation(rep.write_replay("harness_build.log", blog[-4000:]), no_input=True)
                return rep.finish()
            findings, cov = periodic_extra(rep, False, seed, only=ops)
            verdict.settle(rep, ok, info, findings, MODULE)
            proof_coverage(rep, info, "lake build " + MODULE, TRUSTED)
            rep.coverage.update(cov)
            rep.coverage.update({"traces_validated_against_impl": 1, "disagreements_checked": 1, "evaluations": len(ops), "distinct_nontrivial": 1})
            return rep.finish()
    return run_persist_property(
        "C01", MODULE, TRUSTED, tier, seed, replay, gen,
        {"c01", "c01-restart-fails", "c01-batch-partial", "c01-power-loss", "c03", "c03-index-reject", "panic"},
        "seeded random histories as for C02, with EXHAUSTIVE kill-point enumeration per history: the data directory is "
        "materialised at every file-system effect boundary of every operation (writes, fsyncs, renames, unlinks, truncates; "
        "snapshot, rotation, compaction and start-up included) and at torn prefixes (1,3,4,5,len-1 bytes) of every frame "
        "write; the real strict recover runs on each; outcome must be acked or acked+in-flight; evaluations = kill points. In a "
        "third of the histories the POWER-LOSS model runs at the same instants (fsync-every-write): per file the content of its "
        "last fsync/fdatasync or everything written, and every prefix of the directory changes (create/rename/unlink) made since "
        "the last directory fsync; each distinct directory is recovered by the real code and must also be acked or acked+in-flight, "
        "and its referenced view (MANIFEST + listed segments + pointed snapshot) must be the view of an action prefix of the model "
        "(hypothesis SameReferenced of theorem C01_power_loss_point)",
        ["power loss: whole-file granularity for un-synced bytes (synced-only or all), suffixes of un-synced directory changes",
         "periodic-fsync clause: theorems in Theorems/C01Periodic.lean over Persist/Periodic.lean, tied by coverage.periodic "
         "(byte-threshold rotation and snapshots under the periodic policy: oracle only, not modelled)"], extra=periodic_extra, also=ALSO)
