"""C01 — acknowledged writes survive a crash at any instant and restart always succeeds."""
from ..common import *
from .. import persist
from .persist_common import run_persist_property

MODULE = "KyroModel.Theorems.C01"
TRUSTED = [
    "Lean 4 kernel; axioms allowed: propext, Classical.choice, Quot.sound (audited per theorem)",
    "model KyroModel/Persist/{Model,Ops}.lean at the granularity of logical actions; tie: for every effect boundary of every op the real strict recover on the materialised directory is compared with the model's recovery of the corresponding action prefix",
    "FS shim + crash-state materialiser (kill model: every completed effect persists; torn prefixes of frame writes)",
    "not proved: that a torn frame is ignored / publication is atomic at byte level (validated by the enumeration); power loss and periodic fsync (see DESIGN.md)",
]


def gen(thorough, seed):
    rng = rng_for(seed, "C01/persist")
    n = 500 if thorough else 60
    return [persist.gen_case(rng, n_ops=35 if thorough else 18, crash=True, torn=(i % 2 == 0)) for i in range(n)]


def run(tier, seed, replay):
    return run_persist_property(
        "C01", MODULE, TRUSTED, tier, seed, replay, gen,
        {"c01", "c01-restart-fails", "c01-batch-partial", "c03", "c03-index-reject", "panic"},
        "seeded random histories as for C02, with EXHAUSTIVE kill-point enumeration per history: the data directory is "
        "materialised at every file-system effect boundary of every operation (writes, fsyncs, renames, unlinks, truncates; "
        "snapshot, rotation, compaction and start-up included) and at torn prefixes (1,3,4,5,len-1 bytes) of every frame "
        "write; the real strict recover runs on each; outcome must be acked or acked+in-flight; evaluations = kill points",
        ["process-kill failure model", "power-loss / periodic fsync not covered by this run"])
