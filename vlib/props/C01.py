"""C01 — acknowledged writes survive a crash at any instant and restart always succeeds."""
from ..common import *
from .. import persist
from .persist_common import run_persist_property

MODULE = "KyroModel.Theorems.C01"
TRUSTED = [
    "Lean 4 kernel; axioms allowed: propext, Classical.choice, Quot.sound (audited per theorem)",
    "model KyroModel/Persist/{Model,Ops}.lean at the granularity of logical actions; tie: for every effect boundary of every op the real strict recover on the materialised directory is compared with the model's recovery of the corresponding action prefix",
    "FS shim + crash-state materialiser (kill model: every completed effect persists; torn prefixes of frame writes)",
    "not proved: that a torn frame is ignored / publication is atomic at byte level (validated by the enumeration); the power-loss model is reduced to the kill model by ENUMERATION (every power-loss directory of every instant is recovered by the real code), not by a theorem",
]


def gen(thorough, seed):
    rng = rng_for(seed, "C01/persist")
    n = 500 if thorough else 60
    cases = [persist.gen_case(rng, n_ops=35 if thorough else 18, crash=True, torn=(i % 2 == 0)) for i in range(n)]
    # second failure model (power loss, fsync-every-write): at every effect boundary also every directory a power failure
    # may leave - per file only the bytes of its last fsync or everything, a prefix of the un-synced directory changes
    for i, c in enumerate(cases):
        if i % 3 == 0 and " fsync=always" in c[0]:
            c[0] += " ploss=1"
    return cases


def run(tier, seed, replay):
    return run_persist_property(
        "C01", MODULE, TRUSTED, tier, seed, replay, gen,
        {"c01", "c01-restart-fails", "c01-batch-partial", "c01-power-loss", "c03", "c03-index-reject", "panic"},
        "seeded random histories as for C02, with EXHAUSTIVE kill-point enumeration per history: the data directory is "
        "materialised at every file-system effect boundary of every operation (writes, fsyncs, renames, unlinks, truncates; "
        "snapshot, rotation, compaction and start-up included) and at torn prefixes (1,3,4,5,len-1 bytes) of every frame "
        "write; the real strict recover runs on each; outcome must be acked or acked+in-flight; evaluations = kill points. In a "
        "third of the histories the POWER-LOSS model runs at the same instants (fsync-every-write): per file the content of its "
        "last fsync/fdatasync or everything written, and every prefix of the directory changes (create/rename/unlink) made since "
        "the last directory fsync; each distinct directory is recovered by the real code and must also be acked or acked+in-flight",
        ["power loss: whole-file granularity for un-synced bytes (synced-only or all), suffixes of un-synced directory changes",
         "periodic-fsync clause: see coverage.periodic"])
