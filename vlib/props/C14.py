"""C14 — tenant vector quotas are exact (the real kyrodb_server binary; concurrency: see conc part)."""
from ..common import *
from .. import corr, rpc, verdict, conc
from .C10 import collect, new_stats

MODULE = "KyroModel.Theorems.C14"
TRUSTED = [
    "Lean 4 kernel; axioms allowed: propext, Classical.choice, Quot.sound (audited per theorem)",
    "model KyroModel/Server/Tenant.lean (hand-written) tied to the code by driving the REAL kyrodb_server binary over gRPC",
    "the count is observed through admission only: `probe` inserts fresh ids until RESOURCE_EXHAUSTED (head-room = limit - "
    "count) and removes them again; live documents = BulkQuery census over the id universe; /usage vector_count",
    "engine-side write refusals = wrong dimension (the engine's own failure paths under I/O faults are C03's)",
]
def conc_programs(thorough, rng):
    """concurrent RPC programs against the REAL handlers (in-process copy of kyrodb_server.rs, `world=srv`): limits 2,2"""
    mx = 3000 if thorough else 350
    progs = []
    W = "warm=sins:0:1:1"             # document 1 of tenant a exists
    W2 = "warm=sins:0:1:1;sins:0:2:1"  # tenant a at its limit of 2
    pairs = [
        (W, "sins:0:1:5", "sdel:0:1"),            # overwrite || delete
        ("", "sins:0:1:5", "sdel:0:1"),           # insert || delete of the same new id
        (W, "sins:0:1:5", "sbd:0:1,1"),           # overwrite || batch delete with a duplicate
        (W, "sdel:0:1", "sdel:0:1"),              # delete || delete
        (W, "sdel:0:1", "sbd:0:1,2"),
        ("", "sins:0:1:5", "sins:0:1:6"),         # insert || insert, one id
        (W, "sins:0:2:5", "sins:0:3:6"),          # two new ids, one free slot
        (W2, "sins:0:3:5", "sdel:0:1"),           # at the limit: a new id while a slot is being freed
        (W2, "sins:0:1:5", "sdel:0:2;sins:0:3:6"),
        (W, "sins:0:1:5;sdel:0:1", "sdel:0:1;sins:0:1:6"),
        (W, "sum:0:1:7", "sdel:0:1"),
        (W, "sins:0:1:5", "sins:1:1:6;sdel:1:1"),  # another tenant on the colliding local id
    ]
    for w, a, b in pairs:
        progs.append("explore limits=2,2 %s t0=%s t1=%s mode=dfs bound=2 max=%d" % (w, a, b, mx))
    ops = ["sins:0:1:5", "sins:0:2:6", "sins:0:3:7", "sdel:0:1", "sdel:0:2", "sbd:0:1,2", "sbd:0:2,3,3", "sum:0:1:9", "sins:1:1:4", "sdel:1:1"]
    for _ in range(60 if thorough else 10):
        ts = [";".join(rng.choice(ops) for _ in range(rng.choice([1, 2]))) for _ in range(3)]
        progs.append("explore limits=2,2 %s t0=%s t1=%s t2=%s mode=random seed=%d max=%d" % (
            rng.choice([W, W2, ""]), ts[0], ts[1], ts[2], rng.randrange(10 ** 6), 500 if thorough else 70))
    return [re.sub(r"  +", " ", l) for l in progs]


def conc_check(lines, rep):
    """every final state of every explored schedule: counted = live = usage, live <= limit"""
    import concurrent.futures
    chunks = [lines[i::12] for i in range(12)]
    results = []
    with concurrent.futures.ThreadPoolExecutor(max_workers=12) as ex:
        for part in ex.map(lambda ch: conc.explore(ch) if ch else [], chunks):
            results += part
    runs = finals = 0
    bad = {}
    for line, r in results:
        if r is None:
            rep.violation(rep.write_replay("harness_died.ops", "# engine=conc\n%s\n" % line), no_input=True)
            continue
        runs += r["runs"]
        lim = [int(x) for x in re.search(r"limits=(\S+)", line).group(1).split(",")]
        for h in r["histories"]:
            finals += 1
            if h["final"] == "deadlock":
                continue
            for i, part in enumerate(h["final"].split(",")):
                m = re.fullmatch(r"(\w+):counted=(\d+):live=(\d+):usage=(\d+)", part)
                if not m:
                    continue
                counted, live, usage = int(m.group(2)), int(m.group(3)), int(m.group(4))
                hist = "; ".join("T%d %s=>%s [%d,%d]" % (o["t"], o["op"], o["res"], o["inv"], o["ret"]) for o in sorted(h["ops"], key=lambda o: o["inv"]))
                if counted != live:
                    bad.setdefault("c14-conc-count-drift", []).append((line, "tenant %s: %d counted, %d live after %s" % (m.group(1), counted, live, hist)))
                elif usage != live:
                    bad.setdefault("c14-conc-usage-drift", []).append((line, "tenant %s: /usage would report %d, %d live after %s" % (m.group(1), usage, live, hist)))
                if i < len(lim) and live > lim[i]:
                    bad.setdefault("c14-conc-over-limit", []).append((line, "tenant %s holds %d > limit %d after %s" % (m.group(1), live, lim[i], hist)))
    for kind, items in bad.items():
        line, txt = min(items, key=lambda x: len(x[1]))
        sig = {"engine": "conc", "kind": kind}
        kf = match_known("C14", sig)
        if kf:
            rep.known_finding(kf)
            continue
        p = rep.write_replay("%s.ops" % kind, "# engine=conc\n# ORACLE FAILURE on the implementation (real RPC handlers, controlled schedule): %s\n# (%d such final states in this run)\n%s\n" % (txt, len(items), line))
        rep.violation(p)
    return {"programs": len(lines), "executions": runs, "distinct_histories": finals, "drift_by_kind": {k: len(v) for k, v in bad.items()}}


KINDS = {"c14-overcount", "c14-undercount", "c14-over-limit", "c14-no-refusal", "c14-usage-count", "harness"}


def run(tier, seed, replay):
    rep = Report("C14", tier, seed)
    thorough = tier == "thorough"
    ok, info = proof_stage(rep, MODULE, thorough=thorough, also=("KyroModel.Theorems.C14Conc",))
    bok, blog, bsecs = cargo_build()
    sok, slog, ssecs = rpc.server_build() if bok else (False, "", 0)
    if not bok or not sok:
        rep.violation(rep.write_replay("build.log", (blog + slog)[-4000:]), no_input=True)
        proof_coverage(rep, info, "lake build " + MODULE, TRUSTED)
        return rep.finish()
    stats = new_stats()
    cases = []
    clines = []
    if replay:
        eng, ops = corr.read_replay(replay)
        if eng == "conc":
            clines = [l for l in ops if l.startswith(("explore ", "replay "))]
        else:
            cases.append(ops)
    else:
        d = os.path.join(CORPUS, "C14")
        for p in sorted(os.listdir(d)) if os.path.isdir(d) else []:
            eng, ops = corr.read_replay(os.path.join(d, p))
            if eng == "conc":
                clines += [l for l in ops if l.startswith(("explore ", "replay "))]
            else:
                cases.append(ops)
        clines += conc_programs(thorough, rng_for(seed, "C14/conc"))
        rng = rng_for(seed, "C14/rpc")
        for i in range(400 if thorough else 44):
            cases.append(rpc.gen_case(rng, n_ops=70 if thorough else 45, focus="c14"))
    findings = collect(cases, rpc.oracle_c14, KINDS, rep, stats)
    cstats = conc_check(clines, rep) if clines else {}
    verdict.settle(rep, ok, info, findings, MODULE)
    proof_coverage(rep, info, "cd lean && lake build %s && lake env lean <#print axioms audit>" % MODULE, TRUSTED)
    probes = stats["op_kinds"].get("probe", 0)
    rep.coverage.update({
        "traces_validated_against_impl": stats["validated"],
        "disagreements_checked": stats["cases"],
        "evaluations": probes,
        "distinct_nontrivial": len(stats["distinct"]),
        "server_processes": stats["servers"],
        "op_kinds": stats["op_kinds"],
        "answer_kinds": stats["answers"],
        "oracle_failures_by_kind": stats["oracle_kinds"],
        "rule": "random write histories of one tenant near its limit of 2-6 vectors (second tenant in the background) against "
                "the real kyrodb_server: inserts, overwrites, deletes (absent ids included), batch deletes with duplicate ids "
                "and by filter, BulkInsert / BulkLoadHnsw batches with duplicate, invalid and wrong-dimension items, batches "
                "that exceed the limit, graceful restarts at quiescent points (start-up recount), hot-tier capacity 4 or 64. "
                "After every probe: counted (limit - admitted) = live (census) = /usage vector_count",
        "concurrent": dict(cstats, rule="pairs of concurrent RPCs on one id (insert||delete, overwrite||delete, overwrite||batch delete with "
                           "duplicates, delete||delete, insert||insert, new ids racing for the last slot, metadata update||delete, another "
                           "tenant on the colliding local id) against the REAL handlers of kyrodb_server.rs (build-time copy included in the "
                           "harness), stateless DFS over schedules at lock-acquisition granularity, preemption bound 2; random schedules of "
                           "three threads. Every final state: counted = live = usage, live <= limit"),
        "exhaustive": False,
        "harness_build_s": round(bsecs, 1), "server_build_s": round(ssecs, 1),
    })
    rep.assumptions = ["interleavings at lock-acquisition granularity (atomics and lock-free sections run atomically between scheduling points)",
                       "streaming RPCs (BulkInsert / BulkLoadHnsw) are exercised sequentially only"]
    return rep.finish()
