"""C14 — tenant vector quotas are exact (the real kyrodb_server binary; concurrency: see conc part)."""
from ..common import *
from .. import corr, rpc, verdict
from .C10 import collect, new_stats

MODULE = "KyroModel.Theorems.C14"
TRUSTED = [
    "Lean 4 kernel; axioms allowed: propext, Classical.choice, Quot.sound (audited per theorem)",
    "model KyroModel/Server/Tenant.lean (hand-written) tied to the code by driving the REAL kyrodb_server binary over gRPC",
    "the count is observed through admission only: `probe` inserts fresh ids until RESOURCE_EXHAUSTED (head-room = limit - "
    "count) and removes them again; live documents = BulkQuery census over the id universe; /usage vector_count",
    "engine-side write refusals = wrong dimension (the engine's own failure paths under I/O faults are C03's)",
]
KINDS = {"c14-overcount", "c14-undercount", "c14-over-limit", "c14-no-refusal", "c14-usage-count", "harness"}


def run(tier, seed, replay):
    rep = Report("C14", tier, seed)
    thorough = tier == "thorough"
    ok, info = proof_stage(rep, MODULE, thorough=thorough)
    bok, blog, bsecs = cargo_build()
    sok, slog, ssecs = rpc.server_build() if bok else (False, "", 0)
    if not bok or not sok:
        rep.violation(rep.write_replay("build.log", (blog + slog)[-4000:]), no_input=True)
        proof_coverage(rep, info, "lake build " + MODULE, TRUSTED)
        return rep.finish()
    stats = new_stats()
    cases = []
    if replay:
        cases.append(corr.read_replay(replay)[1])
    else:
        d = os.path.join(CORPUS, "C14")
        for p in sorted(os.listdir(d)) if os.path.isdir(d) else []:
            cases.append(corr.read_replay(os.path.join(d, p))[1])
        rng = rng_for(seed, "C14/rpc")
        for i in range(400 if thorough else 44):
            cases.append(rpc.gen_case(rng, n_ops=70 if thorough else 45, focus="c14"))
    findings = collect(cases, rpc.oracle_c14, KINDS, rep, stats)
    verdict.settle(rep, ok, info, findings, MODULE)
    proof_coverage(rep, info, "cd lean && lake build %s && lake env lean <#print axioms audit>" % MODULE, TRUSTED)
    probes = stats["op_kinds"].get("probe", 0)
    rep.coverage.update({
        "traces_validated_against_impl": stats["validated"],
        "disagreements_checked": stats["cases"],
        "evaluations": probes,
        "distinct_nontrivial": len(stats["distinct"]),
        "server_processes": stats["servers"],
        "op_kinds": stats["op_kinds"],
        "answer_kinds": stats["answers"],
        "oracle_failures_by_kind": stats["oracle_kinds"],
        "rule": "random write histories of one tenant near its limit of 2-6 vectors (second tenant in the background) against "
                "the real kyrodb_server: inserts, overwrites, deletes (absent ids included), batch deletes with duplicate ids "
                "and by filter, BulkInsert / BulkLoadHnsw batches with duplicate, invalid and wrong-dimension items, batches "
                "that exceed the limit, graceful restarts at quiescent points (start-up recount), hot-tier capacity 4 or 64. "
                "After every probe: counted (limit - admitted) = live (census) = /usage vector_count",
        "exhaustive": False,
        "harness_build_s": round(bsecs, 1), "server_build_s": round(ssecs, 1),
    })
    rep.assumptions = ["sequential histories + restarts here; concurrent pairs: conc exploration (see coverage.concurrent)"]
    return rep.finish()
