"""Generator + oracle for the `ratelimit` engine (C19)."""
from .common import *
from . import corr


def strip(l):
    return re.sub(r" amb=\d", "", l)


def cmp(a, b):
    a, b = strip(a), strip(b)
    if a == b:
        return True
    # available tokens: micro-token values may differ by f64 rounding
    pa, pb = a.split(" "), b.split(" ")
    if len(pa) == len(pb) == 2 and pa[1] == pb[1] and pa[0].lstrip("-").isdigit() and pb[0].lstrip("-").isdigit():
        return abs(int(pa[0]) - int(pb[0])) <= 2
    return False


corr.COMPARERS["ratelimit"] = cmp


def gen_case(rng, n_ops=60):
    g = rng.choice(["-", "-", "3", "10", "50"])
    tick = rng.choice([0, 0, 10, 1000, 100000])
    tenants = {i: rng.choice([1, 2, 5, 20, 100]) for i in range(1, rng.choice([1, 2, 3]) + 1)}
    ops = ["cfg global=%s tick=%d" % (g, tick)]
    for _ in range(n_ops):
        k = rng.choices(["burst", "steady", "idle", "avail", "tick"], [30, 40, 10, 12, 8])[0]
        t = rng.choice(list(tenants))
        if k == "burst":
            for _ in range(rng.choice([2, 5, 12])):
                ops.append("check t=%d qps=%d" % (t, tenants[t]))
        elif k == "steady":
            ops.append("advance ns=%d" % rng.choice([1000, 1000000, 37000000, 100000000, 250000000, 1000000000 // tenants[t]]))
            ops.append("check t=%d qps=%d" % (t, tenants[t]))
        elif k == "idle":
            ops.append("advance ns=%d" % rng.choice([3000000000, 10000000000]))
        elif k == "avail":
            ops.append("avail t=%d" % t)
        else:
            ops.append("tick ns=%d" % rng.choice([0, 10, 1000, 100000]))
    return ops


def oracle(raw, ann, res):
    """C19 on the implementation, from the virtual timestamps: in every window of calls of one
    tenant (and of all tenants for the global limit) admitted <= burst + rate * elapsed."""
    fails = []
    cf = dict(p.split("=", 1) for p in ann[0].split(" ")[1:])
    g = None if cf.get("global", "-") == "-" else int(cf["global"])
    now, tick = 1000000000 + (int(cf.get("tick", 0)) if g is not None else 0), int(cf.get("tick", 0))
    per = {}       # tenant -> list of (time, admitted)
    allc = []
    qps = {}
    for i, (a, r) in enumerate(zip(ann, res)):
        parts = a.split(" ")
        f = dict(p.split("=", 1) for p in parts[1:] if "=" in p)
        reads = int(re.search(r"reads=(\d+)", r).group(1)) if "reads=" in r else 0
        if parts[0] == "advance":
            now += int(f["ns"])
        elif parts[0] == "tick":
            tick = int(f["ns"])
        elif parts[0] == "check":
            adm = r.startswith("true")
            t = int(f["t"])
            qps[t] = int(f["qps"])
            per.setdefault(t, []).append((now, now + reads * tick, adm, i))
            allc.append((now, now + reads * tick, adm, i))
        if parts[0] in ("check", "avail", "cfg") and parts[0] != "cfg":
            now += reads * tick

    def windows(calls, rate, burst, kind):
        # every window [i, j] of calls: admitted <= burst + rate * (t_end_j - t_start_i) (+1e-6 slack)
        n = len(calls)
        for i in range(n):
            adm = 0
            for j in range(i, min(n, i + 400)):
                adm += calls[j][2]
                dt = (calls[j][1] - calls[i][0]) / 1e9
                if adm > burst + rate * dt + 1e-6:
                    return (kind, calls[j][3], "%d admitted in %.6fs, bound %d + %d*dt = %.4f" % (adm, dt, burst, rate, burst + rate * dt))
        return None

    # the other direction: a request is refused only when the tenant's own bucket or the global bucket is (nearly) empty.
    # Reference buckets per the specification (refill rate*dt capped at burst; an ADMITTED request takes one tenant and one
    # global token; a refused one takes nothing), fed with the implementation's own decisions and the time at call start.
    tok, last = {}, {}
    gtok, glast = (float(g), None) if g is not None else (None, None)
    for (t0, t1, adm, i, t) in sorted(((c[0], c[1], c[2], c[3], tt) for tt, cs in per.items() for c in cs), key=lambda x: x[3]):
        rate = qps[t]
        if t not in tok:
            tok[t], last[t] = float(rate), t0
        tok[t] = min(float(rate), tok[t] + rate * (t0 - last[t]) / 1e9); last[t] = t0
        if g is not None:
            gtok = min(float(g), gtok + g * ((t0 - glast) / 1e9 if glast is not None else 0.0)); glast = t0
        if adm:
            tok[t] -= 1.0
            if g is not None:
                gtok -= 1.0
        elif rate > 0 and tok[t] >= 1.0 + 1e-3 and (g is None or gtok >= 1.0 + 1e-3):
            fails.append(("c19-refused-with-budget", i, "tenant %d refused although its own bucket holds %.3f tokens and the global bucket %s "
                          "(refused requests must not consume budget)" % (t, tok[t], "%.3f" % gtok if g is not None else "n/a")))
            break
    for t, calls in per.items():
        w = windows(calls, qps[t], qps[t], "c19-tenant")
        if w:
            fails.append(w)
    if g is not None:
        w = windows(allc, g, g, "c19-global")
        if w:
            fails.append(w)
    return fails
