"""rpc engine: the real kyrodb_server binary over gRPC vs the tenant-layer model, plus the property
oracles of C10 (isolation) and C14 (exact quotas) evaluated directly on the server's answers.

A case = one op list starting with a cfg line.  For every case the runner produces
  impl   the real server's answers (harness engine `rpc`)
  model  the Lean model's answers (driver engine `rpc`)
  proj   for each tenant X: the answers X gets when the SAME history is replayed on a fresh server
         with every other tenant's requests removed (the non-interference oracle: what X observes may
         not depend on what other tenants did)
"""
from concurrent.futures import ThreadPoolExecutor
from .common import *
from . import corr

SERVER_DIR = os.path.join(HARNESS, "target", "server")
SERVER_BIN = os.path.join(SERVER_DIR, "debug", "kyrodb_server")
RES = {"5f5f74656e616e745f69645f5f": "__tenant_id__", "5f5f74656e616e745f6964785f5f": "__tenant_idx__",
       "5f5f6e616d6573706163655f5f": "__namespace__"}
NOKEY = ("none", "bad", "off")
LIFECYCLE = ("cfg", "start", "stop", "restart")


def server_build():
    """the server binary is rebuilt from /repo's current working tree on every run"""
    t0 = time.time()
    rc, out, err = run(["cargo", "build", "--offline", "--manifest-path", "/repo/Cargo.toml", "-p", "kyrodb-engine",
                        "--bin", "kyrodb_server", "--target-dir", SERVER_DIR], cwd="/repo", timeout=7200, env=ENV)
    return rc == 0 and os.path.exists(SERVER_BIN), out + err, time.time() - t0


def tenant_of(line):
    m = re.search(r"(?:^| )t=(\S+)", line)
    return m.group(1) if m else None


def op_of(line):
    return line.split(" ", 1)[0]


def tenants_of(cfg_line):
    m = re.search(r"tenants=(\S+)", cfg_line)
    out = []
    for t in m.group(1).split(","):
        p = t.split(":")
        out.append({"name": p[0], "maxv": int(p[1]), "flag": p[2] if len(p) > 2 else ""})
    return out


def project(raw, who):
    """indices of the ops that remain when only tenant `who` talks to the server"""
    return [i for i, l in enumerate(raw) if op_of(l) in LIFECYCLE or tenant_of(l) == who]


def _run_one(ops):
    env = dict(ENV, RUST_LOG="off", RUST_BACKTRACE="0", KVH_SERVER_BIN=SERVER_BIN, KVH_SCRATCH=scratch())
    try:
        rc, out, err = run([KVH, "rpc"], inp="\n".join(ops) + "\n", timeout=900, env=env)
    except subprocess.TimeoutExpired:
        return ["<harness-timeout>"] * len(ops)
    res = [l[2:] for l in out.split("\n") if l.startswith("< ")]
    if len(res) != len(ops):
        res += ["<harness-died rc=%s>" % rc] * (len(ops) - len(res))
    return res


def _lifecycle_failed(ops, res):
    return any(op_of(l) in ("start", "restart", "stop") and not r.startswith("ok") for l, r in zip(ops, res)) or \
        any(r.startswith("<harness") for r in res)


def _run_session(ops):
    """one server session; a session whose server failed to come up / go down (seen only on a saturated machine) is run again -
    these histories contain nothing that makes a healthy server refuse to start, and a deterministic failure repeats"""
    res = _run_one(ops)
    for _ in range(2):
        if not _lifecycle_failed(ops, res):
            break
        res = _run_one(ops)
    return res


def run_case(raw):
    impl = _run_session(raw)
    proj = {}
    for t in tenants_of(raw[0]):
        if t["flag"] in ("off", "admin"):
            continue
        idx = project(raw, t["name"])
        if not any(tenant_of(raw[i]) == t["name"] for i in idx):
            continue
        if len(idx) == len(raw):
            proj[t["name"]] = (idx, [impl[i] for i in idx])      # nobody else spoke
            continue
        proj[t["name"]] = (idx, _run_session([raw[i] for i in idx]))
    return impl, proj


def run_cases(cases, jobs=None):
    jobs = jobs or min(14, (os.cpu_count() or 4))
    with ThreadPoolExecutor(max_workers=jobs) as ex:
        got = list(ex.map(run_case, cases))
    flat = [l for c in cases for l in c]
    mres, merr, mrc = run_driver("rpc", flat)
    out, k = [], 0
    for c, (impl, proj) in zip(cases, got):
        m = mres[k:k + len(c)]; k += len(c)
        out.append({"raw": c, "ann": c, "impl": impl, "model": m, "engine": "rpc", "proj": proj})
    return out


corr.RUNNERS["rpc"] = run_cases
corr.FIRST_MISMATCH["rpc"] = lambda case: first_mismatch(case)
corr.COMPARERS["rpc"] = lambda a, b: compare(a, b)

# ---------------------------------------------------------------------------------------------
# canonical forms


def _round_score(bits):
    try:
        return "%.4f" % bits_f32(int(bits))
    except ValueError:
        return bits


def canon_vs_model(op, s):
    """what is compared between the server and the model"""
    s = re.sub(r" pub=(same|diff)", "", s)
    if "total=" in s and " res=" in s:
        s = re.sub(r" ties=\d", "", s)
        s = re.sub(r"(?<=[=;])(\d+)~(\d+|\*)~", lambda m: m.group(1) + "~*~", s)
    elif "flushed=" in s:
        s = re.sub(r"flushed=\S+", "flushed=*", s)
    elif "total_vectors=" in s:
        s = re.sub(r":queries=\d+", "", s)
        m = re.match(r"ok total_vectors=(\d+) tenants=(\S+)", s)
        if m:
            rows = [] if m.group(2) == "-" else m.group(2).split(",")
            rows = [r for r in rows if not re.search(r"vectors=0:inserts=0:deletes=0$", r)]
            s = "ok total_vectors=%s tenants=%s" % (m.group(1), ",".join(sorted(rows)) or "-")
    return s


def compare(impl, model, op=None):
    if "ties=1" in model:
        return True
    return canon_vs_model(op, impl) == canon_vs_model(op, model)


def first_mismatch(case):
    semantic = " sim=" in case["raw"][0] and " sim=1" not in case["raw"][0]
    for i, (a, b) in enumerate(zip(case["impl"], case["model"])):
        if semantic and op_of(case["raw"][i]) in ("search", "bsearch") and a.startswith("ok"):
            continue          # a similarity hit of the query cache answers with another query's entry (by design): not predicted
        if not compare(a, b, op_of(case["raw"][i])):
            return i
    if len(case["impl"]) != len(case["model"]):
        return min(len(case["impl"]), len(case["model"]))
    return None


def _search_view(s):
    """(total, sorted rounded scores, ids when the scores are pairwise distinct)"""
    out = []
    for part in s.split(" | "):
        m = re.search(r"total=(\d+) res=(\S+)", part)
        if not m:
            out.append(part); continue
        items = [] if m.group(2) == "-" else m.group(2).split(";")
        scores = [_round_score(x.split("~")[1]) for x in items]
        rest = [x.split("~")[0] + "~" + "~".join(x.split("~")[2:]) for x in items]
        if len(set(scores)) == len(scores):
            out.append((m.group(1), tuple(scores), tuple(rest)))
        else:
            out.append((m.group(1), tuple(sorted(scores)), tuple(sorted(rest)) if len(items) == int(m.group(1)) else None))
    return out


def canon_vs_proj(op, s):
    if op in ("search", "bsearch") and s.startswith("ok "):
        return _search_view(s[3:])
    return s


# ---------------------------------------------------------------------------------------------
# oracles

def meta_keys(s):
    """hex keys of every metadata map printed in an answer"""
    return set(re.findall(r"(?:~|\|)([0-9a-f]+):[0-9a-f]*", s))


def oracle_c10(case):
    raw, impl, proj = case["raw"], case["impl"], case.get("proj", {})
    fails = []
    for i, (l, r) in enumerate(zip(raw, impl)):
        op, t = op_of(l), tenant_of(l)
        if r.startswith("<harness"):
            fails.append(("harness", i, r)); continue
        if op in LIFECYCLE or t is None:
            continue
        # every data RPC without a valid enabled key is refused
        if t in NOKEY:
            want = "http:401" if op == "usage" else "err:Unauthenticated"
            if r != want and r != "not-running" and r != "http-unreachable":
                fails.append(("c10-unauthenticated-accepted", i, "`%s` without a valid enabled key answered `%s`" % (l, r)))
            continue
        # the server-owned keys are never shown
        seen = meta_keys(r) & set(RES)
        if seen:
            fails.append(("c10-reserved-key-shown", i, "`%s` shows server-owned key(s) %s: %s" % (l, sorted(RES[k] for k in seen), r)))
        # a not-found answer carries nothing
        for item in re.findall(r"\d+~0~([^~;\s]*)~([^~;\s]*)", r) if op in ("q", "bq") else []:
            if item != ("-", "-"):
                fails.append(("c10-not-found-carries-data", i, "`%s`: a not-found answer carries data: %s" % (l, r)))
    # a namespace selector never matches a document of another namespace: the namespace a document has is the one of the
    # REQUEST that last wrote it (tracked only where that is certain: acknowledged single inserts; anything a batch, a delete
    # or a restart may have touched becomes unknown until the next acknowledged insert)
    wrote = {}
    for i, (l, r) in enumerate(zip(raw, impl)):
        op, t = op_of(l), tenant_of(l)
        f = dict(p.split("=", 1) for p in l.split(" ")[1:] if "=" in p)
        if op == "ins" and r.startswith("ok success=1"):
            wrote[(t, f["id"])] = f.get("ns", "-")
        elif op in ("bins", "bload"):
            for it in f.get("docs", "").split("/"):
                wrote.pop((t, it.split(";")[0]), None)
        elif op == "del":
            wrote.pop((t, f.get("id")), None)
        elif op in ("bd", "bdf"):
            for key in [k for k in wrote if k[0] == t]:
                wrote.pop(key)
        elif op == "q" and r.startswith("ok ") and f.get("ns", "-") != "-":
            m = re.match(r"ok (\d+)~1~", r)
            if m and (t, m.group(1)) in wrote and wrote[(t, m.group(1))] != f["ns"]:
                fails.append(("c10-namespace-mismatch", i, "`%s` finds document %s, which tenant %s last wrote with namespace `%s`: %s" % (
                    l, m.group(1), t, wrote[(t, m.group(1))], r)))
                break
        elif op == "bq" and r.startswith("ok ") and f.get("ns", "-") != "-":
            hit = next((x for x in re.findall(r"(?:res=|;)(\d+)~1~", r) if (t, x) in wrote and wrote[(t, x)] != f["ns"]), None)
            if hit:
                fails.append(("c10-namespace-mismatch", i, "`%s` finds document %s, which tenant %s last wrote with namespace `%s`: %s" % (
                    l, hit, t, wrote[(t, hit)], r[:300])))
                break
    # a client filter must not be evaluated against the server-owned keys (they "cannot be seen"): where the model - which
    # agrees with the server on this answer - says a client blind to those keys would have got another answer
    for i, (l, r, m) in enumerate(zip(raw, impl, case.get("model", []))):
        if "pub=diff" in m and "ties=1" not in m and r.startswith("ok") and compare(r, m, op_of(l)):
            fails.append(("c10-reserved-key-filter", i, "`%s` answers `%s`: the client filter was evaluated against server-owned "
                          "metadata keys (a client that cannot see them would have got a different answer)" % (l, r)))
            break
    # non-interference: what a tenant observes is what it observes alone
    for who, (idx, alone) in proj.items():
        for j, i in enumerate(idx):
            l = raw[i]
            op = op_of(l)
            if tenant_of(l) != who or j >= len(alone):
                continue
            a, b = impl[i], alone[j]
            if a.startswith("<harness") or b.startswith("<harness"):
                continue
            if canon_vs_proj(op, a) == canon_vs_proj(op, b):
                continue
            kind = {"search": "c10-search-interference", "bsearch": "c10-search-interference",
                    "flush": "c10-flush-count", "usage": "c10-usage-interference"}.get(op, "c10-interference")
            fails.append((kind, i, "tenant %s, op %d `%s`: answers `%s` in the shared history but `%s` when the other "
                          "tenants' requests are removed" % (who, i, l, a, b)))
            break                                   # later differences of this tenant may be consequences
    return fails


def census_lines(tenant, universe):
    return ["bq t=%s ids=%s emb=0" % (tenant, ",".join(str(x) for x in universe))]


def oracle_c14(case):
    """`probe t=X` must be followed by the census `bq t=X ids=<universe>`: counted = limit - room"""
    raw, impl = case["raw"], case["impl"]
    fails = []
    maxv = {t["name"]: t["maxv"] for t in tenants_of(raw[0])}
    for i, (l, r) in enumerate(zip(raw, impl)):
        if r.startswith("<harness"):
            fails.append(("harness", i, r)); continue
        if op_of(l) != "probe" or i + 1 >= len(raw) or op_of(raw[i + 1]) != "bq":
            continue
        t = tenant_of(l)
        m = re.match(r"ok room=(\d+) refusal=(\S+) removed=(\d+)", r)
        c = re.match(r"ok found=(\d+)", impl[i + 1])
        if not m or not c or t not in maxv:
            continue
        room, live = int(m.group(1)), int(c.group(1))
        counted = maxv[t] - room
        if m.group(2) != "ResourceExhausted" and room <= maxv[t]:
            fails.append(("c14-no-refusal", i, "tenant %s was never refused: %s" % (t, r)))
        elif counted != live:
            kind = "c14-overcount" if counted > live else "c14-undercount"
            fails.append((kind, i, "tenant %s holds %d live documents but %d are counted against its limit of %d "
                          "(admitted %d more before RESOURCE_EXHAUSTED)" % (t, live, counted, maxv[t], room)))
        if live > maxv[t]:
            fails.append(("c14-over-limit", i, "tenant %s holds %d live documents, limit %d" % (t, live, maxv[t])))
        # the usage report
        if i + 2 < len(raw) and op_of(raw[i + 2]) == "usage" and tenant_of(raw[i + 2]) == t:
            u = re.search(r"tenants=%s:vectors=(\d+)" % re.escape(t), impl[i + 2])
            uv = int(u.group(1)) if u else (0 if impl[i + 2].startswith("ok ") else None)
            if uv is not None and uv != live:
                fails.append(("c14-usage-count", i + 2, "tenant %s holds %d live documents but /usage reports vector_count=%d" % (t, live, uv)))
    # an insert of a new id is refused only at the limit / a write is admitted only below it
    return fails


# ---------------------------------------------------------------------------------------------
# generator

COORDS = [0.0, 0.5, 1.0, -1.0, 2.0]
KEYS = ["a", "b"]
VALS = ["x", "y", "1", "2"]
SPACES = ["", "", "n1", "n2"]
RESK = ["__tenant_id__", "__tenant_idx__", "__namespace__"]


def gen_vec(rng, dim):
    return [f32bits(rng.choice(COORDS)) for _ in range(dim)]


def gen_meta(rng, names, spoof=True):
    d = {}
    for k in KEYS:
        if rng.random() < 0.6:
            d[k] = rng.choice(VALS)
    if spoof and rng.random() < 0.25:
        k = rng.choice(RESK)
        d[k] = rng.choice(names + ["0", "1", "2", "n1", "n2"])
    return d


def ns_txt(ns):
    return "-" if ns == "" else hexs(ns)


def gen_filter(rng, names, depth=2):
    r = rng.random()
    if depth <= 0 or r < 0.45:
        if rng.random() < 0.2:
            k = rng.choice(RESK)
            v = rng.choice(names + ["0", "1", "2", "n1", "n2"])
        else:
            k, v = rng.choice(KEYS), rng.choice(VALS)
        if rng.random() < 0.3:
            vs = rng.sample(VALS, rng.randint(1, 3)) if k in KEYS else [v, rng.choice(["0", "1"])]
            return "in,%s,%d,%s" % (hexs(k), len(vs), ",".join(hexs(x) for x in vs))
        return "exact,%s,%s" % (hexs(k), hexs(v))
    if r < 0.65:
        return "not,1," + gen_filter(rng, names, depth - 1)
    n = rng.randint(1, 3)
    return "%s,%d,%s" % ("and" if r < 0.82 else "or", n, ",".join(gen_filter(rng, names, depth - 1) for _ in range(n)))


def gen_docs(rng, dim, ids, names, n):
    out = []
    for _ in range(n):
        i = rng.choice(ids)
        v = gen_vec(rng, dim if rng.random() < 0.93 else dim + 1)
        if rng.random() < 0.04:
            v = []
        out.append("%d;%s;%s;%s" % (i, show_vec(v), show_meta(gen_meta(rng, names)), ns_txt(rng.choice(SPACES))))
    return "/".join(out)


def gen_case(rng, n_ops=40, focus="c10"):
    dim = rng.choice([2, 3, 4])
    names = ["ta", "tb"] + (["tc"] if rng.random() < 0.4 else [])
    lims = {n: (rng.randint(2, 6) if focus == "c14" or rng.random() < 0.5 else rng.randint(6, 30)) for n in names}
    cfg = "cfg dim=%d tenants=%s,off:5:off,adm:50:admin cap=%d" % (
        dim, ",".join("%s:%d" % (n, lims[n]) for n in names), rng.choice([4, 64]) if focus == "c14" else 64)
    if focus == "c10" and rng.random() < 0.25:
        cfg += " sim=0.52"        # the default similarity threshold of the query cache: entries reused for similar queries
    ops = [cfg, "start"]
    ids = [1, 2, 3, 4, 5, 6] + ([4294967295] if rng.random() < 0.3 else [])
    # out-of-range local ids whose HIGH word is another tenant's index and whose low word is a popular local id: an id mapping
    # that forgets the range check lands them on that tenant's document (seeded change C10-3)
    odd = [0, 4294967296, 7] + [(j << 32) | i for j in (1, 2) for i in (1, 2, 3, 5)]
    universe = sorted(set(ids + [0, 7, 4294967295]))
    weights = {"ins": 30, "del": 9, "um": 6, "q": 8, "bq": 5, "bd": 5, "bdf": 4, "bins": 5, "bload": 5,
               "search": 11, "bsearch": 3, "flush": 2, "usage": 3, "probe": 4, "restart": 2, "nokey": 3}
    if focus == "c14":
        weights.update({"search": 2, "bsearch": 0, "q": 3, "um": 2, "probe": 8, "restart": 4, "ins": 34, "bload": 8,
                        "bins": 8, "bd": 8, "del": 12})
    kinds = [k for k, w in weights.items() for _ in range(w)]
    known = {}
    for _ in range(n_ops):
        k = rng.choice(kinds)
        t = rng.choice(names)
        if focus == "c14" and rng.random() < 0.7:
            t = names[0]
        ns = ns_txt(rng.choice(SPACES))
        idp = ids if rng.random() < 0.9 else odd
        if k == "nokey":
            t = rng.choice(NOKEY)
            k = rng.choice(["ins", "q", "search", "del", "bd", "flush", "usage", "bq", "um", "bins", "bload", "bdf", "bsearch"])
        if k == "ins":
            v = gen_vec(rng, dim if rng.random() < 0.94 else dim + 1)
            i = rng.choice(idp)
            ops.append("ins t=%s id=%d v=%s m=%s ns=%s" % (t, i, show_vec(v), show_meta(gen_meta(rng, names)), ns))
            if len(v) == dim and t not in NOKEY and 1 <= i < 2 ** 32:
                known.setdefault(t, {})[i] = ns               # the generator's own rough idea of what exists (aiming aid only)
        elif k == "del":
            ops.append("del t=%s id=%d ns=%s" % (t, rng.choice(idp), ns))
        elif k == "um":
            i = rng.choice(idp)
            md = gen_meta(rng, names)
            um_ns = ns
            if rng.random() < 0.35:
                # aimed at the server-owned keys: try to plant one on a document that (probably) exists - half of the time one
                # written WITHOUT a namespace - then look for the document where it would now be
                plain = [d for d, n in known.get(t, {}).items() if n == "-"]
                anyd = list(known.get(t, {}))
                if plain and rng.random() < 0.6:
                    i = rng.choice(plain)
                elif anyd:
                    i = rng.choice(anyd)
                md[rng.choice(RESK + ["__namespace__"])] = rng.choice(["n1", "n2", "n1", names[-1], "0", "1"])
                um_ns = "-" if rng.random() < 0.7 else known.get(t, {}).get(i, "-")
            ops.append("um t=%s id=%d m=%s merge=%d ns=%s" % (t, i, show_meta(md), rng.randint(0, 1), um_ns))
            if any(k2 in md for k2 in RESK):
                for probe_ns in ("-", hexs("n1"), hexs("n2")):
                    ops.append("q t=%s id=%d ns=%s emb=0" % (t, i, probe_ns))
                other = rng.choice([n for n in names if n != t])
                ops.append("q t=%s id=%d ns=- emb=0" % (other, i))
        elif k == "q":
            ops.append("q t=%s id=%d ns=%s emb=%d" % (t, rng.choice(idp), ns, rng.randint(0, 1)))
        elif k == "bq":
            ops.append("bq t=%s ids=%s ns=%s emb=%d" % (t, ",".join(str(rng.choice(ids)) for _ in range(rng.randint(1, 5))), ns, rng.randint(0, 1)))
        elif k == "bd":
            ops.append("bd t=%s ids=%s ns=%s" % (t, ",".join(str(rng.choice(ids if rng.random() < 0.95 else odd)) for _ in range(rng.randint(1, 5))), ns))
        elif k == "bdf":
            ops.append("bdf t=%s f=%s ns=%s" % (t, gen_filter(rng, names), ns))
        elif k in ("bins", "bload"):
            ops.append("%s t=%s docs=%s" % (k, t, gen_docs(rng, dim, ids if rng.random() < 0.9 else ids + odd, names, rng.randint(1, 5))))
        elif k == "search":
            f = gen_filter(rng, names) if rng.random() < 0.4 else "-"
            ops.append("search t=%s q=%s k=%d ns=%s f=%s emb=%d" % (t, show_vec(gen_vec(rng, dim)), rng.choice([1, 1, 2, 3, 10]), ns, f, rng.randint(0, 1)))
        elif k == "bsearch":
            f = gen_filter(rng, names) if rng.random() < 0.3 else "-"
            ops.append("bsearch t=%s qs=%s k=%d ns=%s f=%s" % (t, "/".join(show_vec(gen_vec(rng, dim)) for _ in range(rng.randint(1, 3))), rng.choice([1, 2, 5]), ns, f))
        elif k == "flush":
            ops.append("flush t=%s" % t)
        elif k == "usage":
            if rng.random() < 0.25:
                ops.append("usage t=%s scope=all" % rng.choice(names + ["adm"]))
            else:
                ops.append("usage t=%s" % t)
        elif k == "probe":
            if t in NOKEY:
                continue
            ops.append("probe t=%s" % t)
            ops += census_lines(t, universe)
            ops.append("usage t=%s" % t)
        elif k == "restart":
            ops.append("restart")
    # every case ends with the exactness probe of every tenant
    for t in names:
        ops.append("probe t=%s" % t)
        ops += census_lines(t, universe)
        ops.append("usage t=%s" % t)
    ops.append("stop")
    return ops
