"""Generator + property oracles for the `tiered` engine (C04, C20; later C06/C07/C11 parts)."""
import math
from .common import *

STRATS = ["lru", "learned", "learned_sem", "ab"]
METRICS = ["l2", "cos", "ip"]
KEYS = ["a", "b", "c"]
VALS = ["1", "2", "x", ""]


def rand_meta(rng):
    n = rng.choice([0, 1, 1, 2, 3])
    return {rng.choice(KEYS): rng.choice(VALS) for _ in range(n)}


def rand_vec(rng, dim):
    return [float(rng.choice([-3, -2, -1, -0.5, 0.25, 0.5, 1, 2, 3, 7])) for _ in range(dim)]


def bad_vec(rng, dim):
    k = rng.choice(["zero", "dim", "nan", "inf", "huge"])
    if k == "zero":
        return [0.0] * dim
    if k == "dim":
        return rand_vec(rng, dim + rng.choice([1, 2]) if rng.random() < 0.7 or dim == 1 else dim - 1)
    v = rand_vec(rng, dim)
    i = rng.randrange(dim)
    v[i] = {"nan": float("nan"), "inf": float("inf"), "huge": 3.0e38}[k]
    return v


def vbits(v):
    return show_vec([f32bits(x) for x in v])


def gen_case(rng, pokes=True, n_ops=40, strat=None, force_cfg=None, filters=False):
    strat = strat or rng.choice(STRATS)
    cap = rng.choice([1, 2, 5])
    hard = rng.choice([1, 2, 4])
    soft = rng.choice([1, 3, 100])
    dim = rng.choice([2, 3, 4])
    metric = rng.choice(METRICS)
    cfg = force_cfg or "cfg strat=%s cap=%d hard=%d soft=%d dim=%d metric=%s" % (
        strat, cap, hard, soft, dim, metric)
    if force_cfg:
        import re
        dim = int(re.search(r"dim=(\d+)", cfg).group(1))
    ids = list(range(1, rng.choice([3, 4, 6]) + 1))
    ops = [cfg]
    w = [("insert", 24), ("query", 18), ("delete", 6), ("batch_delete", 4), ("update", 6),
         ("bulk_load", 5), ("flush", 5), ("doc_meta", 6), ("emb_aware", 6), ("get_meta", 3),
         ("exists", 3), ("bulk_query", 6), ("train", 2)]
    if pokes:
        w += [("poke_cache", 5), ("poke_hot", 5)]
    if filters:
        w += [("delete_by_filter", 9)]
    names = [n for n, _ in w]
    weights = [x for _, x in w]
    for _ in range(n_ops):
        op = rng.choices(names, weights)[0]
        i = rng.choice(ids)
        if op == "insert":
            v = bad_vec(rng, dim) if rng.random() < 0.12 else rand_vec(rng, dim)
            ops.append("insert id=%d v=%s m=%s" % (i, vbits(v), show_meta(rand_meta(rng))))
        elif op in ("query", "delete", "doc_meta", "emb_aware", "get_meta", "exists"):
            ops.append("%s id=%d" % (op, i))
        elif op == "batch_delete":
            k = rng.choice([0, 1, 2, 3])
            ops.append("batch_delete ids=%s" % show_vec([rng.choice(ids + [99]) for _ in range(k)]))
        elif op == "update":
            ops.append("update id=%d m=%s merge=%d" % (i, show_meta(rand_meta(rng)), rng.randrange(2)))
        elif op == "bulk_load":
            k = rng.choice([0, 1, 2, 3])
            docs, used = [], set()
            for _ in range(k):
                j = rng.choice(ids)
                bad = rng.random() < 0.15 and j not in used
                if j in used and any(d[3] for d in docs if d[0] == j):
                    continue   # never mix a refused and an accepted occurrence of one id
                v = bad_vec(rng, dim) if bad else rand_vec(rng, dim)
                docs.append((j, v, rand_meta(rng), bad))
                used.add(j)
            ops.append("bulk_load docs=%s" % ("/".join(
                "%d;%s;%s" % (j, vbits(v), show_meta(m)) for j, v, m, _ in docs) or "-"))
        elif op == "flush":
            ops.append("flush force=%d" % rng.randrange(2))
        elif op == "bulk_query":
            k = rng.choice([1, 2, 3, 4])
            ops.append("bulk_query ids=%s emb=%d" % (
                show_vec([rng.choice(ids + [99]) for _ in range(k)]), rng.randrange(2)))
        elif op == "train":
            ops.append("train ids=%s" % show_vec([rng.choice(ids) for _ in range(rng.choice([3, 8, 20]))]))
        elif op == "delete_by_filter":
            from . import store
            ops.append("delete_by_filter f=%s" % ",".join(
                store.rand_filter(rng, VALS + ["10", "-1", "1.0"], rng.randrange(3))))
        elif op == "poke_cache":
            kind = rng.choice(["old_ver", "wrong_payload", "foreign", "exact"])
            alt = vbits(rand_vec(rng, dim))
            if kind == "old_ver":
                ops.append("poke_cache id=%d v=@cur ver=@cur-1 dig=@cur alt=%s" % (i, alt))
            elif kind == "wrong_payload":
                ops.append("poke_cache id=%d v=%s ver=@cur dig=@cur alt=%s" % (i, alt, alt))
            elif kind == "foreign":
                ops.append("poke_cache id=%d v=%s ver=%d dig=@v alt=%s" % (i, alt, rng.choice([0, 1, 2, 7]), alt))
            else:
                ops.append("poke_cache id=%d v=@cur ver=@cur dig=@cur alt=%s" % (i, alt))
        elif op == "poke_hot":
            kind = rng.choice(["old_ver", "wrong_payload", "foreign", "exact", "baddim"])
            alt = vbits(rand_vec(rng, dim))
            m = show_meta(rand_meta(rng))
            if kind == "old_ver":
                ops.append("poke_hot id=%d v=@cur m=%s ver=@cur-1 dig=@cur alt=%s" % (i, m, alt))
            elif kind == "wrong_payload":
                ops.append("poke_hot id=%d v=%s m=%s ver=@cur dig=@cur alt=%s" % (i, alt, m, alt))
            elif kind == "foreign":
                ops.append("poke_hot id=%d v=%s m=%s ver=%d dig=@v alt=%s" % (i, alt, m, rng.choice([0, 1, 2, 7]), alt))
            elif kind == "baddim":
                bd = vbits(rand_vec(rng, dim + 1))
                ops.append("poke_hot id=%d v=%s m=%s ver=1 dig=@v alt=%s" % (i, bd, m, bd))
            else:
                ops.append("poke_hot id=%d v=@cur m=%s ver=@cur dig=@cur alt=%s" % (i, m, alt))
        ops.append("sizes")
    ops.append("census")
    return ops


# ---------------------------------------------------------------------------------------------
# C06: k-NN histories

KNN_DIMS = [1, 3, 7, 8, 9, 15, 16, 17, 33]


def f32round(x):
    import struct
    return struct.unpack("<f", struct.pack("<f", x))[0]


def knn_vec(rng, dim, metric):
    """(vector, class) - classes for cos/ip: far from unit norm (gets normalised), unit in f32, in the 2% band"""
    v = [rng.choice([-1, 1]) * rng.choice([0.1, 0.25, 0.5, 1.0, 1.5, 2.0, 3.0]) * (1 + rng.random() * 0.3) for _ in range(dim)]
    if rng.random() < 0.25:
        j = rng.randrange(dim)
        v = [x * 0.05 for x in v]; v[j] = rng.choice([-1, 1]) * 2.0      # clustered directions
    if metric == "l2":
        return [f32round(x) for x in v], "any"
    c = rng.choices(["far", "unit", "band"], [55, 30, 15])[0]
    n = math.sqrt(sum(x * x for x in v)) or 1.0
    if c == "unit":
        v = [x / n for x in v]
    elif c == "band":
        t = math.sqrt(rng.choice([0.985, 0.99, 1.01, 1.015]))
        v = [x / n * t for x in v]
    return [f32round(x) for x in v], c


def gen_stale_crowd_case(rng):
    """a SMALL recent-write tier whose nearest mirrors are all stale (bulk load over mirrored documents), plus one fresh write
    that is the true nearest neighbour: the widening scan must go on until it has looked at the whole tier (seeded change
    C06-4 stopped when the window covered the tier as it was AFTER the stale mirrors had been discarded)"""
    dim = rng.choice([2, 3, 8])
    metric = "l2"
    k = rng.choice([1, 2, 3])
    m = rng.randint(2 * k, 4 * k - 1)                        # stale mirrors: at least the first window, less than two
    ops = ["cfg strat=lru cap=4 hard=200 soft=1000 dim=%d metric=%s" % (dim, metric)]
    centre = [f32round(rng.choice([0.5, 1.0, -1.0, 2.0])) for _ in range(dim)]
    near = lambda eps: [f32round(x + rng.choice([-1, 1]) * eps * (1 + rng.random())) for x in centre]
    far = lambda: [f32round(x + rng.choice([-1, 1]) * (20 + 10 * rng.random())) for x in centre]
    if rng.random() < 0.7:
        # crowd the ANN tier's neighbourhood of the query with tombstones (one document overwritten again and again right next
        # to the query, finally moved away) and drain the recent-write tier: the ANN tier alone may now miss a near document,
        # so an answer without the fresh write is visibly wrong, not just differently routed
        for _ in range(rng.choice([24, 32, 48])):
            ops.append("insert id=100 v=%s m=-" % vbits(near(0.01)))
        ops.append("insert id=100 v=%s m=-" % vbits(far()))
        ops.append("flush force=1")
    for i in range(1, m + 1):
        ops.append("insert id=%d v=%s m=-" % (i, vbits(near(0.05))))            # mirrored, very close to the query
    ops.append("bulk_load docs=%s" % "/".join("%d;%s;-" % (i, vbits(far())) for i in range(1, m + 1)))   # now far away: mirrors stale
    fresh = list(range(m + 1, m + 1 + rng.choice([1, 1, 2])))
    for i in fresh:
        ops.append("insert id=%d v=%s m=-" % (i, vbits(near(0.2))))             # acknowledged, mirrored, the true nearest
    ops.append("knn q=%s k=%d ef=%d" % (vbits(centre), k, rng.choice([0, 0, k, 2 * k, 64])))
    return ops


def gen_knn_case(rng, n_ops=60, pokes=False):
    dim = rng.choice(KNN_DIMS)
    metric = rng.choice(METRICS)
    nids = rng.choice([4, 8, 16, 40])
    hard = rng.choice([3, 8, 64, 200])
    soft = rng.choice([2, 6, 100, 1000])
    ops = ["cfg strat=lru cap=4 hard=%d soft=%d dim=%d metric=%s" % (hard, soft, dim, metric)]
    ids = list(range(1, nids + 1))
    pool = []           # vectors written so far (queries near them)
    names = ["insert", "delete", "flush", "bulk_load", "knn", "batch_delete"] + (["poke_hot"] if pokes else [])
    weights = [46, 10, 5, 5, 28, 3] + ([4] if pokes else [])
    for _ in range(n_ops):
        op = rng.choices(names, weights)[0]
        i = rng.choice(ids)
        if op == "insert":
            v, _ = knn_vec(rng, dim, metric)
            pool.append(v)
            ops.append("insert id=%d v=%s m=-" % (i, vbits(v)))
        elif op == "delete":
            ops.append("delete id=%d" % i)
        elif op == "batch_delete":
            ops.append("batch_delete ids=%s" % show_vec([rng.choice(ids) for _ in range(rng.choice([1, 2, 5]))]))
        elif op == "flush":
            ops.append("flush force=%d" % rng.randrange(2))
        elif op == "bulk_load":
            docs = []
            for j in rng.sample(ids, min(len(ids), rng.choice([1, 2, 4]))):
                v, _ = knn_vec(rng, dim, metric)
                pool.append(v)
                docs.append("%d;%s;-" % (j, vbits(v)))
            ops.append("bulk_load docs=%s" % "/".join(docs))
        elif op == "poke_hot":
            alt = vbits(knn_vec(rng, dim, metric)[0])
            if rng.random() < 0.4:
                # a mirror holding ANOTHER vector under the canonical token (what two racing writers of one id can leave
                # behind): only the payload digest check tells it from the canonical copy
                ops.append("poke_hot id=%d v=%s m=- ver=@cur dig=@cur alt=%s" % (i, alt, alt))
            else:
                ops.append("poke_hot id=%d v=%s m=- ver=@cur-1 dig=@v alt=%s" % (i, alt, alt))
        else:
            if pool and rng.random() < 0.7:
                base = rng.choice(pool)
                if rng.random() < 0.35:
                    # the query IS a stored vector, or differs from it in one coordinate by a hair: true distances of 0 .. 1e-3,
                    # where a distance computed by cancellation (norm expansion) is wrong in the leading digits (seeded C06-2)
                    q = list(base)
                    if rng.random() < 0.6:
                        j_ = rng.randrange(len(q))
                        q[j_] = f32round(q[j_] + rng.choice([1e-3, -1e-3, 2e-4, 1e-4]))
                else:
                    q = [f32round(x + rng.choice([0, 0, 1e-3, -1e-2, 0.1]) ) for x in base]
            else:
                q, _ = knn_vec(rng, dim, metric)
            if metric != "l2" and rng.random() < 0.4:
                s_ = rng.choice([0.5, 2.0, 10.0])
                q = [f32round(x * s_) for x in q]          # un-normalised query
            if not any(q):
                q[0] = 1.0
            k = rng.choice([1, 1, 2, 3, 5, 10, 50, 1000])
            ops.append("knn q=%s k=%d ef=%d" % (vbits(q), k, rng.choice([1, 10, 50, 200])))
        if pokes:
            ops.append("sizes")      # lets the oracle follow mirror-only plants that a drain repairs into the cold tier
    ops.append("census")
    return ops


def gen_qcache_case(rng, n_ops=70):
    """C07 at engine level: a small pool of queries is searched again and again through the CACHEABLE path (no ef
    override) in two scopes, while documents near those queries are written, overwritten, deleted, bulk-loaded and
    metadata-updated in between"""
    dim = rng.choice([2, 3, 8, 33, 40])
    metric = rng.choice(METRICS)
    nids = rng.choice([6, 12, 24])
    ops = ["cfg strat=lru cap=4 hard=%d soft=%d dim=%d metric=%s qcap=%d" % (
        rng.choice([4, 16, 200]), rng.choice([3, 100]), dim, metric, rng.choice([2, 4, 16]))]
    ids = list(range(1, nids + 1))
    queries = []
    for _ in range(rng.choice([2, 3, 5])):
        q, _ = knn_vec(rng, dim, metric)
        if metric != "l2":
            n = math.sqrt(sum(x * x for x in q)) or 1.0
            q = [f32round(x / n) for x in q]
        queries.append(q)

    def near(q):
        r = rng.choice([1e-3, 0.02, 0.1, 0.4, 1.0])
        v = [x + rng.gauss(0, r) for x in q]
        if metric != "l2":
            n = math.sqrt(sum(x * x for x in v)) or 1.0
            c = rng.choices(["unit", "band", "far"], [50, 30, 20])[0]
            t = {"unit": 1.0, "band": math.sqrt(rng.choice([0.985, 0.99, 1.01, 1.015])), "far": rng.choice([0.5, 3.0])}[c]
            v = [x / n * t for x in v]
        return [f32round(x) for x in v]

    for i in ids[: max(3, nids // 2)]:
        ops.append("insert id=%d v=%s m=-" % (i, vbits(near(rng.choice(queries)))))
    names = ["knn", "insert", "delete", "update", "bulk_load", "flush", "batch_delete"]
    weights = [45, 30, 8, 4, 3, 6, 2]
    for _ in range(n_ops):
        op = rng.choices(names, weights)[0]
        i = rng.choice(ids)
        if op == "knn":
            q = rng.choice(queries)
            if rng.random() < 0.15:
                q = [f32round(x * (1 + 1e-6)) for x in q]        # same quantised key, different bits
            ops.append("knn q=%s k=%d scope=%d" % (vbits(q), rng.choice([1, 2, 3, 3, 5]), rng.choice([0, 0, 1])))
        elif op == "insert":
            ops.append("insert id=%d v=%s m=-" % (i, vbits(near(rng.choice(queries)))))
        elif op == "delete":
            ops.append("delete id=%d" % i)
        elif op == "batch_delete":
            ops.append("batch_delete ids=%s" % show_vec([rng.choice(ids) for _ in range(2)]))
        elif op == "update":
            ops.append("update id=%d m=%s merge=0" % (i, show_meta(rand_meta(rng))))
        elif op == "bulk_load":
            ops.append("bulk_load docs=%d;%s;-" % (i, vbits(near(rng.choice(queries)))))
        else:
            ops.append("flush force=1")
    ops.append("census")
    return ops


def _vec_of(bits):
    return [bits_f32(int(b)) for b in bits.split(",")] if bits not in ("-", "") else []


def _norm2(v):
    return sum(x * x for x in v)


def knn_reference(metric, qn, v):
    """(primary true distance, alternative) in f64.  For Cosine/InnerProduct the two differ only when a
    vector's norm is inside the accepted 2% band but not 1."""
    dot = sum(a * b for a, b in zip(qn, v))
    if metric == "l2":
        d = math.sqrt(sum((a - b) ** 2 for a, b in zip(qn, v)))
        return d, d
    nq, nv = math.sqrt(_norm2(qn)), math.sqrt(_norm2(v))
    cosd = 1.0 - max(-1.0, min(1.0, dot / (nq * nv))) if nq > 0 and nv > 0 else float("inf")
    ipd = max(0.0, 1.0 - dot)
    return (cosd, ipd) if metric == "cos" else (ipd, cosd)


def knn_oracle(i, f, r, exp, metric, stale_ok):
    """C06 on the implementation's answer: at most k distinct live documents, each with the true distance to the
    document's CURRENT vector, in non-decreasing order; an acknowledged, undrained recent write that is strictly
    closer than the k-th result is present."""
    fails = []
    if not r.startswith("ok "):
        return fails
    k = int(f["k"])
    qn = _vec_of(f["qn"])
    res = [] if r.split(" res=")[1] == "-" else [tuple(int(x) for x in c.split(":")) for c in r.split(" res=")[1].split(",")]
    ids = [c[0] for c in res]
    dists = [bits_f32(c[2]) for c in res]
    if len(res) > k:
        fails.append(("c06", i, "%d results for k=%d" % (len(res), k)))
    if len(set(ids)) != len(ids):
        fails.append(("c06", i, "duplicate documents in the result: %s" % ids))
    for a, b in zip(dists, dists[1:]):
        if not (a <= b):
            fails.append(("c06", i, "distances not in non-decreasing order: %s" % dists)); break
    for id_, d in zip(ids, dists):
        if id_ not in exp:
            fails.append(("c06", i, "result contains document %d which does not exist now (deleted)" % id_)); continue
        v = _vec_of(exp[id_][0])
        t1, t2 = knn_reference(metric, qn, v)
        tol = 2e-4 * (1 + abs(t1))
        if abs(d - t1) <= tol:
            continue
        if abs(d - t2) <= 2e-4 * (1 + abs(t2)):
            fails.append(("c06-distance-band", i, "document %d reported at distance %.6g; true %s distance to its current vector is %.6g "
                          "(|q|^2=%.4f |v|^2=%.4f: a vector accepted un-normalised inside the 2%% band)" % (
                              id_, d, metric, t1, _norm2(qn), _norm2(v))))
        else:
            fails.append(("c06", i, "document %d reported at distance %.6g; true distance to its current vector is %.6g" % (id_, d, t1)))
    # recent writes
    hotset = [] if f.get("hotset", "-") == "-" else [int(x) for x in f["hotset"].split(",")]
    kth = dists[-1] if len(res) >= k and res else None
    for h in hotset:
        if h in ids or h not in exp or h in stale_ok:
            continue
        t1, t2 = knn_reference(metric, qn, _vec_of(exp[h][0]))
        dh = max(t1, t2)
        if not math.isfinite(dh):
            continue
        if kth is None or dh < kth - (1e-3 * (1 + abs(kth)) + (0.045 if metric != "l2" else 0.0)):
            fails.append(("c06-recent-write-missing", i, "document %d is in the recent-write tier at distance %.6g but missing from a "
                          "result of %d (k=%d) whose last distance is %s" % (h, dh, len(res), k, kth)))
            break
    return fails


def _knn_items(line):
    r = line.split(" res=", 1)[1].split(" ")[0]
    return [] if r == "-" else [tuple(int(x) for x in c.split(":")) for c in r.split(",")]


def compare(impl, model):
    """tiered results; k-NN answers are compared up to the (unspecified) order and choice among equal distances:
    same path, same sequence of distance keys, same documents strictly inside the last key"""
    from . import corr
    a, b = corr.strip_amb(impl), corr.strip_amb(model)
    if a == b or b == "unpredicted":
        return True
    if " res=" in a and " res=" in b and a.split(" res=")[0] == b.split(" res=")[0]:
        x, y = _knn_items(a), _knn_items(b)
        if [c[1] for c in x] != [c[1] for c in y]:
            return False
        if not x:
            return True
        last = x[-1][1]
        return sorted(c for c in x if c[1] != last) == sorted(c for c in y if c[1] != last)
    return False


from . import corr as _corr
_corr.COMPARERS["tiered"] = compare


def qcache_oracle(i, f, r, exp, metric, st):
    """C07 on a cacheable search: a CacheHit must be (a prefix of) a result stored earlier for the same scope with
    k' >= k, every document in it must exist now with the distance of its CURRENT vector to that stored query, and no
    document written since the store may lie strictly inside the stored result's distance boundary."""
    fails = []
    if not r.startswith("ok "):
        return fails
    k = int(f["k"]); scope = f.get("scope", "0")
    qn = _vec_of(f["qn"])
    items = _knn_items(r)
    path = r.split("path=")[1].split(" ")[0]
    hotset = set() if f.get("hotset", "-") == "-" else {int(x) for x in f["hotset"].split(",")}
    if path != "CacheHit":
        if items:
            st["stores"].append({"at": i, "scope": scope, "qn": qn, "k": max(k, len(items)), "items": items})
        return fails
    srcs = [s_ for s_ in st["stores"] if s_["k"] >= k and s_["items"][:k] == items]
    same = [s_ for s_ in srcs if s_["scope"] == scope]
    if not same:
        if srcs:
            fails.append(("c07-foreign-scope", i, "CacheHit in scope %s serves a result stored only under scope %s" % (scope, srcs[-1]["scope"])))
        elif any(s_["items"][:len(items)] == items and s_["k"] < k for s_ in st["stores"]):
            fails.append(("c07-wider-k", i, "CacheHit for k=%d serves an entry computed for a smaller k" % k))
        else:
            # results pruned of deleted documents are re-searched, not served; anything else is unexplained
            fails.append(("c07-unexplained-hit", i, "CacheHit result %s is not a prefix of any result the engine stored" % (items[:3],)))
        return fails
    src = same[-1]
    qs = src["qn"]
    worst = max(bits_f32(c[2]) for c in src["items"])
    full = len(src["items"]) >= src["k"]
    for id_, _, bits in items:
        if id_ not in exp:
            fails.append(("c07-deleted-served", i, "CacheHit contains document %d, deleted since the entry was stored" % id_)); continue
        d = bits_f32(bits)
        t1, t2 = knn_reference(metric, qs, _vec_of(exp[id_][0]))
        if min(abs(d - t1), abs(d - t2)) > 5e-4 * (1 + abs(t1)) + (0.025 if metric != "l2" else 0):
            fails.append(("c07-pre-overwrite-distance", i, "CacheHit reports document %d at %.6g; its current vector is at %.6g from the cached query" % (id_, d, t1)))
    served = {c[0] for c in src["items"]}
    for id_, (vb_, _m) in exp.items():
        if id_ in served or st["written_at"].get(id_, -1) <= src["at"]:
            continue
        t1, t2 = knn_reference(metric, qs, _vec_of(vb_))
        cosd, ipd = (t1, t2) if metric == "cos" else (t2, t1)
        fresh = t1 if metric == "l2" else (cosd if id_ in hotset else ipd)      # what a fresh search reports for it now
        if not full or fresh < worst - 5e-4 * (1 + abs(worst)):
            kind = "c07-omits-closer-write"
            if metric != "l2" and not (min(cosd, ipd) < worst - 5e-4 * (1 + abs(worst)) and max(cosd, ipd) < worst - 5e-4 * (1 + abs(worst))):
                kind = "c07-omits-closer-write-band"      # inside only under one of the two tier formulas (2% band)
            fails.append((kind, i, "CacheHit (entry stored at op %d, boundary %.6g, %d/%d results) omits document %d written at op %d, "
                          "which a fresh search reports at %.6g" % (src["at"], worst, len(src["items"]), src["k"], id_, st["written_at"][id_], fresh)))
            break
    return fails


def fields(line):
    parts = line.split(" ")
    return parts[0], dict(p.split("=", 1) for p in parts[1:] if "=" in p)


def parse_meta_hex(s):
    if s in ("-", ""):
        return {}
    return dict(kv.split(":") for kv in s.split("|"))


def canon_meta(d):
    return "-" if not d else "|".join("%s:%s" % (k, d[k]) for k in sorted(d))


def oracle(raw_ops, ann, res):
    """Evaluates C04 (reads return the latest successful write) and C20 (bounds) directly on the
    implementation's outputs.  Returns a list of (kind, op index, message)."""
    fails = []
    cfgop, cf = fields(ann[0])
    cap, hard = int(cf["cap"]), int(cf["hard"])
    dim = int(cf["dim"])
    strat = cf["strat"]
    metric = cf.get("metric", "l2")
    exp = {}            # id -> (vec string, meta dict hex)
    filt_marks = []
    poked_hot = {}      # id -> (vec, meta) for plants the engine may later "repair" from
    hot_keys = []
    stale_mirror = set()     # ids whose hot mirror may legitimately be stale (planted, or overwritten past the hot tier)
    qst = {"stores": [], "written_at": {}}     # C07: results the engine stored in its query cache, last write op per id
    poke_hot_seen = False
    last_write_op = None
    nums = {}
    for i, (a, r) in enumerate(zip(ann, res)):
        op, f = fields(a)
        if "nums" in f and f["nums"] != "-":
            for p in f["nums"].split(";"):
                h, b = p.split(":")
                nums.setdefault(h, int(b))
        if r.startswith("panic"):
            fails.append(("panic", i, r))
            continue
        if op == "knn":
            fails += knn_oracle(i, f, r, exp, metric, stale_mirror)
            if f.get("ef") == "-":
                fails += qcache_oracle(i, f, r, exp, metric, qst)
            continue
        if op in ("insert", "bulk_load"):
            for id_w in ([int(f["id"])] if op == "insert" else [int(rec.split(";")[0]) for rec in f.get("docs", "-").split("/") if rec != "-"]):
                qst["written_at"][id_w] = i
        if op == "bulk_load" and f.get("docs", "-") != "-":
            stale_mirror |= {int(rec.split(";")[0]) for rec in f["docs"].split("/")}
        if op == "poke_hot":
            stale_mirror.add(int(f["id"]))
        if op == "insert" and r == "ok":
            stale_mirror.discard(int(f["id"]))
        if op == "delete_by_filter":
            toks = f["f"].split(",")
            victims = [k for k, (v, m) in exp.items() if match_filter(list(toks), m, nums)]
            if r.isdigit() and not poke_hot_seen and int(r) != len(victims):
                fails.append(("c11-engine", i, "filtered delete reports %s deleted, %d live documents match" % (r, len(victims))))
            pre = dict(exp)
            for k in victims:
                exp.pop(k, None); poked_hot.pop(k, None)
            filt_marks.append((i, set(pre) - set(victims)))
        elif op == "insert":
            id_ = int(f["id"])
            # hard-limit drain may repair planted mirror-only entries first
            if len(hot_keys) >= hard and r != "drain_failed":
                _repairs(exp, poked_hot, hot_keys, dim)
            if r == "ok":
                # the stored vector must be the written one (exact for l2, normalised otherwise)
                raw = fields(raw_ops[i])[1].get("v")
                if not _stored_matches(raw, f["stored"], metric):
                    fails.append(("c04", i, "stored vector is not the written one: %s vs %s" % (raw, f["stored"])))
                exp[id_] = (f["stored"], parse_meta_hex(f["m"]))
                poked_hot.pop(id_, None)
            last_write_op = "insert"
        elif op == "delete":
            id_ = int(f["id"])
            want = "true" if (id_ in exp or id_ in hot_keys) else "false"
            if r != want and not (id_ in poked_hot):
                fails.append(("c04", i, "delete returned %s, expected %s" % (r, want)))
            exp.pop(id_, None)
            poked_hot.pop(id_, None)
        elif op == "batch_delete":
            for x in (f["ids"].split(",") if f["ids"] != "-" else []):
                exp.pop(int(x), None)
                poked_hot.pop(int(x), None)
        elif op == "update":
            id_ = int(f["id"])
            if id_ in exp:
                if r != "true":
                    fails.append(("c04", i, "update of a live document returned %s" % r))
                m = parse_meta_hex(f["m"])
                if f["merge"] == "1":
                    nm = dict(exp[id_][1]); nm.update(m)
                else:
                    nm = m
                exp[id_] = (exp[id_][0], nm)
            elif r != "false":
                fails.append(("c04", i, "update of an absent document returned %s" % r))
        elif op == "bulk_load":
            if f["docs"] != "-":
                for rec in f["docs"].split("/"):
                    j, v, m, acc = rec.split(";")
                    if acc == "1":
                        exp[int(j)] = (v, parse_meta_hex(m))
                    elif acc != "0":
                        fails.append(("harness", i, "ambiguous bulk acceptance"))
        elif op == "flush":
            if r.startswith("ok") and r != "ok 0":
                _repairs(exp, poked_hot, hot_keys, dim)
        elif op == "query":
            id_ = int(f["id"])
            got = None if r.startswith("none") else r.split(" ")[2]
            want = exp.get(id_, (None,))[0]
            if got != want:
                fails.append(("c04", i, "query id=%d returned %s, latest write is %s" % (id_, got, want)))
        elif op == "doc_meta":
            id_ = int(f["id"])
            got = None if r == "none" else tuple(r.split(" ")[1:3])
            want = None if id_ not in exp else (exp[id_][0], canon_meta(exp[id_][1]))
            if got != want:
                fails.append(("c04", i, "doc_meta id=%d returned %s, expected %s" % (id_, got, want)))
        elif op == "emb_aware":
            id_ = int(f["id"])
            got = None if r == "none" else r.split(" ")[1]
            want = exp.get(id_, (None,))[0]
            if got != want:
                fails.append(("c04", i, "emb_aware id=%d returned %s, expected %s" % (id_, got, want)))
        elif op == "get_meta":
            id_ = int(f["id"])
            got = None if r == "none" else r.split(" ")[1]
            want = None if id_ not in exp else canon_meta(exp[id_][1])
            if got != want:
                fails.append(("c04", i, "get_meta id=%d returned %s, expected %s" % (id_, got, want)))
        elif op == "exists":
            id_ = int(f["id"])
            if r != ("true" if id_ in exp else "false"):
                fails.append(("c04", i, "exists id=%d returned %s" % (id_, r)))
        elif op == "bulk_query":
            ids = [int(x) for x in f["ids"].split(",")] if f["ids"] != "-" else []
            items = r[1:-1].split(";") if r != "[]" else []
            for id_, it in zip(ids, items):
                if it == "none":
                    got = None
                else:
                    t, v, m = it.split("~")
                    got = (v, m)
                want = None
                if id_ in exp:
                    want = (exp[id_][0] if f["emb"] == "1" else "-", canon_meta(exp[id_][1]))
                if got != want:
                    fails.append(("c04", i, "bulk_query id=%d returned %s, expected %s" % (id_, got, want)))
        elif op == "poke_hot":
            poke_hot_seen = True
            id_ = int(f["id"])
            if id_ not in exp:
                poked_hot[id_] = (f["v"], parse_meta_hex(f["m"]))
        elif op == "sizes":
            l1a = int(f_get(r, "l1a")); hot = int(f_get(r, "hot"))
            hk = f_get(r, "hot_keys")
            hot_keys = [] if hk == "-" else [int(x) for x in hk.split(",")]
            bound = max(cap, 1)
            if l1a > bound:
                fails.append(("c20-l1a-ab" if strat == "ab" and l1a <= 2 * bound else "c20-l1a", i,
                              "document cache holds %d entries, capacity %d (strategy %s)" % (l1a, cap, strat)))
            if last_write_op == "insert" and not poke_hot_seen and hot > max(hard, 1):
                fails.append(("c20-hot", i, "hot tier holds %d after an insert returned, hard limit %d" % (hot, hard)))
            last_write_op = None
        elif op == "census":
            items = r[1:-1].split(";") if r != "[]" else []
            got = {}
            for it in items:
                j, v, m = it.split("~")
                got[int(j)] = (v, m)
            want = {k: (v, canon_meta(m)) for k, (v, m) in exp.items()}
            if got != want:
                kind = "c11-engine" if filt_marks else "c04"
                fails.append((kind, i, "final census differs from the fold of the write log: %s vs %s" % (got, want)))
    return fails


def f_get(r, k):
    for p in r.split(" "):
        if p.startswith(k + "="):
            return p[len(k) + 1:]
    return None


def _repairs(exp, poked_hot, hot_keys, dim):
    for id_, (v, m) in list(poked_hot.items()):
        if id_ in hot_keys and id_ not in exp:
            n = 0 if v == "-" else len(v.split(","))
            if n == dim:
                exp[id_] = (v, m)
                poked_hot.pop(id_)


def _stored_matches(raw, stored, metric):
    if raw is None:
        return True
    a = [bits_f32(int(x)) for x in raw.split(",")] if raw != "-" else []
    b = [bits_f32(int(x)) for x in stored.split(",")] if stored != "-" else []
    if len(a) != len(b):
        return False
    if metric == "l2":
        return raw == stored
    n = math.sqrt(sum(x * x for x in a))
    if n == 0:
        return False
    for x, y in zip(a, b):
        if abs(x / n - y) > 0.011 * max(1.0, abs(y)):   # the engine keeps inputs with norm² in [0.98,1.02]
            return False
    return True


# ---------------------------------------------------------------------------------------------
# reference semantics of metadata filters (python side of the C11 engine-level oracle)

def _f64(bits):
    import struct
    return struct.unpack("<d", struct.pack("<Q", bits))[0]


def match_filter(toks, meta, nums):
    """toks: Polish token list (consumed); meta: {hexkey: hexval}; nums: {hexstr: f64 bits}"""
    t = toks.pop(0)
    if t == "none":
        return True
    if t == "exact":
        k, v = toks.pop(0), toks.pop(0)
        return meta.get(k) == v
    if t == "in":
        k = toks.pop(0); n = int(toks.pop(0))
        vs = [toks.pop(0) for _ in range(n)]
        return k in meta and meta[k] in vs
    if t == "range":
        k = toks.pop(0); kind = toks.pop(0)
        if kind == "nobound":
            return k in meta
        b = toks.pop(0)
        if k not in meta:
            return False
        val = meta[k]
        if val in nums and b in nums:
            x, y = _f64(nums[val]), _f64(nums[b])
            return {"ge": x >= y, "le": x <= y, "gt": x > y, "lt": x < y}[kind]
        xb, yb = bytes.fromhex(val), bytes.fromhex(b)
        return {"ge": xb >= yb, "le": xb <= yb, "gt": xb > yb, "lt": xb < yb}[kind]
    if t in ("and", "or"):
        n = int(toks.pop(0))
        rs = [match_filter(toks, meta, nums) for _ in range(n)]
        return all(rs) if t == "and" else any(rs)
    if t == "not":
        if toks.pop(0) == "0":
            return False
        return not match_filter(toks, meta, nums)
    raise ValueError("bad filter token " + t)
