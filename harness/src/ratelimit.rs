//! Engine `ratelimit`: the real `RateLimiter` under the virtual monotonic clock.
use crate::proto::*;
use crate::shim::{VCLOCK_NOW, VCLOCK_ON, VCLOCK_READS, VCLOCK_TICK};
use kyrodb_engine::RateLimiter;
use std::io::{BufRead, Write};
use std::sync::atomic::Ordering;

pub fn run() {
    let stdin = std::io::stdin();
    let lines: Vec<String> = stdin.lock().lines().map_while(Result::ok).collect();
    let mut out = std::io::stdout().lock();
    let mut rl: Option<RateLimiter> = None;
    {
        // warm-up: one-off lazy initialisations (parking_lot's hash table reads the clock once)
        let w = RateLimiter::new_with_global(Some(5));
        for i in 0..3 {
            let _ = w.check_limit(&format!("warm{}", i), 5);
            let _ = w.available_tokens("warm0");
        }
    }
    for line in lines {
        let t = line.trim().to_string();
        if t.is_empty() || t.starts_with('#') {
            continue;
        }
        let (op, fs) = split_fields(&t);
        let (ann, res): (String, String) = match op.as_str() {
            "cfg" => {
                let global = field(&fs, "global").and_then(|g| g.parse::<u32>().ok());
                VCLOCK_NOW.store(1_000_000_000, Ordering::SeqCst);
                VCLOCK_TICK.store(nat(&fs, "tick").unwrap_or(0), Ordering::SeqCst);
                VCLOCK_READS.store(0, Ordering::SeqCst);
                VCLOCK_ON.store(true, Ordering::SeqCst);
                rl = Some(RateLimiter::new_with_global(global));
                let reads = VCLOCK_READS.swap(0, Ordering::SeqCst);
                VCLOCK_ON.store(false, Ordering::SeqCst);
                (t.clone(), format!("ok reads={}", reads))
            }
            "advance" => {
                VCLOCK_NOW.fetch_add(nat(&fs, "ns").unwrap_or(0), Ordering::SeqCst);
                (t.clone(), "ok".into())
            }
            "tick" => {
                VCLOCK_TICK.store(nat(&fs, "ns").unwrap_or(0), Ordering::SeqCst);
                (t.clone(), "ok".into())
            }
            "check" => match (&rl, nat(&fs, "t"), nat(&fs, "qps")) {
                (Some(r), Some(tn), Some(qps)) => {
                    VCLOCK_ON.store(true, Ordering::SeqCst);
                    let ok = r.check_limit(&format!("tenant{}", tn), qps as u32);
                    let reads = VCLOCK_READS.swap(0, Ordering::SeqCst);
                    VCLOCK_ON.store(false, Ordering::SeqCst);
                    (t.clone(), format!("{} reads={}", show_bool(ok), reads))
                }
                _ => (t.clone(), "bad-op".into()),
            },
            "avail" => match (&rl, nat(&fs, "t")) {
                (Some(r), Some(tn)) => {
                    VCLOCK_ON.store(true, Ordering::SeqCst);
                    let a = r.available_tokens(&format!("tenant{}", tn));
                    let reads = VCLOCK_READS.swap(0, Ordering::SeqCst);
                    VCLOCK_ON.store(false, Ordering::SeqCst);
                    match a {
                        Some(x) => (t.clone(), format!("{} reads={}", (x * 1_000_000.0).round() as i64, reads)),
                        None => (t.clone(), format!("none reads={}", reads)),
                    }
                }
                _ => (t.clone(), "bad-op".into()),
            },
            _ => (t.clone(), "bad-op".into()),
        };
        let _ = writeln!(out, "> {}", ann);
        let _ = writeln!(out, "< {}", res);
    }
}
