//! Controlled scheduler at lock-acquisition granularity (C05, C08, C09, C14).
//!
//! Managed threads run the REAL engine code, one at a time.  The vendored parking_lot announces
//! every acquisition attempt and release of a `Mutex`/`RwLock` (see vendor/parking_lot
//! `verif_hooks`); an attempt is a scheduling point.  Blocking never happens inside the real lock:
//! a thread whose request the lock model cannot grant stays descheduled until it can (the real
//! lock is therefore always free when the thread proceeds).  Lock model: mutex; reader/writer lock
//! with writer preference (a reader is not admitted while a writer is waiting behind current
//! holders), no reentrancy.  No enabled thread while some are unfinished = DEADLOCK.
use parking_lot::verif_hooks::{self, Hooks, EXCLUSIVE, MUTEX, SHARED, UPGRADABLE, UPGRADE};
use std::cell::Cell;
use std::collections::HashMap;
use std::sync::{Arc, Condvar, Mutex};

#[derive(Clone, Debug, PartialEq)]
enum Status {
    NotStarted,
    Running,
    Wants { addr: usize, kind: u8, try_only: bool },
    Finished,
}

#[derive(Default, Clone, Debug)]
struct LockState {
    excl: Option<usize>,
    shared: Vec<usize>,
    upgradable: Option<usize>,
}

#[derive(Clone, Debug)]
pub enum Event {
    /// thread, lock id (order of first appearance in this execution), kind, locks held by the thread at that moment
    Acquire { t: usize, lock: usize, kind: u8, held: Vec<(usize, u8)> },
    TryFail { t: usize, lock: usize, kind: u8 },
    Release { t: usize, lock: usize, kind: u8 },
    /// harness-level marker (operation invoked / returned)
    Mark { t: usize, text: String },
}

pub struct Choice {
    pub enabled: Vec<usize>,
    pub chosen: usize,
    /// thread that was running when the decision was taken (None at start / after a finish)
    pub current: Option<usize>,
}

struct State {
    status: Vec<Status>,
    current: Option<usize>,
    locks: HashMap<usize, LockState>,
    lock_ids: HashMap<usize, usize>,
    held: Vec<Vec<(usize, u8)>>, // per thread: (lock addr, kind)
    events: Vec<Event>,
    choices: Vec<Choice>,
    prefix: Vec<usize>,
    rng: u64,
    random: bool,
    deadlock: Option<String>,
    abort: bool,
    steps: usize,
}

struct Shared {
    st: Mutex<State>,
    cvs: Vec<Condvar>,
    done: Condvar,
}

thread_local! {
    static TID: Cell<Option<usize>> = const { Cell::new(None) };
}

static ACTIVE: Mutex<Option<Arc<Shared>>> = Mutex::new(None);

/// stable lock names: order of first acquisition during a deterministic single-threaded warm-up
static NAMING: Mutex<Option<Vec<usize>>> = Mutex::new(None);
/// first engine function seen acquiring each named lock (human-readable hint), by name index
pub static NAME_HINTS: Mutex<Vec<String>> = Mutex::new(Vec::new());

fn engine_frame() -> String {
    let bt = std::backtrace::Backtrace::force_capture().to_string();
    for l in bt.lines() {
        let l = l.trim();
        if let Some(i) = l.find("kyrodb_engine::") {
            let f = &l[i + "kyrodb_engine::".len()..];
            return f.split("::h").next().unwrap_or(f).replace(' ', "");
        }
    }
    "?".into()
}

pub fn begin_naming() {
    *NAMING.lock().unwrap_or_else(|e| e.into_inner()) = Some(vec![]);
    verif_hooks::install(&HOOKS);
}

pub fn end_naming() -> Vec<usize> {
    verif_hooks::uninstall();
    NAMING.lock().unwrap_or_else(|e| e.into_inner()).take().unwrap_or_default()
}

fn shared() -> Option<Arc<Shared>> {
    ACTIVE.lock().unwrap_or_else(|e| e.into_inner()).clone()
}

impl State {
    fn lock_id(&mut self, addr: usize) -> usize {
        let n = self.lock_ids.len();
        *self.lock_ids.entry(addr).or_insert(n)
    }

    fn grantable(&self, t: usize, addr: usize, kind: u8) -> bool {
        let ls = self.locks.get(&addr).cloned().unwrap_or_default();
        match kind & 0x0f {
            MUTEX | EXCLUSIVE => ls.excl.is_none() && ls.shared.is_empty() && ls.upgradable.is_none(),
            UPGRADABLE => ls.excl.is_none() && ls.upgradable.is_none(),
            UPGRADE => ls.shared.is_empty(),
            _ => {
                if ls.excl.is_some() {
                    return false;
                }
                // an upgrade in progress already owns the writer bit: no new readers
                if self.status.iter().any(|s| matches!(s, Status::Wants { addr: a, kind: k, .. } if *a == addr && (*k & 0x0f) == UPGRADE)) {
                    return false;
                }
                if kind & 0x10 != 0 {
                    return true; // read_recursive ignores waiting writers
                }
                // writer preference: a writer waiting behind current holders bars new readers
                let holders = !ls.shared.is_empty();
                let writer_waiting = self.status.iter().enumerate().any(|(u, s)| {
                    u != t && matches!(s, Status::Wants { addr: a, kind: k, try_only: false } if *a == addr && matches!(*k & 0x0f, EXCLUSIVE | MUTEX))
                });
                !(holders && writer_waiting)
            }
        }
    }

    fn enabled(&self) -> Vec<usize> {
        let mut v = vec![];
        for (t, s) in self.status.iter().enumerate() {
            match s {
                Status::NotStarted | Status::Running => v.push(t),
                Status::Wants { addr, kind, try_only } => {
                    if *try_only || self.grantable(t, *addr, *kind) {
                        v.push(t)
                    }
                }
                Status::Finished => {}
            }
        }
        v
    }

    /// picks the next thread; None = nobody enabled
    fn pick(&mut self) -> Option<usize> {
        let en = self.enabled();
        if en.is_empty() {
            return None;
        }
        let idx = self.choices.len();
        let chosen = if idx < self.prefix.len() && en.contains(&self.prefix[idx]) {
            self.prefix[idx]
        } else if self.random {
            self.rng ^= self.rng << 13;
            self.rng ^= self.rng >> 7;
            self.rng ^= self.rng << 17;
            en[(self.rng % en.len() as u64) as usize]
        } else {
            // default: keep running the current thread, else the lowest enabled
            match self.current {
                Some(c) if en.contains(&c) => c,
                _ => en[0],
            }
        };
        self.choices.push(Choice { enabled: en, chosen, current: self.current });
        Some(chosen)
    }
}

fn describe_deadlock(st: &State) -> String {
    let mut parts = vec![];
    for (t, s) in st.status.iter().enumerate() {
        if let Status::Wants { addr, kind, .. } = s {
            let id = st.lock_ids.get(addr).copied().unwrap_or(usize::MAX);
            let ls = st.locks.get(addr).cloned().unwrap_or_default();
            let held: Vec<String> = st.held[t]
                .iter()
                .map(|(a, k)| format!("L{}{}", st.lock_ids.get(a).copied().unwrap_or(usize::MAX), kind_ch(*k)))
                .collect();
            parts.push(format!(
                "T{} wants L{}{} (held by excl={:?} shared={:?}) while holding [{}]",
                t,
                id,
                kind_ch(*kind),
                ls.excl,
                ls.shared,
                held.join(",")
            ));
        }
    }
    parts.join("; ")
}

pub fn kind_ch(k: u8) -> &'static str {
    match k & 0x0f {
        MUTEX => "m",
        SHARED => "r",
        UPGRADABLE => "u",
        UPGRADE => "U",
        _ => "w",
    }
}

/// hands the baton to the next thread (called with the state locked by a thread that is about to wait or finish)
fn dispatch(sh: &Shared, st: &mut State) {
    st.steps += 1;
    match st.pick() {
        Some(n) => {
            st.current = Some(n);
            sh.cvs[n].notify_all();
        }
        None => {
            st.current = None;
            if st.status.iter().any(|s| *s != Status::Finished) {
                st.deadlock = Some(describe_deadlock(st));
                st.abort = true;
            }
            sh.done.notify_all();
        }
    }
}

fn hook_before(addr: usize, kind: u8, try_only: bool) -> bool {
    let Some(t) = TID.with(|c| c.get()) else {
        if let Some(v) = NAMING.lock().unwrap_or_else(|e| e.into_inner()).as_mut() {
            if !v.contains(&addr) {
                v.push(addr);
                let mut h = NAME_HINTS.lock().unwrap_or_else(|e| e.into_inner());
                if h.len() < v.len() {
                    h.push(format!("{}[{}]", engine_frame(), kind_ch(kind)));
                }
            }
        }
        return true;
    };
    let Some(sh) = shared() else { return true };
    let mut st = sh.st.lock().unwrap_or_else(|e| e.into_inner());
    if st.abort {
        drop(st);
        // the execution is over (deadlock elsewhere): park this thread for good
        loop {
            std::thread::park();
        }
    }
    st.status[t] = Status::Wants { addr, kind, try_only };
    dispatch(&sh, &mut st);
    loop {
        if st.abort {
            drop(st);
            loop {
                std::thread::park();
            }
        }
        if st.current == Some(t) {
            break;
        }
        st = sh.cvs[t].wait(st).unwrap_or_else(|e| e.into_inner());
    }
    // chosen: grant (or fail the try)
    let lock = st.lock_id(addr);
    if !st.grantable(t, addr, kind) {
        // only possible for a try
        st.status[t] = Status::Running;
        st.events.push(Event::TryFail { t, lock, kind });
        return false;
    }
    let held: Vec<(usize, u8)> = st.held[t].iter().map(|(a, k)| (st.lock_ids.get(a).copied().unwrap_or(usize::MAX), *k)).collect();
    let ls = st.locks.entry(addr).or_default();
    match kind & 0x0f {
        MUTEX | EXCLUSIVE => ls.excl = Some(t),
        UPGRADABLE => ls.upgradable = Some(t),
        UPGRADE => {
            ls.upgradable = None;
            ls.excl = Some(t);
        }
        _ => ls.shared.push(t),
    }
    if kind & 0x0f == UPGRADE {
        if let Some(i) = st.held[t].iter().rposition(|(a, k)| *a == addr && (*k & 0x0f) == UPGRADABLE) {
            st.held[t].remove(i);
        }
        st.held[t].push((addr, EXCLUSIVE));
    } else {
        st.held[t].push((addr, kind));
    }
    st.status[t] = Status::Running;
    st.events.push(Event::Acquire { t, lock, kind, held });
    true
}

fn hook_after(addr: usize, kind: u8) {
    let Some(t) = TID.with(|c| c.get()) else { return };
    let Some(sh) = shared() else { return };
    let mut st = sh.st.lock().unwrap_or_else(|e| e.into_inner());
    let lock = st.lock_id(addr);
    if let Some(ls) = st.locks.get_mut(&addr) {
        match kind & 0x0f {
            MUTEX | EXCLUSIVE => {
                if ls.excl == Some(t) {
                    ls.excl = None;
                }
            }
            UPGRADABLE => {
                if ls.upgradable == Some(t) {
                    ls.upgradable = None;
                }
            }
            _ => {
                if let Some(i) = ls.shared.iter().position(|x| *x == t) {
                    ls.shared.remove(i);
                }
            }
        }
    }
    if let Some(i) = st.held[t].iter().rposition(|(a, k)| *a == addr && (*k & 0x0f) == (kind & 0x0f)) {
        st.held[t].remove(i);
    }
    st.events.push(Event::Release { t, lock, kind });
}

static HOOKS: Hooks = Hooks { before_acquire: hook_before, after_release: hook_after };

pub fn mark(text: String) {
    let Some(t) = TID.with(|c| c.get()) else { return };
    let Some(sh) = shared() else { return };
    let mut st = sh.st.lock().unwrap_or_else(|e| e.into_inner());
    st.events.push(Event::Mark { t, text });
}

pub struct Outcome {
    pub events: Vec<Event>,
    pub choices: Vec<Choice>,
    pub deadlock: Option<String>,
    pub steps: usize,
}

/// Runs the given thread bodies under the scheduler.  `prefix`: choices to replay; afterwards the
/// default policy (stay on the current thread) or, with `seed`, uniformly random choices.
pub fn run(bodies: Vec<Box<dyn FnOnce() + Send + 'static>>, prefix: Vec<usize>, seed: Option<u64>) -> Outcome {
    run_named(bodies, prefix, seed, &[])
}

pub fn run_named(bodies: Vec<Box<dyn FnOnce() + Send + 'static>>, prefix: Vec<usize>, seed: Option<u64>, names: &[usize]) -> Outcome {
    let n = bodies.len();
    let sh = Arc::new(Shared {
        st: Mutex::new(State {
            status: vec![Status::NotStarted; n],
            current: None,
            locks: HashMap::new(),
            lock_ids: names.iter().enumerate().map(|(i, a)| (*a, i)).collect(),
            held: vec![vec![]; n],
            events: vec![],
            choices: vec![],
            prefix,
            rng: seed.unwrap_or(0).wrapping_mul(0x9E37_79B9_7F4A_7C15) | 1,
            random: seed.is_some(),
            deadlock: None,
            abort: false,
            steps: 0,
        }),
        cvs: (0..n).map(|_| Condvar::new()).collect(),
        done: Condvar::new(),
    });
    *ACTIVE.lock().unwrap_or_else(|e| e.into_inner()) = Some(sh.clone());
    verif_hooks::install(&HOOKS);
    let mut handles = vec![];
    for (t, body) in bodies.into_iter().enumerate() {
        let sh2 = sh.clone();
        handles.push(std::thread::spawn(move || {
            TID.with(|c| c.set(Some(t)));
            {
                let mut st = sh2.st.lock().unwrap_or_else(|e| e.into_inner());
                loop {
                    if st.abort {
                        return;
                    }
                    if st.current == Some(t) {
                        break;
                    }
                    st = sh2.cvs[t].wait(st).unwrap_or_else(|e| e.into_inner());
                }
                st.status[t] = Status::Running;
            }
            let r = std::panic::catch_unwind(std::panic::AssertUnwindSafe(body));
            let mut st = sh2.st.lock().unwrap_or_else(|e| e.into_inner());
            if r.is_err() {
                st.events.push(Event::Mark { t, text: "panic".into() });
            }
            st.status[t] = Status::Finished;
            TID.with(|c| c.set(None));
            dispatch(&sh2, &mut st);
        }));
    }
    // start
    {
        let mut st = sh.st.lock().unwrap_or_else(|e| e.into_inner());
        dispatch(&sh, &mut st);
        loop {
            let all_done = st.status.iter().all(|s| *s == Status::Finished);
            if all_done || st.abort {
                break;
            }
            st = sh.done.wait(st).unwrap_or_else(|e| e.into_inner());
        }
    }
    let deadlocked = sh.st.lock().unwrap_or_else(|e| e.into_inner()).deadlock.is_some();
    if !deadlocked {
        for h in handles {
            let _ = h.join();
        }
    } // deadlocked threads stay parked; the process is expected to exit after reporting
    verif_hooks::uninstall();
    *ACTIVE.lock().unwrap_or_else(|e| e.into_inner()) = None;
    let mut st = sh.st.lock().unwrap_or_else(|e| e.into_inner());
    Outcome {
        events: std::mem::take(&mut st.events),
        choices: std::mem::take(&mut st.choices),
        deadlock: st.deadlock.clone(),
        steps: st.steps,
    }
}

/// Stateless DFS over schedules with a preemption bound.  `make` builds fresh thread bodies for
/// every execution; `visit` sees each outcome (return false to stop).  Returns executions run.
pub fn explore(
    make: &mut dyn FnMut() -> Vec<Box<dyn FnOnce() + Send + 'static>>,
    preemption_bound: usize,
    max_runs: usize,
    visit: &mut dyn FnMut(&[usize], &Outcome) -> bool,
) -> usize {
    let mut stack: Vec<Vec<usize>> = vec![vec![]];
    let mut runs = 0;
    while let Some(prefix) = stack.pop() {
        if runs >= max_runs {
            break;
        }
        let out = run(make(), prefix.clone(), None);
        runs += 1;
        let taken: Vec<usize> = out.choices.iter().map(|c| c.chosen).collect();
        let dead = out.deadlock.is_some();
        if !visit(&taken, &out) || dead {
            break;
        }
        // branch at every decision at or after the prefix
        let mut preempt = 0usize;
        for (i, c) in out.choices.iter().enumerate() {
            let was_preemption = matches!(c.current, Some(cur) if c.enabled.contains(&cur) && c.chosen != cur);
            if i >= prefix.len() {
                for &alt in &c.enabled {
                    if alt == c.chosen {
                        continue;
                    }
                    let alt_is_preemption = matches!(c.current, Some(cur) if c.enabled.contains(&cur) && alt != cur);
                    if preempt + alt_is_preemption as usize <= preemption_bound {
                        let mut p: Vec<usize> = taken[..i].to_vec();
                        p.push(alt);
                        stack.push(p);
                    }
                }
            }
            if was_preemption {
                preempt += 1;
            }
        }
    }
    runs
}
