//! `rpc` engine (C10, C14): drives the REAL `kyrodb_server` binary (built from /repo's current tree,
//! path in $KVH_SERVER_BIN) over gRPC with the tonic client generated from the repository's proto,
//! and its HTTP `/usage` endpoint.  Everything the property talks about is on this path: the auth
//! interceptor and start-up recount inside `main`, the id mapper, the reserved keys, the handlers.
//!
//! ops (one per line; `t=` names a tenant of the cfg line, or `none` (no key), `bad` (unknown key),
//! `off` (a disabled key)):
//!   cfg dim=<d> tenants=<name:max_vectors,...> [cap=<n>] [snap=<n>]
//!   start | stop | restart | kill
//!   ins t= id= v= m= ns=          del t= id= ns=         um t= id= m= merge=0|1 ns=
//!   q t= id= ns= emb=0|1          bq t= ids= ns= emb=    bd t= ids= ns=      bdf t= f= ns=
//!   bins t= docs=<id;v;m;ns/...>  bload t= docs=...
//!   search t= q= k= ns= f= emb= ef=   bsearch t= qs=<q/q> k= ns= f=
//!   flush t=     usage t= [scope=all]
//!   probe t=                      how many more vectors the tenant is admitted (quota head-room),
//!                                 measured by inserting fresh ids until refusal, then removing them
use crate::proto::*;
use crate::store::filter_from_field;
use kyrodb_engine::proto as pb;
use kyrodb_engine::proto::kyro_db_service_client::KyroDbServiceClient;
use std::collections::HashMap;
use std::io::{BufRead, Read, Write};
use std::path::PathBuf;
use std::process::{Child, Command, Stdio};
use std::time::{Duration, Instant};
use tonic::transport::Channel;

struct Tenant {
    name: String,
    key: String,
    max_vectors: u64,
    enabled: bool,
    admin: bool,
}

struct World {
    root: PathBuf,
    dim: usize,
    cap: usize,
    sim: String,
    snap: u64,
    tenants: Vec<Tenant>,
    grpc_port: u16,
    http_port: u16,
    child: Option<Child>,
    client: Option<KyroDbServiceClient<Channel>>,
    rt: tokio::runtime::Runtime,
    starts: u32,
    bind_retries: u32,
}

const PROBE_BASE: u64 = 3_000_000_000;

/// ports from a range derived from the process id (concurrent harness processes never ask the kernel
/// for "any free port" at the same time and get the same answer), checked for bindability
fn free_port(slot: u32) -> u16 {
    let mut p = 20000 + ((std::process::id().wrapping_mul(16).wrapping_add(slot)) % 12000) as u16; // below the ephemeral range
    for _ in 0..2000 {
        if std::net::TcpListener::bind(("127.0.0.1", p)).is_ok() {
            return p;
        }
        p = if p >= 31990 { 20000 } else { p + 1 };
    }
    std::net::TcpListener::bind("127.0.0.1:0").unwrap().local_addr().unwrap().port()
}

fn code_name(s: &tonic::Status) -> String {
    format!("err:{:?}", s.code())
}

impl World {
    fn key_of(&self, t: &str) -> Option<String> {
        match t {
            "none" => None,
            "bad" => Some(format!("kyro_zz_{}", "9".repeat(32))),
            _ => self.tenants.iter().find(|x| x.name == t).map(|x| x.key.clone()),
        }
    }

    fn req<T>(&self, t: &str, msg: T) -> tonic::Request<T> {
        let mut r = tonic::Request::new(msg);
        if let Some(k) = self.key_of(t) {
            r.metadata_mut().insert("x-api-key", k.parse().unwrap());
        }
        r.set_timeout(Duration::from_secs(60));
        r
    }

    fn write_config(&self) {
        let keys = self.root.join("api_keys.yaml");
        let mut s = String::from("api_keys:\n");
        for t in &self.tenants {
            s.push_str(&format!(
                "  - key: {}\n    tenant_id: {}\n    tenant_name: {}\n    max_qps: 0\n    max_vectors: {}\n    is_admin: {}\n    enabled: {}\n",
                t.key, t.name, t.name, t.max_vectors, t.admin, t.enabled
            ));
        }
        std::fs::write(&keys, s).unwrap();
        let cfg = format!(
            "server:\n  host: 127.0.0.1\n  port: {gp}\n  http_port: {hp}\n  http_host: 127.0.0.1\n\
             cache:\n  capacity: {cap}\n  enable_training_task: false\n  query_cache_capacity: 16\n  query_cache_similarity_threshold: {sim}\n  min_training_samples: 1\n\
             hnsw:\n  max_elements: 20000\n  dimension: {dim}\n  distance: euclidean\n  ef_search: 200\n\
             persistence:\n  data_dir: {data}\n  fsync_policy: data_only\n  snapshot_interval_mutations: {snap}\n  wal_flush_interval_ms: 50\n\
             logging:\n  level: error\n  file: {log}\n\
             auth:\n  enabled: true\n  api_keys_file: {keys}\n\
             timeouts:\n  cache_ms: 5000\n  hot_tier_ms: 20000\n  cold_tier_ms: 20000\n",
            gp = self.grpc_port,
            hp = self.http_port,
            cap = self.cap,
            sim = self.sim,
            dim = self.dim,
            data = self.root.join("data").display(),
            snap = self.snap,
            log = self.root.join("server.log").display(),
            keys = keys.display(),
        );
        std::fs::write(self.root.join("config.yaml"), cfg).unwrap();
    }

    fn start(&mut self) -> String {
        if self.child.is_some() {
            return "already-running".into();
        }
        self.grpc_port = free_port((self.starts * 2 + self.bind_retries * 6) % 16);
        self.http_port = free_port((self.starts * 2 + 1 + self.bind_retries * 6) % 16);
        self.write_config();
        let bin = std::env::var("KVH_SERVER_BIN").unwrap_or_else(|_| "/verif/harness/target/server/debug/kyrodb_server".into());
        let errlog = std::fs::File::create(self.root.join(format!("stderr.{}.log", self.starts))).unwrap();
        let child = Command::new(bin)
            .arg("--config")
            .arg(self.root.join("config.yaml"))
            .env_remove("KYRODB_PORT")
            .env_remove("KYRODB_DATA_DIR")
            .env_remove("RUST_LOG")
            .stdin(Stdio::null())
            .stdout(Stdio::null())
            .stderr(errlog)
            .spawn();
        let mut child = match child {
            Ok(c) => c,
            Err(e) => return format!("spawn-failed:{e}"),
        };
        self.starts += 1;
        let t0 = Instant::now();
        let addr = format!("http://127.0.0.1:{}", self.grpc_port);
        loop {
            if let Ok(Some(st)) = child.try_wait() {
                // a bind failure (port taken meanwhile) is not an answer of the server about its data
                let log = std::fs::read_to_string(self.root.join(format!("stderr.{}.log", self.starts - 1))).unwrap_or_default();
                if (log.contains("in use") || log.contains("AddrInUse") || log.contains("transport error")) && self.bind_retries < 5 {
                    self.bind_retries += 1;
                    return self.start();
                }
                let why: String = log.lines().find(|l| l.starts_with("Error")).unwrap_or("").chars().filter(|c| !c.is_whitespace()).take(90).collect();
                return format!("exited:{}:{}", st.code().unwrap_or(-1), why);
            }
            if t0.elapsed() > Duration::from_secs(60) {
                let _ = child.kill();
                let _ = child.wait();
                return "start-timeout".into();
            }
            let ch = self.rt.block_on(async { Channel::from_shared(addr.clone()).unwrap().connect().await });
            if let Ok(ch) = ch {
                self.client = Some(KyroDbServiceClient::new(ch));
                break;
            }
            std::thread::sleep(Duration::from_millis(20));
        }
        self.child = Some(child);
        "ok".into()
    }

    fn stop(&mut self, kill: bool) -> String {
        self.client = None;
        let Some(mut c) = self.child.take() else { return "not-running".into() };
        unsafe {
            libc::kill(c.id() as i32, if kill { libc::SIGKILL } else { libc::SIGTERM });
        }
        let t0 = Instant::now();
        loop {
            match c.try_wait() {
                Ok(Some(st)) => return if kill { "ok".into() } else { format!("ok rc={}", st.code().unwrap_or(-1)) },
                Ok(None) => {
                    if t0.elapsed() > Duration::from_secs(60) {
                        let _ = c.kill();
                        let _ = c.wait();
                        return "stop-timeout".into();
                    }
                    std::thread::sleep(Duration::from_millis(10));
                }
                Err(e) => return format!("wait-failed:{e}"),
            }
        }
    }

    fn http_usage(&self, t: &str, all: bool) -> String {
        let mut s = match std::net::TcpStream::connect(("127.0.0.1", self.http_port)) {
            Ok(s) => s,
            Err(_) => return "http-unreachable".into(),
        };
        let _ = s.set_read_timeout(Some(Duration::from_secs(20)));
        let mut req = format!("GET /usage{} HTTP/1.1\r\nHost: 127.0.0.1\r\nConnection: close\r\n", if all { "?scope=all" } else { "" });
        if let Some(k) = self.key_of(t) {
            req.push_str(&format!("x-api-key: {k}\r\n"));
        }
        req.push_str("\r\n");
        if s.write_all(req.as_bytes()).is_err() {
            return "http-unreachable".into();
        }
        let mut buf = String::new();
        let _ = s.read_to_string(&mut buf);
        let status: u32 = buf.split(' ').nth(1).and_then(|x| x.parse().ok()).unwrap_or(0);
        if status != 200 {
            return format!("http:{status}");
        }
        let body = buf.split("\r\n\r\n").nth(1).unwrap_or("");
        // chunked or plain: find the JSON object
        let json = match (body.find('{'), body.rfind('}')) {
            (Some(a), Some(b)) if b > a => &body[a..=b],
            _ => return "http:bad-body".into(),
        };
        let v: serde_json::Value = match serde_json::from_str(json) {
            Ok(v) => v,
            Err(_) => return "http:bad-json".into(),
        };
        let mut parts = vec![];
        if let Some(ts) = v.get("tenants").and_then(|x| x.as_array()) {
            for t in ts {
                parts.push(format!(
                    "{}:vectors={}:inserts={}:deletes={}:queries={}",
                    t.get("tenant_id").and_then(|x| x.as_str()).unwrap_or("?"),
                    t.get("vector_count").and_then(|x| x.as_u64()).unwrap_or(u64::MAX),
                    t.get("insert_count").and_then(|x| x.as_u64()).unwrap_or(u64::MAX),
                    t.get("delete_count").and_then(|x| x.as_u64()).unwrap_or(u64::MAX),
                    t.get("query_count").and_then(|x| x.as_u64()).unwrap_or(u64::MAX),
                ));
            }
        }
        format!("ok total_vectors={} tenants={}",
            v.pointer("/totals/vector_count").and_then(|x| x.as_u64()).unwrap_or(u64::MAX),
            if parts.is_empty() { "-".to_string() } else { parts.join(",") })
    }
}

fn parse_docs(s: &str) -> Option<Vec<pb::InsertRequest>> {
    if s == "-" || s.is_empty() {
        return Some(vec![]);
    }
    s.split('/')
        .map(|d| {
            let p: Vec<&str> = d.split(';').collect();
            if p.len() != 4 {
                return None;
            }
            Some(pb::InsertRequest {
                doc_id: p[0].parse().ok()?,
                embedding: parse_vec(p[1])?,
                metadata: parse_meta(p[2])?,
                namespace: if p[3] == "-" { String::new() } else { unhex(p[3])? },
            })
        })
        .collect()
}

fn ns_field(fs: &Fields) -> Option<String> {
    match field(fs, "ns") {
        None | Some("-") => Some(String::new()),
        Some(h) => unhex(h),
    }
}

fn show_qr(r: &pb::QueryResponse) -> String {
    if r.found {
        format!("{}~1~{}~{}", r.doc_id, show_vec(&r.embedding), show_meta(&r.metadata))
    } else {
        // a not-found answer must carry nothing
        format!("{}~0~{}~{}", r.doc_id, show_vec(&r.embedding), show_meta(&r.metadata))
    }
}

fn show_sr(r: &pb::SearchResponse) -> String {
    let res: Vec<String> = r
        .results
        .iter()
        .map(|x| format!("{}~{}~{}~{}", x.doc_id, x.score.to_bits(), show_vec(&x.embedding), show_meta(&x.metadata)))
        .collect();
    format!("total={} res={}", r.total_found, if res.is_empty() { "-".to_string() } else { res.join(";") })
}

fn step(w: &mut World, line: &str) -> String {
    let (op, fs) = split_fields(line);
    let bad = || "bad-op".to_string();
    match op.as_str() {
        "cfg" => {
            let (Some(dim), Some(ts)) = (nat(&fs, "dim"), field(&fs, "tenants")) else { return bad() };
            w.dim = dim as usize;
            w.cap = nat(&fs, "cap").unwrap_or(64) as usize;
            // 1.0 = exact hits only; the default 0.52 lets a SIMILAR query be answered from another query's entry
            w.sim = field(&fs, "sim").unwrap_or("1.0").to_string();
            w.snap = nat(&fs, "snap").unwrap_or(1000).max(1);
            w.tenants.clear();
            for (i, t) in ts.split(',').enumerate() {
                let mut p = t.split(':');
                let (Some(name), Some(mv)) = (p.next(), p.next().and_then(|x| x.parse().ok())) else { return bad() };
                let flag = p.next().unwrap_or("");
                w.tenants.push(Tenant {
                    name: name.to_string(),
                    key: format!("kyro_{}_{}", name, format!("{:x}", i + 10).repeat(32).chars().take(32).collect::<String>()),
                    max_vectors: mv,
                    enabled: flag != "off",
                    admin: flag == "admin",
                });
            }
            return "ok".into();
        }
        "start" => return w.start(),
        "stop" => return w.stop(false),
        "kill" => return w.stop(true),
        "restart" => {
            let a = w.stop(false);
            if !a.starts_with("ok") {
                return format!("stop:{a}");
            }
            return w.start();
        }
        "fs" => {
            // damage one file of the data directory (server stopped): op=rm|trunc|flip file=MANIFEST|wal:<i>|snap:<i> [at=<byte>]
            if w.child.is_some() {
                return "running".into();
            }
            let data = w.root.join("data");
            let Some(which) = field(&fs, "file") else { return bad() };
            let mut names: Vec<String> = std::fs::read_dir(&data)
                .map(|d| d.flatten().map(|e| e.file_name().to_string_lossy().to_string()).collect())
                .unwrap_or_default();
            names.sort();
            let pick = |prefix: &str, suffix: &str, i: usize| -> Option<String> {
                names.iter().filter(|n| n.starts_with(prefix) && n.ends_with(suffix)).nth(i).cloned()
            };
            let name = if which == "MANIFEST" {
                Some("MANIFEST".to_string())
            } else if let Some(i) = which.strip_prefix("wal:") {
                pick("wal_", ".wal", i.parse().unwrap_or(0))
            } else if let Some(i) = which.strip_prefix("snap:") {
                pick("snapshot_", ".snap", i.parse().unwrap_or(0))
            } else {
                None
            };
            let Some(name) = name else { return "no-such-file".into() };
            let path = data.join(&name);
            if !path.exists() {
                return "no-such-file".into();
            }
            let at = nat(&fs, "at").unwrap_or(0) as usize;
            return match field(&fs, "op") {
                Some("rm") => std::fs::remove_file(&path).map(|_| "ok".to_string()).unwrap_or_else(|e| format!("io:{e}")),
                Some("trunc") => match std::fs::read(&path) {
                    Ok(b) => std::fs::write(&path, &b[..at.min(b.len())]).map(|_| format!("ok len={}", b.len())).unwrap_or_else(|e| format!("io:{e}")),
                    Err(e) => format!("io:{e}"),
                },
                Some("flip") => match std::fs::read(&path) {
                    Ok(mut b) => {
                        if b.is_empty() {
                            return "empty".into();
                        }
                        let i = at % b.len();
                        b[i] ^= 0x01;
                        std::fs::write(&path, &b).map(|_| format!("ok len={}", b.len())).unwrap_or_else(|e| format!("io:{e}"))
                    }
                    Err(e) => format!("io:{e}"),
                },
                _ => bad(),
            };
        }
        "usage" => {
            let Some(t) = field(&fs, "t") else { return bad() };
            return w.http_usage(t, field(&fs, "scope") == Some("all"));
        }
        _ => {}
    }
    let Some(t) = field(&fs, "t").map(|s| s.to_string()) else { return bad() };
    let Some(mut c) = w.client.clone() else { return "not-running".into() };
    let Some(ns) = ns_field(&fs) else { return bad() };
    match op.as_str() {
        "ins" => {
            let (Some(id), Some(v), Some(m)) = (nat(&fs, "id"), vec_field(&fs, "v"), meta_field(&fs, "m")) else { return bad() };
            let r = w.req(&t, pb::InsertRequest { doc_id: id, embedding: v, metadata: m, namespace: ns });
            match w.rt.block_on(c.insert(r)) {
                Ok(x) => {
                    let x = x.into_inner();
                    format!("ok success={} n={} failed={}", x.success as u8, x.total_inserted, x.total_failed)
                }
                Err(e) => code_name(&e),
            }
        }
        "bins" | "bload" => {
            let Some(docs) = field(&fs, "docs").and_then(parse_docs) else { return bad() };
            if op == "bins" {
                let r = w.req(&t, tokio_stream::iter(docs));
                match w.rt.block_on(c.bulk_insert(r)) {
                    Ok(x) => {
                        let x = x.into_inner();
                        format!("ok success={} n={} failed={}", x.success as u8, x.total_inserted, x.total_failed)
                    }
                    Err(e) => code_name(&e),
                }
            } else {
                let r = w.req(&t, tokio_stream::iter(docs));
                match w.rt.block_on(c.bulk_load_hnsw(r)) {
                    Ok(x) => {
                        let x = x.into_inner();
                        format!("ok success={} n={} failed={}", x.success as u8, x.total_loaded, x.total_failed)
                    }
                    Err(e) => code_name(&e),
                }
            }
        }
        "del" => {
            let Some(id) = nat(&fs, "id") else { return bad() };
            let r = w.req(&t, pb::DeleteRequest { doc_id: id, namespace: ns });
            match w.rt.block_on(c.delete(r)) {
                Ok(x) => {
                    let x = x.into_inner();
                    format!("ok success={} existed={}", x.success as u8, x.existed as u8)
                }
                Err(e) => code_name(&e),
            }
        }
        "um" => {
            let (Some(id), Some(m), Some(merge)) = (nat(&fs, "id"), meta_field(&fs, "m"), boolean(&fs, "merge")) else { return bad() };
            let r = w.req(&t, pb::UpdateMetadataRequest { doc_id: id, metadata: m, merge, namespace: ns });
            match w.rt.block_on(c.update_metadata(r)) {
                Ok(x) => {
                    let x = x.into_inner();
                    format!("ok success={} existed={}", x.success as u8, x.existed as u8)
                }
                Err(e) => code_name(&e),
            }
        }
        "q" => {
            let Some(id) = nat(&fs, "id") else { return bad() };
            let r = w.req(&t, pb::QueryRequest { doc_id: id, include_embedding: boolean(&fs, "emb").unwrap_or(true), namespace: ns });
            match w.rt.block_on(c.query(r)) {
                Ok(x) => format!("ok {}", show_qr(&x.into_inner())),
                Err(e) => code_name(&e),
            }
        }
        "bq" => {
            let Some(ids) = nat_list(&fs, "ids") else { return bad() };
            let r = w.req(&t, pb::BulkQueryRequest { doc_ids: ids, include_embeddings: boolean(&fs, "emb").unwrap_or(true), namespace: ns });
            match w.rt.block_on(c.bulk_query(r)) {
                Ok(x) => {
                    let x = x.into_inner();
                    let rs: Vec<String> = x.results.iter().map(show_qr).collect();
                    format!("ok found={} req={} res={}", x.total_found, x.total_requested, if rs.is_empty() { "-".to_string() } else { rs.join(";") })
                }
                Err(e) => code_name(&e),
            }
        }
        "bd" => {
            let Some(ids) = nat_list(&fs, "ids") else { return bad() };
            let r = w.req(&t, pb::BatchDeleteRequest {
                delete_criteria: Some(pb::batch_delete_request::DeleteCriteria::Ids(pb::IdList { doc_ids: ids })),
                namespace: ns,
            });
            match w.rt.block_on(c.batch_delete(r)) {
                Ok(x) => {
                    let x = x.into_inner();
                    format!("ok success={} deleted={}", x.success as u8, x.deleted_count)
                }
                Err(e) => code_name(&e),
            }
        }
        "bdf" => {
            let mut strings = vec![];
            let Some(f) = field(&fs, "f").and_then(|f| filter_from_field(f, &mut strings)) else { return bad() };
            let r = w.req(&t, pb::BatchDeleteRequest {
                delete_criteria: Some(pb::batch_delete_request::DeleteCriteria::Filter(f)),
                namespace: ns,
            });
            match w.rt.block_on(c.batch_delete(r)) {
                Ok(x) => {
                    let x = x.into_inner();
                    format!("ok success={} deleted={}", x.success as u8, x.deleted_count)
                }
                Err(e) => code_name(&e),
            }
        }
        "search" | "bsearch" => {
            let Some(k) = nat(&fs, "k") else { return bad() };
            let mut strings = vec![];
            let filter = match field(&fs, "f") {
                None | Some("-") => None,
                Some(f) => match filter_from_field(f, &mut strings) {
                    Some(x) => Some(x),
                    None => return bad(),
                },
            };
            let mk = |q: Vec<f32>| pb::SearchRequest {
                query_embedding: q,
                k: k as u32,
                min_score: 0.0,
                namespace: ns.clone(),
                include_embeddings: boolean(&fs, "emb").unwrap_or(false),
                filter: filter.clone(),
                ef_search: nat(&fs, "ef").unwrap_or(0) as u32,
                #[allow(deprecated)]
                metadata_filters: HashMap::new(),
            };
            if op == "search" {
                let Some(q) = vec_field(&fs, "q") else { return bad() };
                match w.rt.block_on(c.search(w.req(&t, mk(q)))) {
                    Ok(x) => format!("ok {}", show_sr(&x.into_inner())),
                    Err(e) => code_name(&e),
                }
            } else {
                let Some(qs) = field(&fs, "qs").map(|s| s.split('/').map(parse_vec).collect::<Option<Vec<_>>>()) else { return bad() };
                let Some(qs) = qs else { return bad() };
                let reqs: Vec<pb::SearchRequest> = qs.into_iter().map(mk).collect();
                let r = w.req(&t, tokio_stream::iter(reqs));
                let out = w.rt.block_on(async {
                    let mut st = match c.bulk_search(r).await {
                        Ok(s) => s.into_inner(),
                        Err(e) => return code_name(&e),
                    };
                    let mut parts = vec![];
                    loop {
                        match st.message().await {
                            Ok(Some(m)) => parts.push(if m.error.is_empty() { show_sr(&m) } else { "item-error".to_string() }),
                            Ok(None) => break,
                            Err(e) => {
                                parts.push(code_name(&e));
                                break;
                            }
                        }
                    }
                    format!("ok {}", if parts.is_empty() { "-".to_string() } else { parts.join(" | ") })
                });
                out
            }
        }
        "flush" => {
            let r = w.req(&t, pb::FlushRequest { force: true });
            match w.rt.block_on(c.flush_hot_tier(r)) {
                Ok(x) => {
                    let x = x.into_inner();
                    format!("ok success={} flushed={}", x.success as u8, x.documents_flushed)
                }
                Err(e) => code_name(&e),
            }
        }
        "probe" => {
            // quota head-room: fresh ids until refusal, then remove them again
            let Some(mv) = w.tenants.iter().find(|x| x.name == t).map(|x| x.max_vectors) else { return bad() };
            let mut accepted: Vec<u64> = vec![];
            let mut refusal = String::from("none");
            for i in 0..=(mv + 2) {
                let id = PROBE_BASE + i;
                let r = w.req(&t, pb::InsertRequest { doc_id: id, embedding: (0..w.dim).map(|j| 8.0 + 0.125 * (i as f32) + 0.5 * (j as f32)).collect(), metadata: HashMap::new(), namespace: String::new() });
                match w.rt.block_on(c.insert(r)) {
                    Ok(_) => accepted.push(id),
                    Err(e) => {
                        refusal = format!("{:?}", e.code());
                        break;
                    }
                }
            }
            let mut removed = 0u64;
            for id in &accepted {
                let r = w.req(&t, pb::DeleteRequest { doc_id: *id, namespace: String::new() });
                if let Ok(x) = w.rt.block_on(c.delete(r)) {
                    if x.into_inner().existed {
                        removed += 1;
                    }
                }
            }
            format!("ok room={} refusal={} removed={}", accepted.len(), refusal, removed)
        }
        _ => bad(),
    }
}

pub fn run() {
    let stdin = std::io::stdin();
    let stdout = std::io::stdout();
    let scratch = std::env::var("KVH_SCRATCH")
        .map(PathBuf::from)
        .unwrap_or_else(|_| std::env::temp_dir().join(format!("kvh.{}", std::process::id())));
    let root = scratch.join(format!("rpc.{}", std::process::id()));
    std::fs::create_dir_all(&root).expect("scratch");
    let mut w = World {
        root: root.clone(),
        dim: 4,
        cap: 64,
        sim: "1.0".into(),
        snap: 1000,
        tenants: vec![],
        grpc_port: 0,
        http_port: 0,
        child: None,
        client: None,
        rt: tokio::runtime::Builder::new_multi_thread().worker_threads(2).enable_all().build().unwrap(),
        starts: 0,
        bind_retries: 0,
    };
    for line in stdin.lock().lines() {
        let line = line.unwrap();
        let line = line.trim();
        if line.is_empty() || line.starts_with('#') {
            continue;
        }
        if line == "reset" {
            let _ = w.stop(true);
            let _ = std::fs::remove_dir_all(w.root.join("data"));
            let mut o = stdout.lock();
            writeln!(o, "> reset\n< ok").unwrap();
            o.flush().unwrap();
            continue;
        }
        let res = step(&mut w, line);
        let mut o = stdout.lock();
        writeln!(o, "> {}", line).unwrap();
        writeln!(o, "< {}", res).unwrap();
        o.flush().unwrap();
    }
    let _ = w.stop(true);
    if std::env::var("KVH_KEEP").is_err() {
        let _ = std::fs::remove_dir_all(&root);
    }
}
