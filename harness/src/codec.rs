//! Engine `codec` (C13/C01 byte level): the real WalWriter produces segment files, the real
//! WalReader reads (possibly damaged) bytes.
//!   walgen seed=<n> n=<frames> dim=<d>   -> annotated `wal bytes=<hex>`, result = real reader on the clean file
//!   walbytes bytes=<hex>                 -> annotated `wal bytes=<hex>`, result = real reader on these bytes
use crate::proto::*;
use kyrodb_engine::persistence::{FsyncPolicy, WalEntry, WalOp, WalReader, WalWriter};
use std::collections::HashMap;
use std::io::{BufRead, Write};
use std::path::Path;

fn to_hex(b: &[u8]) -> String {
    if b.is_empty() {
        return "-".into();
    }
    let mut s = String::with_capacity(b.len() * 2);
    for x in b {
        s.push_str(&format!("{:02x}", x));
    }
    s
}

fn from_hex(s: &str) -> Option<Vec<u8>> {
    if s == "-" {
        return Some(vec![]);
    }
    if s.len() % 2 != 0 {
        return None;
    }
    (0..s.len() / 2).map(|i| u8::from_str_radix(&s[2 * i..2 * i + 2], 16).ok()).collect()
}

fn read_real(path: &Path) -> String {
    match WalReader::open(path) {
        Err(_) => "open-err".into(),
        Ok(mut r) => match r.read_all() {
            Err(_) => "read-err".into(),
            Ok(es) => {
                let sizes: Vec<String> = es
                    .iter()
                    .map(|e| bincode::serialized_size(e).unwrap_or(0).to_string())
                    .collect();
                format!(
                    "valid={} corrupted={} sizes={}",
                    r.valid_entries(),
                    r.corrupted_entries(),
                    if sizes.is_empty() { "-".to_string() } else { sizes.join(",") }
                )
            }
        },
    }
}

pub fn run() {
    let stdin = std::io::stdin();
    let stdout = std::io::stdout();
    let mut out = stdout.lock();
    let dir = tempfile::tempdir().expect("tempdir");
    for line in stdin.lock().lines() {
        let Ok(line) = line else { break };
        let t = line.trim();
        if t.is_empty() || t.starts_with('#') {
            continue;
        }
        let (op, fs) = split_fields(t);
        let p = dir.path().join("seg.wal");
        let _ = std::fs::remove_file(&p);
        let (ann, res) = match op.as_str() {
            "walgen" => {
                let seed = nat(&fs, "seed").unwrap_or(0);
                let n = nat(&fs, "n").unwrap_or(1) as usize;
                let dim = nat(&fs, "dim").unwrap_or(2) as usize;
                let mut x = seed.wrapping_mul(0x9E37_79B9_7F4A_7C15) | 1;
                let mut next = || {
                    x ^= x << 13;
                    x ^= x >> 7;
                    x ^= x << 17;
                    x
                };
                {
                    let mut w = WalWriter::create(&p, FsyncPolicy::Never).expect("create wal");
                    for i in 0..n {
                        let r = next();
                        let op = match r % 5 {
                            0 => WalOp::Delete,
                            1 => WalOp::UpdateMetadata,
                            _ => WalOp::Insert,
                        };
                        let mut md = HashMap::new();
                        if r % 3 == 0 {
                            md.insert(format!("k{}", r % 7), format!("v{}", r % 11));
                        }
                        let e = WalEntry {
                            op,
                            doc_id: r % 9,
                            embedding: if matches!(op, WalOp::Insert) {
                                (0..dim).map(|j| ((next() % 1000) as f32) / 10.0 + j as f32).collect()
                            } else {
                                vec![]
                            },
                            metadata: md,
                            seq_no: i as u64 + 1,
                            timestamp: 1_700_000_000 + i as u64,
                        };
                        w.append(&e).expect("append");
                    }
                }
                let bytes = std::fs::read(&p).unwrap_or_default();
                (format!("wal bytes={}", to_hex(&bytes)), read_real(&p))
            }
            "walbytes" => match field(&fs, "bytes").and_then(from_hex) {
                Some(b) => {
                    std::fs::write(&p, &b).expect("write");
                    (format!("wal bytes={}", to_hex(&b)), read_real(&p))
                }
                None => (t.to_string(), "bad-op".into()),
            },
            _ => (t.to_string(), "bad-op".into()),
        };
        let _ = writeln!(out, "> {}", ann);
        let _ = writeln!(out, "< {}", res);
    }
}
