//! Engine `store`: the real `HnswBackend` without persistence — inserts/overwrites/deletes/
//! metadata updates/tombstone compaction, `ids_for_metadata_filter` vs `scan(matches)`.
use crate::proto::*;
use crate::tiered::parse_metric;
use kyrodb_engine::metadata_filter;
use kyrodb_engine::proto::{
    metadata_filter::FilterType, range_match::Bound, AndFilter, ExactMatch, InMatch,
    MetadataFilter, NotFilter, OrFilter, RangeMatch,
};
use kyrodb_engine::HnswBackend;
use std::collections::HashMap;
use std::io::{BufRead, Write};

pub fn parse_filter(toks: &mut std::collections::VecDeque<String>, strings: &mut Vec<String>) -> Option<MetadataFilter> {
    let t = toks.pop_front()?;
    let mut s = |h: String| -> Option<String> {
        let x = unhex(&h)?;
        strings.push(x.clone());
        Some(x)
    };
    let ft = match t.as_str() {
        "none" => None,
        "exact" => {
            let k = s(toks.pop_front()?)?;
            let v = s(toks.pop_front()?)?;
            Some(FilterType::Exact(ExactMatch { key: k, value: v }))
        }
        "range" => {
            let k = s(toks.pop_front()?)?;
            let kind = toks.pop_front()?;
            let bound = match kind.as_str() {
                "nobound" => None,
                "ge" => Some(Bound::Gte(s(toks.pop_front()?)?)),
                "le" => Some(Bound::Lte(s(toks.pop_front()?)?)),
                "gt" => Some(Bound::Gt(s(toks.pop_front()?)?)),
                "lt" => Some(Bound::Lt(s(toks.pop_front()?)?)),
                _ => return None,
            };
            Some(FilterType::Range(RangeMatch { key: k, bound }))
        }
        "in" => {
            let k = s(toks.pop_front()?)?;
            let n: usize = toks.pop_front()?.parse().ok()?;
            let mut vs = vec![];
            for _ in 0..n {
                vs.push(s(toks.pop_front()?)?);
            }
            Some(FilterType::InMatch(InMatch { key: k, values: vs }))
        }
        "and" | "or" => {
            let n: usize = toks.pop_front()?.parse().ok()?;
            let mut fs = vec![];
            for _ in 0..n {
                fs.push(parse_filter(toks, strings)?);
            }
            if t == "and" {
                Some(FilterType::AndFilter(AndFilter { filters: fs }))
            } else {
                Some(FilterType::OrFilter(OrFilter { filters: fs }))
            }
        }
        "not" => {
            let n = toks.pop_front()?;
            if n == "0" {
                Some(FilterType::NotFilter(Box::new(NotFilter { filter: None })))
            } else {
                let f = parse_filter(toks, strings)?;
                Some(FilterType::NotFilter(Box::new(NotFilter {
                    filter: Some(Box::new(f)),
                })))
            }
        }
        _ => return None,
    };
    Some(MetadataFilter { filter_type: ft })
}

pub fn filter_from_field(f: &str, strings: &mut Vec<String>) -> Option<MetadataFilter> {
    let mut toks: std::collections::VecDeque<String> = f.split(',').map(|s| s.to_string()).collect();
    let flt = parse_filter(&mut toks, strings)?;
    if toks.is_empty() {
        Some(flt)
    } else {
        None
    }
}

/// `hex:bits;…` for every string that parses as f64 (the model's `parse` oracle)
pub fn nums_of<'a>(strings: impl Iterator<Item = &'a String>) -> String {
    let mut out: Vec<String> = vec![];
    for s in strings {
        if let Ok(x) = s.parse::<f64>() {
            let e = format!("{}:{}", hex(s), x.to_bits());
            if !out.contains(&e) {
                out.push(e);
            }
        }
    }
    if out.is_empty() {
        "-".into()
    } else {
        out.join(";")
    }
}

pub struct World {
    pub b: HnswBackend,
}

pub fn census(b: &HnswBackend) -> String {
    let mut ids = b.scan(|_| true);
    ids.sort_unstable();
    let parts: Vec<String> = ids
        .iter()
        .map(|&id| {
            let v = b.fetch_document(id).unwrap_or_default();
            let m = b.fetch_metadata(id).unwrap_or_default();
            let ver = b.current_coherence_token(id).map(|t| t.version).unwrap_or(0);
            format!("{}~{}~{}~{}", id, show_vec(&v), show_meta(&m), ver)
        })
        .collect();
    format!("[{}]", parts.join(";"))
}

pub fn step(w: &mut Option<World>, line: &str) -> (String, String) {
    let (op, fs) = split_fields(line);
    let t = line.trim().to_string();
    if op == "cfg" {
        let (Some(dim), Some(cap), Some(metric)) = (
            nat(&fs, "dim"),
            nat(&fs, "cap"),
            field(&fs, "metric").and_then(parse_metric),
        ) else {
            return (t, "bad-op".into());
        };
        return match HnswBackend::new(dim as usize, metric, vec![], vec![], cap as usize) {
            Ok(b) => {
                *w = Some(World { b });
                (t, "ok".into())
            }
            Err(e) => (t, format!("err:{:#}", e)),
        };
    }
    let Some(w) = w.as_mut() else {
        return (t, "bad-op:no-cfg".into());
    };
    let bad = || (line.trim().to_string(), "bad-op".to_string());
    match op.as_str() {
        "insert" => {
            let (Some(id), Some(v), Some(m)) =
                (nat(&fs, "id"), vec_field(&fs, "v"), meta_field(&fs, "m"))
            else {
                return bad();
            };
            let nums = nums_of(m.values());
            match w.b.insert(id, v, m.clone()) {
                Ok(()) => {
                    let stored = w.b.fetch_document(id).unwrap_or_default();
                    (
                        format!(
                            "insert id={} stored={} m={} accept=1 nums={}",
                            id,
                            show_vec(&stored),
                            show_meta(&m),
                            nums
                        ),
                        "ok".into(),
                    )
                }
                Err(e) => {
                    let msg = format!("{:#}", e);
                    if msg.contains("HNSW index full") {
                        (
                            format!("insert id={} stored=- m={} accept=1 nums={}", id, show_meta(&m), nums),
                            "full".into(),
                        )
                    } else if msg.contains("HNSW insert failed after WAL append") {
                        (
                            format!("insert id={} stored=- m={} accept=index nums={}", id, show_meta(&m), nums),
                            "rejected".into(),
                        )
                    } else {
                        (
                            format!("insert id={} stored=- m={} accept=0 nums={}", id, show_meta(&m), nums),
                            "rejected".into(),
                        )
                    }
                }
            }
        }
        "delete" => {
            let Some(id) = nat(&fs, "id") else { return bad() };
            match w.b.delete(id) {
                Ok(b) => (t, show_bool(b).into()),
                Err(e) => (t, format!("err:{:#}", e)),
            }
        }
        "batch_delete" => {
            let Some(ids) = nat_list(&fs, "ids") else { return bad() };
            match w.b.batch_delete(&ids) {
                Ok(n) => (t, n.to_string()),
                Err(e) => (t, format!("err:{:#}", e)),
            }
        }
        "update" => {
            let (Some(id), Some(m), Some(mg)) =
                (nat(&fs, "id"), meta_field(&fs, "m"), boolean(&fs, "merge"))
            else {
                return bad();
            };
            let nums = nums_of(m.values());
            match w.b.update_metadata(id, m.clone(), mg) {
                Ok(b) => (
                    format!("update id={} m={} merge={} nums={}", id, show_meta(&m), mg as u8, nums),
                    show_bool(b).into(),
                ),
                Err(e) => (t, format!("err:{:#}", e)),
            }
        }
        "filter" => {
            let Some(f) = field(&fs, "f") else { return bad() };
            let mut strings = vec![];
            let Some(flt) = filter_from_field(f, &mut strings) else {
                return (t, "bad-op:filter".into());
            };
            let ids = w.b.ids_for_metadata_filter(&flt);
            let n = ids.len();
            let mut sorted = ids.clone();
            sorted.sort_unstable();
            sorted.dedup();
            let mut sc = w.b.scan(|m: &HashMap<String, String>| metadata_filter::matches(&flt, m));
            sc.sort_unstable();
            sc.dedup();
            (
                format!("filter f={} nums={}", f, nums_of(strings.iter())),
                format!(
                    "ids={} n={} scan={}",
                    show_nat_list(&sorted),
                    n,
                    show_nat_list(&sc)
                ),
            )
        }
        "census" => (t, census(&w.b)),
        _ => bad(),
    }
}

pub fn run() {
    let stdin = std::io::stdin();
    let stdout = std::io::stdout();
    let mut out = stdout.lock();
    let mut w: Option<World> = None;
    for line in stdin.lock().lines() {
        let Ok(line) = line else { break };
        let t = line.trim();
        if t.is_empty() || t.starts_with('#') {
            continue;
        }
        let r = std::panic::catch_unwind(std::panic::AssertUnwindSafe(|| step(&mut w, t)));
        match r {
            Ok((ann, res)) => {
                let _ = writeln!(out, "> {}", ann);
                let _ = writeln!(out, "< {}", res);
            }
            Err(_) => {
                let _ = writeln!(out, "> {}", t);
                let _ = writeln!(out, "< panic");
            }
        }
    }
}
