//! Engine `conc`: concurrent programs against the real TieredEngine under the controlled
//! scheduler (`sched.rs`).  One line = one exploration:
//!
//!   explore t0=<op>;<op> t1=<op>;<op> [t2=…] mode=dfs bound=<preemptions> max=<runs> [persist=1]
//!   explore … mode=random seed=<n> max=<runs>
//!   replay  t0=… t1=… schedule=<t,t,t,…>            one execution with the given choices
//!
//! ops:  ins:<id>:<x>      insert id with vector (x, 0…) and metadata {v: x}
//!       del:<id>  q:<id>  dm:<id> (vector+metadata)  bq:<id>,<id> (bulk)  ea:<id>  ex:<id>
//!       um:<id>:<x>  knn:<x>  flush  snap  stats  bd:<id>,<id>
//!
//! Output per exploration: runs, steps, deadlock (with the schedule that reaches it), lock-order
//! edges seen, and — for every distinct history — the completed operations with invocation /
//! response positions and results (checked for linearizability by the caller).
use crate::proto::*;
use crate::sched::{self, Event};
use kyrodb_engine::cache_strategy::LruCacheStrategy;
use kyrodb_engine::config::DistanceMetric;
use kyrodb_engine::persistence::FsyncPolicy;
use kyrodb_engine::tiered_engine::{TieredEngine, TieredEngineConfig};
use kyrodb_engine::QueryHashCache;
use std::collections::{BTreeMap, BTreeSet, HashMap};
use std::io::{BufRead, Write};
use std::sync::{Arc, Mutex};
use std::time::Duration;

const DIM: usize = 2;

/// touches every lock of the engine in a fixed order (ids 90..93 are used and removed again)
const NAMING_WARMUP: &[&str] = &[
    "ins:90:9", "q:90", "dm:90", "bq:90,91", "ea:90", "ex:90", "um:90:8", "knn:9", "stats", "ins:91:7", "flush", "q:90", "snap",
    "ins:92:6", "del:90", "bd:91,92", "knn:1", "q:93", "bl:94:4", "kb:1", "bdf:4",
];

fn vec_of(x: u64) -> Vec<f32> {
    let mut v = vec![0.0f32; DIM];
    v[0] = x as f32;
    v[1] = 1.0;
    v
}

fn meta_of(x: u64) -> HashMap<String, String> {
    let mut m = HashMap::new();
    m.insert("v".to_string(), x.to_string());
    m
}

fn show_opt_vec(v: &Option<Vec<f32>>) -> String {
    match v {
        None => "none".into(),
        Some(v) => format!("{}", v.first().copied().unwrap_or(-1.0) as i64),
    }
}

fn show_meta_v(m: &HashMap<String, String>) -> String {
    m.get("v").cloned().unwrap_or_else(|| "-".into())
}

pub struct Built {
    /// world=rl: the real RateLimiter under a virtual clock that only `adv` ops move
    pub rl: Option<kyrodb_engine::RateLimiter>,
    pub srv: Option<crate::srvinc::drive::Srv>,
    pub engine: Arc<TieredEngine>,
    _dir: Option<tempfile::TempDir>,
}

pub fn build(persist: bool, snap: usize, rot: u64) -> Built {
    let dir = if persist { Some(tempfile::tempdir().expect("tempdir")) } else { None };
    let config = TieredEngineConfig {
        hot_tier_max_size: 4,
        hot_tier_hard_limit: 6,
        hot_tier_max_age: Duration::from_secs(1_000_000),
        hnsw_max_elements: 10_000,
        embedding_dimension: DIM,
        hnsw_distance: DistanceMetric::Euclidean,
        data_dir: dir.as_ref().map(|d| d.path().to_string_lossy().to_string()),
        fsync_policy: FsyncPolicy::Never,
        snapshot_interval: snap,
        max_wal_size_bytes: rot,
        ..Default::default()
    };
    let engine = TieredEngine::new(
        Box::new(LruCacheStrategy::new(4)),
        Arc::new(QueryHashCache::new(8, 0.52)),
        vec![],
        vec![],
        config,
    )
    .expect("engine");
    Built { rl: None, srv: None, engine: Arc::new(engine), _dir: dir }
}

/// world=srv: the real RPC handlers (`srvinc.rs`) over a fresh in-memory engine
pub fn build_srv(limits: &[usize]) -> Built {
    let srv = crate::srvinc::drive::build(limits);
    let engine = crate::srvinc::drive::engine_of(&srv);
    Built { rl: None, srv: Some(srv), engine, _dir: None }
}

/// world=rl (C19): `global=<qps|->`
pub fn build_rl(global: Option<u32>) -> Built {
    use std::sync::atomic::Ordering;
    crate::shim::VCLOCK_NOW.store(1_000_000_000_000, Ordering::SeqCst);
    crate::shim::VCLOCK_TICK.store(0, Ordering::SeqCst);
    crate::shim::VCLOCK_ON.store(true, Ordering::SeqCst);
    let mut b = build(false, 0, 0);
    b.rl = Some(kyrodb_engine::RateLimiter::new_with_global(global));
    b
}

const SRV_WARMUP: &[&str] = &["sins:0:90:9", "sq:0:90", "sum:0:90:8", "sdel:0:90", "sins:0:91:7", "sbd:0:91,92", "sdel:0:93"];

fn apply_any(b: &Built, op: &str) -> String {
    if let Some(rl) = &b.rl {
        use std::sync::atomic::Ordering;
        let p: Vec<&str> = op.split(':').collect();
        return match p[0] {
            // rc:<tenant>:<qps>  -> admitted?@virtual-ns-before,virtual-ns-after
            "rc" => {
                let t0 = crate::shim::VCLOCK_NOW.load(Ordering::SeqCst);
                let r = rl.check_limit(p.get(1).copied().unwrap_or("a"), p.get(2).and_then(|x| x.parse().ok()).unwrap_or(1));
                let t1 = crate::shim::VCLOCK_NOW.load(Ordering::SeqCst);
                format!("{}/{}/{}", r, t0, t1)
            }
            // adv:<ms>  the only thing that moves the clock
            "adv" => {
                let ms: u64 = p.get(1).and_then(|x| x.parse().ok()).unwrap_or(0);
                static CLOCK_LOCK: parking_lot::Mutex<()> = parking_lot::const_mutex(());
                let _g = CLOCK_LOCK.lock();          // a scheduling point of its own
                crate::shim::VCLOCK_NOW.fetch_add(ms * 1_000_000, Ordering::SeqCst);
                "ok".into()
            }
            _ => "bad-op".into(),
        };
    }
    match (&b.srv, op.starts_with('s') && op != "snap" && op != "stats") {
        (Some(s), true) => crate::srvinc::drive::apply(s, op),
        _ => apply(&b.engine, op),
    }
}

/// one operation on the engine; returns its result in canonical text
pub fn apply(e: &TieredEngine, op: &str) -> String {
    let parts: Vec<&str> = op.split(':').collect();
    let id = |i: usize| -> u64 { parts.get(i).and_then(|s| s.parse().ok()).unwrap_or(0) };
    let ids = |i: usize| -> Vec<u64> { parts.get(i).map(|s| s.split(',').filter_map(|x| x.parse().ok()).collect()).unwrap_or_default() };
    match parts[0] {
        "ins" => match e.insert(id(1), vec_of(id(2)), meta_of(id(2))) {
            Ok(()) => "ok".into(),
            Err(_) => "err".into(),
        },
        "del" => match e.delete(id(1)) {
            Ok(b) => b.to_string(),
            Err(_) => "err".into(),
        },
        "q" => show_opt_vec(&e.query(id(1), None)),
        "ea" => show_opt_vec(&e.get_embedding_cache_aware(id(1))),
        "ex" => e.exists(id(1)).to_string(),
        "dm" => match e.get_document_with_metadata(id(1)) {
            None => "none".into(),
            Some((v, m)) => format!("{}/{}", show_opt_vec(&Some(v)), show_meta_v(&m)),
        },
        "bq" => {
            let r = e.bulk_query(&ids(1), true);
            r.iter()
                .map(|x| match x {
                    None => "none".to_string(),
                    Some((v, m)) => format!("{}/{}", show_opt_vec(&Some(v.clone())), show_meta_v(m)),
                })
                .collect::<Vec<_>>()
                .join(",")
        }
        "um" => match e.update_metadata(id(1), meta_of(id(2)), false) {
            Ok(b) => b.to_string(),
            Err(_) => "err".into(),
        },
        "knn" => match e.knn_search(&vec_of(id(1)), 2) {
            Ok(r) => r.iter().map(|x| x.doc_id.to_string()).collect::<Vec<_>>().join(","),
            Err(_) => "err".into(),
        },
        // a query with components inside (-1, 1): the query cache's 16-bit quantised hash tells kn:1 from kn:2, so the
        // second one is answered by the similarity scan (find_similar_query), not by the exact-hash lookup
        "kn" => match e.knn_search(&[id(1) as f32 / 16.0, 0.5], 2) {
            Ok(r) => r.iter().map(|x| x.doc_id.to_string()).collect::<Vec<_>>().join(","),
            Err(_) => "err".into(),
        },
        // the same query answered WITHOUT the query cache (an explicit ef makes a search non-cacheable)
        "kf" => match e.knn_search_with_ef(&[id(1) as f32 / 16.0, 0.5], 2, Some(64)) {
            Ok(r) => r.iter().map(|x| x.doc_id.to_string()).collect::<Vec<_>>().join(","),
            Err(_) => "err".into(),
        },
        // the background ticker's call: drain only if the recent-write tier says it needs it
        "nf" => match e.flush_hot_tier(false) {
            Ok(n) => n.to_string(),
            Err(_) => "err".into(),
        },
        "flush" => match e.flush_hot_tier(true) {
            Ok(n) => n.to_string(),
            Err(_) => "err".into(),
        },
        "snap" => match e.cold_tier().create_snapshot() {
            Ok(()) => "ok".into(),
            Err(_) => "err".into(),
        },
        "stats" => {
            let s = e.stats();
            format!("{}", s.cold_tier_size)
        }
        "bd" => match e.batch_delete(&ids(1)) {
            Ok(n) => n.to_string(),
            Err(_) => "err".into(),
        },
        "bdf" => {
            // batch delete by metadata filter {v = x}
            let f = kyrodb_engine::proto::MetadataFilter {
                filter_type: Some(kyrodb_engine::proto::metadata_filter::FilterType::Exact(kyrodb_engine::proto::ExactMatch {
                    key: "v".into(),
                    value: id(1).to_string(),
                })),
            };
            match e.batch_delete_by_metadata_filter(&f) {
                Ok(n) => n.to_string(),
                Err(_) => "err".into(),
            }
        }
        "bl" => match e.bulk_load_cold_tier(vec![(id(1), vec_of(id(2)), meta_of(id(2)))]) {
            Ok((loaded, _, _, _)) => loaded.to_string(),
            Err(_) => "err".into(),
        },
        "kb" => match e.knn_search_batch_with_ef(&[vec_of(id(1)), vec_of(id(1) + 1)], 2, None) {
            Ok(r) => r.iter().map(|x| x.len().to_string()).collect::<Vec<_>>().join(","),
            Err(_) => "err".into(),
        },
        _ => "bad-op".into(),
    }
}

struct Program {
    rl: Option<Option<u32>>,
    limits: Option<Vec<usize>>,
    threads: Vec<Vec<String>>,
    persist: bool,
    snap: usize,
    rot: u64,
    warm: Vec<String>,
    /// operations a sequential observer runs once every thread has returned (C07: a cacheable search against a fresh one)
    post: Vec<String>,
    /// cold=1: the naming warm-up leaves out its drain and its snapshot, so the recent-write tier has never been flushed
    cold: bool,
}

fn parse_program(fs: &Fields) -> Program {
    let mut threads = vec![];
    for i in 0..4 {
        if let Some(t) = field(fs, &format!("t{}", i)) {
            threads.push(t.split(';').map(|s| s.to_string()).collect());
        }
    }
    let limits = field(fs, "limits").map(|s| s.split(',').filter_map(|x| x.parse().ok()).collect::<Vec<usize>>());
    let default_warm: Vec<String> = if limits.is_some() { vec![] } else { vec!["ins:1:1".into(), "ins:2:2".into(), "q:1".into(), "flush".into(), "ins:2:3".into()] };
    let rl = field(fs, "rl").map(|g| g.parse::<u32>().ok());
    let default_warm: Vec<String> = if rl.is_some() { vec![] } else { default_warm };
    Program {
        rl,
        limits,
        threads,
        persist: boolean(fs, "persist").unwrap_or(false),
        snap: nat(fs, "snap").unwrap_or(0) as usize,
        rot: nat(fs, "rot").unwrap_or(0),
        warm: field(fs, "warm").map(|s| s.split(';').map(|x| x.to_string()).collect()).unwrap_or(default_warm),
        post: field(fs, "post").map(|s| s.split(';').map(|x| x.to_string()).collect()).unwrap_or_default(),
        cold: boolean(fs, "cold").unwrap_or(false),
    }
}

type Hist = Arc<Mutex<Vec<(usize, usize, String, String)>>>; // (thread, op index, op, result)

fn bodies(p: &Program, built: &Arc<Built>, hist: &Hist) -> Vec<Box<dyn FnOnce() + Send + 'static>> {
    let mut v: Vec<Box<dyn FnOnce() + Send + 'static>> = vec![];
    for (t, ops) in p.threads.iter().enumerate() {
        let e = built.clone();
        let ops = ops.clone();
        let h = hist.clone();
        v.push(Box::new(move || {
            for (i, op) in ops.iter().enumerate() {
                sched::mark(format!("inv {} {}", i, op));
                let r = apply_any(&e, op);
                sched::mark(format!("ret {} {}", i, r));
                h.lock().unwrap().push((t, i, op.clone(), r));
            }
        }));
    }
    v
}

/// history text: per completed op  t.i:op=>result@inv-ret   (positions in the event sequence)
fn history_text(events: &[Event]) -> String {
    let mut inv: BTreeMap<(usize, usize), (usize, String)> = BTreeMap::new();
    let mut out = vec![];
    for (pos, e) in events.iter().enumerate() {
        if let Event::Mark { t, text } = e {
            let mut it = text.splitn(3, ' ');
            let (kind, i, rest) = (it.next().unwrap_or(""), it.next().unwrap_or("0").parse::<usize>().unwrap_or(0), it.next().unwrap_or(""));
            if kind == "inv" {
                inv.insert((*t, i), (pos, rest.to_string()));
            } else if kind == "ret" {
                if let Some((p0, op)) = inv.get(&(*t, i)) {
                    out.push(format!("{}.{}:{}=>{}@{}-{}", t, i, op, rest, p0, pos));
                }
            }
        }
    }
    out.join("|")
}

fn edges_of(events: &[Event], edges: &mut BTreeSet<String>) {
    for e in events {
        if let Event::Acquire { lock, kind, held, .. } = e {
            for (h, hk) in held {
                edges.insert(format!("L{}{}>L{}{}", h, sched::kind_ch(*hk), lock, sched::kind_ch(*kind)));
            }
        }
    }
}

pub fn run() {
    let stdin = std::io::stdin();
    let stdout = std::io::stdout();
    for line in stdin.lock().lines() {
        let Ok(line) = line else { break };
        let t = line.trim();
        if t.is_empty() || t.starts_with('#') {
            continue;
        }
        let (op, fs) = split_fields(t);
        let res = match op.as_str() {
            "explore" | "replay" => {
                let p = parse_program(&fs);
                let mode = field(&fs, "mode").unwrap_or("dfs").to_string();
                let bound = nat(&fs, "bound").unwrap_or(1) as usize;
                let max = nat(&fs, "max").unwrap_or(200) as usize;
                let seed = nat(&fs, "seed").unwrap_or(1);
                let mut edges: BTreeSet<String> = BTreeSet::new();
                let mut histories: BTreeMap<String, (usize, String)> = BTreeMap::new();
                let mut deadlock: Option<(String, Vec<usize>)> = None;
                let mut steps = 0usize;
                let mut runs = 0usize;
                let mut keep: Vec<Arc<Built>> = vec![];
                let mut finals: BTreeSet<String> = BTreeSet::new();
                let mut one = |prefix: Vec<usize>, rnd: Option<u64>| -> (sched::Outcome, String) {
                    let built = Arc::new(match (&p.rl, &p.limits) {
                        (Some(g), _) => build_rl(*g),
                        (None, Some(l)) => build_srv(l),
                        (None, None) => build(p.persist, p.snap, p.rot),
                    });
                    // deterministic warm-up: names every lock by first acquisition and leaves documents 1 and 2 behind
                    sched::begin_naming();
                    for w in NAMING_WARMUP {
                        if p.cold && matches!(*w, "flush" | "snap" | "bl:94:4") {
                            continue;
                        }
                        let _ = apply(&built.engine, w);
                    }
                    if built.srv.is_some() {
                        for w in SRV_WARMUP {
                            let _ = apply_any(&built, w);
                        }
                    }
                    for w in &p.warm {
                        let _ = apply_any(&built, w);
                    }
                    let names = sched::end_naming();
                    let hist: Hist = Arc::new(Mutex::new(vec![]));
                    let out = sched::run_named(bodies(&p, &built, &hist), prefix, rnd, &names);
                    let fin = if built.rl.is_some() {
                        crate::shim::VCLOCK_ON.store(false, std::sync::atomic::Ordering::SeqCst);
                        "-".to_string()
                    } else if out.deadlock.is_none() && built.srv.is_some() {
                        crate::srvinc::drive::final_state(built.srv.as_ref().unwrap())
                    } else if out.deadlock.is_none() {
                        // final state as a sequential observer sees it
                        let mut ids: Vec<u64> = built.engine.cold_tier().scan(|_| true);
                        ids.sort_unstable();
                        let live = ids.iter().map(|id| format!("{}={}", id, apply(&built.engine, &format!("dm:{}", id)))).collect::<Vec<_>>().join(",");
                        let live = if p.post.is_empty() {
                            live
                        } else {
                            format!("{};post;{}", live, p.post.iter().map(|o| format!("{}=>{}", o, apply(&built.engine, o))).collect::<Vec<_>>().join("!"))
                        };
                        // C09: once every call has returned, a restart from the data directory must yield exactly this
                        match &built._dir {
                            Some(d) if p.persist => {
                                let rec = kyrodb_engine::HnswBackend::recover(
                                    DIM,
                                    DistanceMetric::Euclidean,
                                    d.path(),
                                    10_000,
                                    FsyncPolicy::Never,
                                    0,
                                    0,
                                    kyrodb_engine::metrics::MetricsCollector::new(),
                                );
                                let r = match rec {
                                    Ok(b) => {
                                        let mut ids: Vec<u64> = b.scan(|_| true);
                                        ids.sort_unstable();
                                        ids.iter()
                                            .map(|id| {
                                                let v = b.fetch_document(*id).unwrap_or_default();
                                                let m = b.fetch_metadata(*id).unwrap_or_default();
                                                format!("{}={}/{}", id, show_opt_vec(&Some(v)), show_meta_v(&m))
                                            })
                                            .collect::<Vec<_>>()
                                            .join(",")
                                    }
                                    Err(e) => format!("ERR:{}", format!("{:#}", e).replace([' ', ',', '#', '~'], "_").chars().take(80).collect::<String>()),
                                };
                                format!("{};rec;{}", live, r)
                            }
                            _ => live,
                        }
                    } else {
                        "deadlock".to_string()
                    };
                    if out.deadlock.is_some() {
                        keep.push(built); // threads are parked inside the engine: never drop it
                    }
                    (out, fin)
                };
                if op == "replay" {
                    let sch: Vec<usize> = field(&fs, "schedule").map(|s| s.split(',').filter_map(|x| x.parse().ok()).collect()).unwrap_or_default();
                    let (out, fin) = one(sch, None);
                    if std::env::var("KVH_TRACE_EVENTS").is_ok() {
                        for e in &out.events {
                            match e {
                                Event::Acquire { t, lock, kind, .. } => eprintln!("EV T{} acquire L{}{}", t, lock, sched::kind_ch(*kind)),
                                Event::Release { t, lock, kind } => eprintln!("EV T{} release L{}{}", t, lock, sched::kind_ch(*kind)),
                                Event::TryFail { t, lock, kind } => eprintln!("EV T{} tryfail L{}{}", t, lock, sched::kind_ch(*kind)),
                                Event::Mark { t, text } => eprintln!("EV T{} mark {}", t, text),
                            }
                        }
                    }
                    runs = 1;
                    steps = out.steps;
                    edges_of(&out.events, &mut edges);
                    histories.insert(history_text(&out.events), (1, fin));
                    if let Some(d) = out.deadlock {
                        deadlock = Some((d, out.choices.iter().map(|c| c.chosen).collect()));
                    }
                } else if mode == "random" {
                    for r in 0..max {
                        let (out, fin) = one(vec![], Some(seed.wrapping_mul(1_000_003).wrapping_add(r as u64)));
                        runs += 1;
                        steps += out.steps;
                        edges_of(&out.events, &mut edges);
                        let e = histories.entry(history_text(&out.events)).or_insert((0, fin.clone()));
                        e.0 += 1;
                        finals.insert(fin);
                        if let Some(d) = out.deadlock {
                            deadlock = Some((d, out.choices.iter().map(|c| c.chosen).collect()));
                            break;
                        }
                    }
                } else {
                    // stateless DFS with preemption bound
                    let mut stack: Vec<Vec<usize>> = vec![vec![]];
                    while let Some(prefix) = stack.pop() {
                        if runs >= max {
                            break;
                        }
                        let (out, fin) = one(prefix.clone(), None);
                        runs += 1;
                        steps += out.steps;
                        edges_of(&out.events, &mut edges);
                        let e = histories.entry(history_text(&out.events)).or_insert((0, fin.clone()));
                        e.0 += 1;
                        // debugging aid: KVH_TRACE_FINAL=<substring> prints the schedule of every run whose final state contains it
                        if let Ok(pat) = std::env::var("KVH_TRACE_FINAL") {
                            if fin.contains(&pat) {
                                eprintln!("TRACE final={} schedule={}", fin, out.choices.iter().map(|c| c.chosen.to_string()).collect::<Vec<_>>().join(","));
                            }
                        }
                        finals.insert(fin);
                        let taken: Vec<usize> = out.choices.iter().map(|c| c.chosen).collect();
                        if let Some(d) = out.deadlock {
                            deadlock = Some((d, taken));
                            break;
                        }
                        let mut preempt = 0usize;
                        for (i, c) in out.choices.iter().enumerate() {
                            let was = matches!(c.current, Some(cur) if c.enabled.contains(&cur) && c.chosen != cur);
                            if i >= prefix.len() {
                                for &alt in &c.enabled {
                                    if alt == c.chosen {
                                        continue;
                                    }
                                    let altp = matches!(c.current, Some(cur) if c.enabled.contains(&cur) && alt != cur);
                                    if preempt + altp as usize <= bound {
                                        let mut np: Vec<usize> = taken[..i].to_vec();
                                        np.push(alt);
                                        stack.push(np);
                                    }
                                }
                            }
                            if was {
                                preempt += 1;
                            }
                        }
                    }
                }
                let hs: Vec<String> = histories.iter().map(|(h, (n, fin))| format!("{}#{}#{}", n, h, fin)).collect();
                let hints = sched::NAME_HINTS.lock().unwrap().iter().enumerate().map(|(i, h)| format!("L{}={}", i, h)).collect::<Vec<_>>().join(",");
                format!(
                    "runs={} steps={} locks={} deadlock={} schedule={} edges={} histories={}",
                    runs,
                    steps,
                    hints,
                    deadlock.as_ref().map(|d| d.0.replace(' ', "_")).unwrap_or_else(|| "-".into()),
                    deadlock.as_ref().map(|d| d.1.iter().map(|x| x.to_string()).collect::<Vec<_>>().join(",")).unwrap_or_else(|| "-".into()),
                    if edges.is_empty() { "-".to_string() } else { edges.iter().cloned().collect::<Vec<_>>().join(",") },
                    hs.join("~")
                )
            }
            _ => "bad-op".into(),
        };
        let mut o = stdout.lock();
        let _ = writeln!(o, "> {}", t);
        let _ = writeln!(o, "< {}", res);
        let _ = o.flush();
        if res.contains("deadlock=T") {
            // managed threads are parked forever: leave through the back door
            std::process::exit(0);
        }
    }
}
