//! `periodic` engine (C01, periodic-fsync clause): a TieredEngine with persistence under
//! FsyncPolicy::Periodic, a virtual monotonic clock, the server's periodic timer body replayed call by
//! call (the list of calls is extracted from kyrodb_server.rs by the check), and the power-loss model
//! of persist.rs over the logged file-system effects.
//!
//!   cfg interval=<ms> [rot=<bytes>] [snap=<mutations>]
//!   ins id=<n> x=<n> | del id=<n>           -> ok t=<virtual ms at acknowledgement>
//!   advance ms=<n>
//!   restart                                  -> clean stop (shutdown flush, drop) + strict start-up on the directory
//!   timer calls=<flush_hot_tier:false,cold_tier.sync_wal,...>
//!   ploss                                    -> ok now=<ms> states=<census>#<census>…  (every directory a power
//!                                               failure now may leave, recovered strictly by the real code)
use crate::persist::{materialise, PowerLoss};
use crate::proto::*;
use crate::shim::{self, VCLOCK_NOW, VCLOCK_ON, VCLOCK_TICK};
use kyrodb_engine::cache_strategy::LruCacheStrategy;
use kyrodb_engine::config::DistanceMetric;
use kyrodb_engine::metrics::MetricsCollector;
use kyrodb_engine::persistence::FsyncPolicy;
use kyrodb_engine::tiered_engine::{TieredEngine, TieredEngineConfig};
use kyrodb_engine::{HnswBackend, QueryHashCache};
use std::collections::{BTreeMap, HashMap};
use std::io::{BufRead, Write};
use std::path::PathBuf;
use std::sync::atomic::Ordering;
use std::sync::Arc;
use std::time::Duration;

struct World {
    root: PathBuf,
    dir: PathBuf,
    cfg: Option<TieredEngineConfig>,
    engine: Option<TieredEngine>,
    pl: PowerLoss,
    n: usize,
}

fn now_ms() -> u64 {
    VCLOCK_NOW.load(Ordering::SeqCst) / 1_000_000
}

fn census(b: &HnswBackend) -> String {
    let mut ids: Vec<u64> = b.scan(|_| true);
    ids.sort_unstable();
    let parts: Vec<String> = ids
        .iter()
        .map(|id| format!("{}:{}", id, b.fetch_document(*id).and_then(|v| v.first().copied()).unwrap_or(-1.0) as i64))
        .collect();
    format!("[{}]", parts.join(","))
}

fn step(w: &mut World, line: &str) -> String {
    let (op, fs) = split_fields(line);
    match op.as_str() {
        "cfg" => {
            let Some(interval) = nat(&fs, "interval") else { return "bad-op".into() };
            w.engine = None;
            let _ = std::fs::remove_dir_all(&w.dir);
            std::fs::create_dir_all(&w.dir).expect("mkdir");
            VCLOCK_NOW.store(1_000_000_000_000, Ordering::SeqCst);
            VCLOCK_TICK.store(0, Ordering::SeqCst);
            VCLOCK_ON.store(true, Ordering::SeqCst);
            shim::watch(Some(&w.dir.to_string_lossy()));
            w.pl = PowerLoss::default();
            let config = TieredEngineConfig {
                hot_tier_max_size: 64,
                hot_tier_hard_limit: 128,
                hot_tier_max_age: Duration::from_secs(1_000_000),
                hnsw_max_elements: 10_000,
                embedding_dimension: 2,
                hnsw_distance: DistanceMetric::Euclidean,
                data_dir: Some(w.dir.to_string_lossy().to_string()),
                fsync_policy: FsyncPolicy::Periodic(interval),
                snapshot_interval: nat(&fs, "snap").unwrap_or(0) as usize,
                max_wal_size_bytes: nat(&fs, "rot").unwrap_or(0),
                ..Default::default()
            };
            w.cfg = Some(config.clone());
            match TieredEngine::new(Box::new(LruCacheStrategy::new(8)), Arc::new(QueryHashCache::new(8, 0.9)), vec![], vec![], config) {
                Ok(e) => {
                    w.engine = Some(e);
                    "ok".into()
                }
                Err(e) => format!("err:{e}"),
            }
        }
        "ins" => {
            let (Some(e), Some(id), Some(x)) = (w.engine.as_ref(), nat(&fs, "id"), nat(&fs, "x")) else { return "bad-op".into() };
            let mut md = HashMap::new();
            md.insert("v".to_string(), x.to_string());
            match e.insert(id, vec![x as f32, 1.0], md) {
                Ok(()) => format!("ok t={}", now_ms()),
                Err(_) => "err".into(),
            }
        }
        "del" => {
            let (Some(e), Some(id)) = (w.engine.as_ref(), nat(&fs, "id")) else { return "bad-op".into() };
            match e.delete(id) {
                Ok(b) => format!("ok t={} existed={}", now_ms(), b as u8),
                Err(_) => "err".into(),
            }
        }
        // clean stop as the server does it (final flush_hot_tier(true), then the engine is dropped) and start-up on the
        // same directory (TieredEngine::recover, strict)
        "restart" => {
            let Some(cfg) = w.cfg.clone() else { return "bad-op".into() };
            if let Some(e) = w.engine.take() {
                let _ = e.flush_hot_tier(true);
                drop(e);
            }
            match TieredEngine::recover(Box::new(LruCacheStrategy::new(8)), Arc::new(QueryHashCache::new(8, 0.9)), &w.dir, cfg) {
                Ok(e) => {
                    w.engine = Some(e);
                    format!("ok t={}", now_ms())
                }
                Err(e) => format!("err:{}", format!("{:#}", e).replace(' ', "_").chars().take(80).collect::<String>()),
            }
        }
        "advance" => {
            let Some(ms) = nat(&fs, "ms") else { return "bad-op".into() };
            VCLOCK_NOW.fetch_add(ms * 1_000_000, Ordering::SeqCst);
            format!("ok now={}", now_ms())
        }
        "timer" => {
            let Some(e) = w.engine.as_ref() else { return "bad-op".into() };
            let mut outs = vec![];
            for c in field(&fs, "calls").unwrap_or("-").split(',').filter(|c| !c.is_empty() && *c != "-") {
                let r = match c {
                    "flush_hot_tier:false" => e.flush_hot_tier(false).map(|n| n.to_string()).unwrap_or_else(|_| "err".into()),
                    "flush_hot_tier:true" => e.flush_hot_tier(true).map(|n| n.to_string()).unwrap_or_else(|_| "err".into()),
                    "cold_tier.sync_wal" => e.cold_tier().sync_wal().map(|_| "synced".to_string()).unwrap_or_else(|_| "err".into()),
                    _ => return format!("unknown-timer-call:{c}"),
                };
                outs.push(r);
            }
            format!("ok {}", outs.join(","))
        }
        "ploss" => {
            for e in shim::take_log() {
                w.pl.apply(&e);
            }
            let mut states: Vec<String> = vec![];
            for st in w.pl.states() {
                w.n += 1;
                let d = w.root.join("crash");
                materialise(&st, &d);
                let o = match HnswBackend::recover(2, DistanceMetric::Euclidean, &d, 10_000, FsyncPolicy::Never, 0, 0, MetricsCollector::new()) {
                    Ok(b) => census(&b),
                    Err(e) => format!("err:{}", format!("{:#}", e).replace([' ', '#'], "_").chars().take(60).collect::<String>()),
                };
                if !states.contains(&o) {
                    states.push(o);
                }
            }
            format!("ok now={} states={}", now_ms(), states.join("#"))
        }
        _ => "bad-op".into(),
    }
}

pub fn run() {
    let stdin = std::io::stdin();
    let stdout = std::io::stdout();
    let scratch = std::env::var("KVH_SCRATCH")
        .map(PathBuf::from)
        .unwrap_or_else(|_| std::env::temp_dir().join(format!("kvh.{}", std::process::id())));
    let root = scratch.join(format!("periodic.{}", std::process::id()));
    std::fs::create_dir_all(&root).expect("scratch");
    let mut w = World { dir: root.join("data"), root: root.clone(), cfg: None, engine: None, pl: PowerLoss::default(), n: 0 };
    for line in stdin.lock().lines() {
        let line = line.unwrap();
        let t = line.trim();
        if t.is_empty() || t.starts_with('#') {
            continue;
        }
        let r = step(&mut w, t);
        let mut o = stdout.lock();
        writeln!(o, "> {}", t).unwrap();
        writeln!(o, "< {}", r).unwrap();
        o.flush().unwrap();
    }
    w.engine = None;
    shim::watch(None);
    VCLOCK_ON.store(false, Ordering::SeqCst);
    let _ = std::fs::remove_dir_all(&root);
    let _: BTreeMap<u8, u8> = BTreeMap::new();
}
