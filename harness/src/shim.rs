//! In-binary libc interposition: every file-system effect issued under the watched data
//! directory is logged (and can be made to fail).  No source hook in /repo and no LD_PRELOAD:
//! the symbols defined here shadow libc's for the whole harness binary; the real functions are
//! reached through `dlsym(RTLD_NEXT, …)`.
#![allow(clippy::missing_safety_doc)]
use libc::{c_char, c_int, c_void, mode_t, off64_t, size_t, ssize_t};
use std::collections::HashMap;
use std::ffi::CStr;
use std::sync::atomic::{AtomicUsize, Ordering};
use std::sync::Mutex;

#[derive(Clone, Debug)]
pub enum Effect {
    Open { path: String, create: bool, trunc: bool },
    Write { path: String, offset: u64, data: Vec<u8> },
    Fsync { path: String, data_only: bool },
    FsyncDir,
    Truncate { path: String, len: u64 },
    Rename { from: String, to: String },
    Unlink { path: String },
}

#[derive(Clone, Debug)]
pub struct Fault {
    /// "write" | "fsync" | "fdatasync" | "ftruncate" | "rename" | "unlink" | "open"
    pub call: String,
    /// fail the n-th matching call (0-based) counted from the moment the fault is armed
    pub nth: usize,
    pub errno: i32,
    /// for writes: number of bytes actually written before failing (short write)
    pub short: Option<usize>,
    /// only calls on paths containing this substring are counted
    pub path_contains: Option<String>,
}

#[derive(Default)]
pub struct ShimState {
    pub root: Option<String>,
    fds: HashMap<i32, (String, bool, u64)>, // path, append, position
    dir_fds: Vec<i32>,
    /// read-only descriptors of tracked files: an fsync through one is a sync of that file all the same
    ro_fds: HashMap<i32, String>,
    pub sizes: HashMap<String, u64>,
    pub log: Vec<Effect>,
    pub faults: Vec<(Fault, usize)>, // fault, matching calls seen so far
    pub pending_errno: HashMap<i32, i32>, // fd -> errno the next write on it returns (after a short write)
    pub fired: Vec<String>,
}

pub static STATE: Mutex<Option<ShimState>> = Mutex::new(None);

pub fn with_state<R>(f: impl FnOnce(&mut ShimState) -> R) -> R {
    let mut g = STATE.lock().unwrap_or_else(|e| e.into_inner());
    if g.is_none() {
        *g = Some(ShimState::default());
    }
    f(g.as_mut().unwrap())
}

pub fn watch(root: Option<&str>) {
    with_state(|s| {
        s.root = root.map(|r| r.trim_end_matches('/').to_string());
        s.fds.clear();
        s.dir_fds.clear();
        s.sizes.clear();
        s.log.clear();
        s.faults.clear();
        s.fired.clear();
    });
}

pub fn take_log() -> Vec<Effect> {
    with_state(|s| std::mem::take(&mut s.log))
}

pub fn log_len() -> usize {
    with_state(|s| s.log.len())
}

pub fn arm(f: Fault) {
    with_state(|s| s.faults.push((f, 0)));
}

pub fn disarm() -> Vec<String> {
    with_state(|s| {
        s.faults.clear();
        s.pending_errno.clear();
        std::mem::take(&mut s.fired)
    })
}

macro_rules! real {
    ($name:literal, $ty:ty) => {{
        static PTR: AtomicUsize = AtomicUsize::new(0);
        let mut p = PTR.load(Ordering::Relaxed);
        if p == 0 {
            p = libc::dlsym(libc::RTLD_NEXT, concat!($name, "\0").as_ptr() as *const c_char) as usize;
            PTR.store(p, Ordering::Relaxed);
        }
        std::mem::transmute::<usize, $ty>(p)
    }};
}

fn rel(s: &ShimState, path: &str) -> Option<String> {
    let root = s.root.as_ref()?;
    if path == root {
        return Some(String::new());
    }
    path.strip_prefix(&format!("{}/", root)).map(|r| r.to_string())
}

unsafe fn cstr(p: *const c_char) -> String {
    if p.is_null() {
        return String::new();
    }
    CStr::from_ptr(p).to_string_lossy().to_string()
}

/// returns Some(errno) (and for writes the short length) if a fault fires for this call
fn check_fault(s: &mut ShimState, call: &str, path: &str) -> Option<(i32, Option<usize>)> {
    for (f, seen) in s.faults.iter_mut() {
        if f.call != call {
            continue;
        }
        if let Some(pc) = &f.path_contains {
            if !path.contains(pc.as_str()) {
                continue;
            }
        }
        let idx = *seen;
        *seen += 1;
        if idx == f.nth {
            s.fired.push(format!("{}#{}:{}:{}", call, idx, path, f.errno));
            return Some((f.errno, f.short));
        }
    }
    None
}

unsafe fn set_errno(e: i32) {
    *libc::__errno_location() = e;
}

unsafe fn do_open(path: *const c_char, flags: c_int, mode: mode_t, which: u8) -> c_int {
    let p = cstr(path);
    let tracked = with_state(|s| rel(s, &p));
    if let Some(r) = &tracked {
        if !r.is_empty() {
            if let Some((e, _)) = with_state(|s| check_fault(s, "open", r)) {
                set_errno(e);
                return -1;
            }
        }
    }
    let fd = match which {
        0 => real!("open", unsafe extern "C" fn(*const c_char, c_int, mode_t) -> c_int)(path, flags, mode),
        _ => real!("open64", unsafe extern "C" fn(*const c_char, c_int, mode_t) -> c_int)(path, flags, mode),
    };
    if fd >= 0 {
        if let Some(r) = tracked {
            with_state(|s| {
                if r.is_empty() || (flags & libc::O_DIRECTORY) != 0 {
                    s.dir_fds.push(fd);
                } else {
                    let writable = (flags & (libc::O_WRONLY | libc::O_RDWR)) != 0;
                    let create = (flags & libc::O_CREAT) != 0;
                    let trunc = (flags & libc::O_TRUNC) != 0;
                    if writable {
                        if trunc || (create && !s.sizes.contains_key(&r)) {
                            if trunc {
                                s.sizes.insert(r.clone(), 0);
                            } else {
                                s.sizes.entry(r.clone()).or_insert(0);
                            }
                        }
                        s.log.push(Effect::Open { path: r.clone(), create, trunc });
                        s.fds.insert(fd, (r, (flags & libc::O_APPEND) != 0, 0));
                    } else {
                        s.ro_fds.insert(fd, r);
                    }
                }
            });
        }
    }
    fd
}

#[no_mangle]
pub unsafe extern "C" fn open(path: *const c_char, flags: c_int, mode: mode_t) -> c_int {
    do_open(path, flags, mode, 0)
}

#[no_mangle]
pub unsafe extern "C" fn open64(path: *const c_char, flags: c_int, mode: mode_t) -> c_int {
    do_open(path, flags, mode, 1)
}

#[no_mangle]
pub unsafe extern "C" fn write(fd: c_int, buf: *const c_void, count: size_t) -> ssize_t {
    let realf = real!("write", unsafe extern "C" fn(c_int, *const c_void, size_t) -> ssize_t);
    let tracked = with_state(|s| s.fds.get(&fd).cloned());
    let Some((path, append, pos)) = tracked else {
        return realf(fd, buf, count);
    };
    // POSIX: a write that stored some bytes returns the short count; the error surfaces on the NEXT write call
    if let Some(e) = with_state(|s| s.pending_errno.remove(&fd)) {
        set_errno(e);
        return -1;
    }
    let fault = with_state(|s| check_fault(s, "write", &path));
    let (to_write, fail) = match fault {
        Some((e, short)) => {
            let n = short.unwrap_or(0).min(count);
            if n > 0 && n < count {
                with_state(|s| {
                    s.pending_errno.insert(fd, e);
                });
                (n, None)
            } else {
                (0, Some(e))
            }
        }
        None => (count, None),
    };
    let mut written: ssize_t = 0;
    if to_write > 0 {
        written = realf(fd, buf, to_write);
    }
    if written > 0 {
        let data = std::slice::from_raw_parts(buf as *const u8, written as usize).to_vec();
        with_state(|s| {
            let size = *s.sizes.get(&path).unwrap_or(&0);
            let offset = if append { size } else { pos };
            let end = offset + data.len() as u64;
            if end > size {
                s.sizes.insert(path.clone(), end);
            }
            if let Some(e) = s.fds.get_mut(&fd) {
                e.2 = end;
            }
            s.log.push(Effect::Write { path: path.clone(), offset, data });
        });
    }
    if let Some(e) = fail {
        set_errno(e);
        return -1;
    }
    written
}

unsafe fn do_sync(fd: c_int, data_only: bool) -> c_int {
    let is_dir = with_state(|s| s.dir_fds.contains(&fd));
    let tracked = with_state(|s| s.fds.get(&fd).cloned().or_else(|| s.ro_fds.get(&fd).map(|p| (p.clone(), false, 0))));
    let name = if data_only { "fdatasync" } else { "fsync" };
    if let Some((path, _, _)) = &tracked {
        if let Some((e, _)) = with_state(|s| check_fault(s, name, path)) {
            set_errno(e);
            return -1;
        }
    } else if is_dir {
        if let Some((e, _)) = with_state(|s| check_fault(s, name, "<dir>")) {
            set_errno(e);
            return -1;
        }
    }
    let r = if data_only {
        real!("fdatasync", unsafe extern "C" fn(c_int) -> c_int)(fd)
    } else {
        real!("fsync", unsafe extern "C" fn(c_int) -> c_int)(fd)
    };
    if r == 0 {
        with_state(|s| {
            if let Some((path, _, _)) = tracked {
                s.log.push(Effect::Fsync { path, data_only });
            } else if is_dir {
                s.log.push(Effect::FsyncDir);
            }
        });
    }
    r
}

#[no_mangle]
pub unsafe extern "C" fn fsync(fd: c_int) -> c_int {
    do_sync(fd, false)
}

#[no_mangle]
pub unsafe extern "C" fn fdatasync(fd: c_int) -> c_int {
    do_sync(fd, true)
}

unsafe fn do_truncate(fd: c_int, len: off64_t, which: u8) -> c_int {
    let tracked = with_state(|s| s.fds.get(&fd).cloned());
    if let Some((path, _, _)) = &tracked {
        if let Some((e, _)) = with_state(|s| check_fault(s, "ftruncate", path)) {
            set_errno(e);
            return -1;
        }
    }
    let r = match which {
        0 => real!("ftruncate", unsafe extern "C" fn(c_int, libc::off_t) -> c_int)(fd, len as libc::off_t),
        _ => real!("ftruncate64", unsafe extern "C" fn(c_int, off64_t) -> c_int)(fd, len),
    };
    if r == 0 {
        if let Some((path, _, _)) = tracked {
            with_state(|s| {
                s.sizes.insert(path.clone(), len as u64);
                s.log.push(Effect::Truncate { path, len: len as u64 });
            });
        }
    }
    r
}

#[no_mangle]
pub unsafe extern "C" fn ftruncate(fd: c_int, len: libc::off_t) -> c_int {
    do_truncate(fd, len as off64_t, 0)
}

#[no_mangle]
pub unsafe extern "C" fn ftruncate64(fd: c_int, len: off64_t) -> c_int {
    do_truncate(fd, len, 1)
}

#[no_mangle]
pub unsafe extern "C" fn rename(from: *const c_char, to: *const c_char) -> c_int {
    let f = cstr(from);
    let t = cstr(to);
    let (rf, rt) = with_state(|s| (rel(s, &f), rel(s, &t)));
    if let (Some(rf), Some(_)) = (&rf, &rt) {
        if let Some((e, _)) = with_state(|s| check_fault(s, "rename", rf)) {
            set_errno(e);
            return -1;
        }
    }
    let r = real!("rename", unsafe extern "C" fn(*const c_char, *const c_char) -> c_int)(from, to);
    if r == 0 {
        if let (Some(rf), Some(rt)) = (rf, rt) {
            with_state(|s| {
                if let Some(sz) = s.sizes.remove(&rf) {
                    s.sizes.insert(rt.clone(), sz);
                }
                s.log.push(Effect::Rename { from: rf, to: rt });
            });
        }
    }
    r
}

#[no_mangle]
pub unsafe extern "C" fn unlink(path: *const c_char) -> c_int {
    let p = cstr(path);
    let rp = with_state(|s| rel(s, &p));
    if let Some(rp) = &rp {
        if let Some((e, _)) = with_state(|s| check_fault(s, "unlink", rp)) {
            set_errno(e);
            return -1;
        }
    }
    let r = real!("unlink", unsafe extern "C" fn(*const c_char) -> c_int)(path);
    if r == 0 {
        if let Some(rp) = rp {
            with_state(|s| {
                s.sizes.remove(&rp);
                s.log.push(Effect::Unlink { path: rp });
            });
        }
    }
    r
}

#[no_mangle]
pub unsafe extern "C" fn close(fd: c_int) -> c_int {
    with_state(|s| {
        s.fds.remove(&fd);
        s.ro_fds.remove(&fd);
        s.dir_fds.retain(|d| *d != fd);
    });
    real!("close", unsafe extern "C" fn(c_int) -> c_int)(fd)
}

// ---------------------------------------------------------------------------------------------
// virtual monotonic clock (for the rate limiter): when enabled, every
// `clock_gettime(CLOCK_MONOTONIC)` — i.e. every `Instant::now()` — returns the virtual time and
// then advances it by `TICK` ns.
pub static VCLOCK_ON: std::sync::atomic::AtomicBool = std::sync::atomic::AtomicBool::new(false);
pub static VCLOCK_NOW: std::sync::atomic::AtomicU64 = std::sync::atomic::AtomicU64::new(0);
pub static VCLOCK_TICK: std::sync::atomic::AtomicU64 = std::sync::atomic::AtomicU64::new(0);
pub static VCLOCK_READS: std::sync::atomic::AtomicU64 = std::sync::atomic::AtomicU64::new(0);

/// virtual wall clock (backups, file ids): when on, every `clock_gettime(CLOCK_REALTIME)` returns
/// the virtual time (microseconds) and advances it by one microsecond
pub static WALL_ON: std::sync::atomic::AtomicBool = std::sync::atomic::AtomicBool::new(false);
pub static WALL_US: std::sync::atomic::AtomicU64 = std::sync::atomic::AtomicU64::new(0);

pub fn wall_secs() -> u64 {
    WALL_US.load(Ordering::SeqCst) / 1_000_000
}

#[no_mangle]
pub unsafe extern "C" fn clock_gettime(clk: libc::clockid_t, ts: *mut libc::timespec) -> c_int {
    if clk == libc::CLOCK_REALTIME && WALL_ON.load(Ordering::SeqCst) && !ts.is_null() {
        let now = WALL_US.fetch_add(1, Ordering::SeqCst);
        (*ts).tv_sec = (now / 1_000_000) as libc::time_t;
        (*ts).tv_nsec = ((now % 1_000_000) * 1000) as libc::c_long;
        return 0;
    }
    if clk == libc::CLOCK_MONOTONIC && VCLOCK_ON.load(Ordering::SeqCst) && !ts.is_null() {
        let tick = VCLOCK_TICK.load(Ordering::SeqCst);
        let now = VCLOCK_NOW.fetch_add(tick, Ordering::SeqCst);
        VCLOCK_READS.fetch_add(1, Ordering::SeqCst);
        (*ts).tv_sec = (now / 1_000_000_000) as libc::time_t;
        (*ts).tv_nsec = (now % 1_000_000_000) as libc::c_long;
        return 0;
    }
    real!("clock_gettime", unsafe extern "C" fn(libc::clockid_t, *mut libc::timespec) -> c_int)(clk, ts)
}
