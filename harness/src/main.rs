//! kvh — verification harness driving the real KyroDB engine code in-process.
mod proto;
mod backupeng;
mod codec;
mod conc;
mod configeng;
mod damage;
mod mem;
mod periodic;
mod persist;
mod qcache;
mod sched;
mod ratelimit;
mod rpc;
mod shim;
#[allow(dead_code, unused_imports, unused_variables, unused_mut, clippy::all)]
mod srvinc;
mod store;
mod tiered;
mod validate;

#[global_allocator]
static GLOBAL: mem::Fence = mem::Fence;

fn main() {
    let args: Vec<String> = std::env::args().collect();
    match args.get(1).map(|s| s.as_str()) {
        Some("tiered") => tiered::run(),
        Some("qcache") => qcache::run(),
        Some("store") => store::run(),
        Some("persist") => persist::run(),
        Some("config") => configeng::run(),
        Some("ratelimit") => ratelimit::run(),
        Some("validate") => validate::run(),
        Some("mem") => mem::run(),
        Some("codec") => codec::run(),
        Some("conc") => conc::run(),
        Some("rpc") => rpc::run(),
        Some("periodic") => periodic::run(),
        _ => {
            eprintln!("usage: kvh <engine>");
            std::process::exit(2);
        }
    }
}
