fn main() { println!("kvh"); }
