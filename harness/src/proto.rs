//! Line-protocol helpers (mirror of lean/Driver/Parse.lean).
use std::collections::HashMap;

pub type Fields = Vec<(String, String)>;

pub fn split_fields(line: &str) -> (String, Fields) {
    let mut it = line.trim().split(' ').filter(|t| !t.is_empty());
    let op = it.next().unwrap_or("").to_string();
    let mut fs = Vec::new();
    for tok in it {
        if let Some(pos) = tok.find('=') {
            fs.push((tok[..pos].to_string(), tok[pos + 1..].to_string()));
        }
    }
    (op, fs)
}

pub fn field<'a>(fs: &'a Fields, k: &str) -> Option<&'a str> {
    fs.iter().find(|(kk, _)| kk == k).map(|(_, v)| v.as_str())
}

pub fn nat(fs: &Fields, k: &str) -> Option<u64> {
    field(fs, k)?.parse().ok()
}

pub fn boolean(fs: &Fields, k: &str) -> Option<bool> {
    match field(fs, k)? {
        "1" => Some(true),
        "0" => Some(false),
        _ => None,
    }
}

pub fn parse_nat_list(s: &str) -> Option<Vec<u64>> {
    if s == "-" || s.is_empty() {
        return Some(vec![]);
    }
    s.split(',').map(|t| t.parse().ok()).collect()
}

pub fn nat_list(fs: &Fields, k: &str) -> Option<Vec<u64>> {
    parse_nat_list(field(fs, k)?)
}

pub fn parse_vec(s: &str) -> Option<Vec<f32>> {
    Some(
        parse_nat_list(s)?
            .into_iter()
            .map(|b| f32::from_bits(b as u32))
            .collect(),
    )
}

pub fn vec_field(fs: &Fields, k: &str) -> Option<Vec<f32>> {
    parse_vec(field(fs, k)?)
}

pub fn show_vec(v: &[f32]) -> String {
    if v.is_empty() {
        return "-".into();
    }
    v.iter()
        .map(|x| x.to_bits().to_string())
        .collect::<Vec<_>>()
        .join(",")
}

pub fn show_nat_list(v: &[u64]) -> String {
    if v.is_empty() {
        return "-".into();
    }
    v.iter().map(|x| x.to_string()).collect::<Vec<_>>().join(",")
}

pub fn hex(s: &str) -> String {
    s.as_bytes().iter().map(|b| format!("{:02x}", b)).collect()
}

pub fn unhex(s: &str) -> Option<String> {
    if s.len() % 2 != 0 {
        return None;
    }
    let mut bytes = Vec::with_capacity(s.len() / 2);
    let b = s.as_bytes();
    for i in (0..b.len()).step_by(2) {
        let h = std::str::from_utf8(&b[i..i + 2]).ok()?;
        bytes.push(u8::from_str_radix(h, 16).ok()?);
    }
    String::from_utf8(bytes).ok()
}

/// `hexk:hexv|hexk:hexv` ; `-` = empty
pub fn parse_meta(s: &str) -> Option<HashMap<String, String>> {
    let mut m = HashMap::new();
    if s == "-" || s.is_empty() {
        return Some(m);
    }
    for kv in s.split('|') {
        let mut it = kv.split(':');
        let k = unhex(it.next()?)?;
        let v = unhex(it.next()?)?;
        if it.next().is_some() {
            return None;
        }
        m.insert(k, v); // later bindings win (same as the model's Meta.norm)
    }
    Some(m)
}

pub fn meta_field(fs: &Fields, k: &str) -> Option<HashMap<String, String>> {
    parse_meta(field(fs, k)?)
}

/// canonical: sorted by key bytes, hex
pub fn show_meta(m: &HashMap<String, String>) -> String {
    if m.is_empty() {
        return "-".into();
    }
    let mut kv: Vec<(String, String)> = m.iter().map(|(k, v)| (hex(k), hex(v))).collect();
    kv.sort();
    kv.into_iter()
        .map(|(k, v)| format!("{}:{}", k, v))
        .collect::<Vec<_>>()
        .join("|")
}

pub fn show_bool(b: bool) -> &'static str {
    if b {
        "true"
    } else {
        "false"
    }
}
