//! The REAL server source (build-time copy of /repo/engine/src/bin/kyrodb_server.rs, see build.rs)
//! included as a module, so that the private RPC handlers of `KyroDBServiceImpl` can be called
//! in-process - each on its own managed thread of the controlled scheduler (C14: concurrent RPCs).
include!(concat!(env!("OUT_DIR"), "/server_src.rs"));

pub mod drive {
    use super::*;
    use kyrodb_engine::config::KyroDbConfig;
    use kyrodb_engine::QueryHashCache;

    pub struct Srv {
        pub svc: Arc<KyroDBServiceImpl>,
        pub tenants: Vec<TenantContext>,
    }

    pub const DIM: usize = 2;

    pub fn engine_of(s: &Srv) -> Arc<TieredEngine> {
        s.svc.state.engine.clone()
    }

    pub fn build(limits: &[usize]) -> Srv {
        let engine_config = TieredEngineConfig {
            hot_tier_max_size: 4,
            hot_tier_hard_limit: 6,
            hot_tier_max_age: Duration::from_secs(1_000_000),
            hnsw_max_elements: 10_000,
            embedding_dimension: DIM,
            hnsw_distance: kyrodb_engine::config::DistanceMetric::Euclidean,
            ..TieredEngineConfig::default()
        };
        let engine = TieredEngine::new(
            Box::new(LruCacheStrategy::new(4)),
            Arc::new(QueryHashCache::new(8, 0.9)),
            Vec::new(),
            Vec::new(),
            engine_config.clone(),
        )
        .expect("engine");
        let mut app_config = KyroDbConfig::default();
        app_config.auth.enabled = true;
        app_config.hnsw.dimension = DIM;
        let mut counts = HashMap::new();
        let mut locks = HashMap::new();
        let mut tenants = vec![];
        for (i, l) in limits.iter().enumerate() {
            let id = format!("t{}", (b'a' + i as u8) as char);
            counts.insert(id.clone(), 0usize);
            locks.insert(id.clone(), Arc::new(parking_lot::Mutex::new(())));
            tenants.push(TenantContext { tenant_id: id, tenant_index: i as u32, max_qps: u32::MAX, max_vectors: *l });
        }
        let state = Arc::new(ServerState {
            engine: Arc::new(engine),
            start_time: Instant::now(),
            app_config,
            engine_config,
            metrics: MetricsCollector::new(),
            auth: None,
            rate_limiter: Some(RateLimiter::new()),
            tenant_id_mapper: None,
            tenant_vector_counts: Some(parking_lot::RwLock::new(counts)),
            tenant_quota_locks: Some(parking_lot::RwLock::new(locks)),
            usage_tracker: Some(Arc::new(UsageTracker::new())),
        });
        Srv { svc: Arc::new(KyroDBServiceImpl { state }), tenants }
    }

    /// the handlers' bodies never wait on I/O readiness: poll to completion on this thread
    fn block_on<F: std::future::Future>(f: F) -> F::Output {
        let waker = futures_util::task::noop_waker();
        let mut cx = std::task::Context::from_waker(&waker);
        let mut f = std::pin::pin!(f);
        loop {
            if let Poll::Ready(v) = f.as_mut().poll(&mut cx) {
                return v;
            }
            std::thread::yield_now();
        }
    }

    fn req<T>(s: &Srv, t: usize, m: T) -> Request<T> {
        let mut r = Request::new(m);
        r.extensions_mut().insert(s.tenants[t].clone());
        r
    }

    fn vec_of(x: u64) -> Vec<f32> {
        vec![x as f32, 1.0]
    }

    fn code(e: &Status) -> String {
        format!("err:{:?}", e.code())
    }

    /// `sins:<t>:<lid>:<x>`  `sdel:<t>:<lid>`  `sbd:<t>:<lid>,<lid>`  `sq:<t>:<lid>`  `sum:<t>:<lid>:<x>`
    pub fn apply(s: &Srv, op: &str) -> String {
        let p: Vec<&str> = op.split(':').collect();
        let t: usize = p.get(1).and_then(|x| x.parse().ok()).unwrap_or(0);
        let n = |i: usize| -> u64 { p.get(i).and_then(|x| x.parse().ok()).unwrap_or(0) };
        match p[0] {
            "sins" => {
                let mut md = HashMap::new();
                md.insert("v".to_string(), n(3).to_string());
                match block_on(s.svc.insert(req(s, t, InsertRequest { doc_id: n(2), embedding: vec_of(n(3)), metadata: md, namespace: String::new() }))) {
                    Ok(_) => "ok".into(),
                    Err(e) => code(&e),
                }
            }
            "sdel" => match block_on(s.svc.delete(req(s, t, DeleteRequest { doc_id: n(2), namespace: String::new() }))) {
                Ok(r) => r.into_inner().existed.to_string(),
                Err(e) => code(&e),
            },
            "sbd" => {
                let ids: Vec<u64> = p.get(2).map(|x| x.split(',').filter_map(|y| y.parse().ok()).collect()).unwrap_or_default();
                let m = BatchDeleteRequest { delete_criteria: Some(batch_delete_request::DeleteCriteria::Ids(IdList { doc_ids: ids })), namespace: String::new() };
                match block_on(s.svc.batch_delete(req(s, t, m))) {
                    Ok(r) => r.into_inner().deleted_count.to_string(),
                    Err(e) => code(&e),
                }
            }
            "sq" => match block_on(s.svc.query(req(s, t, QueryRequest { doc_id: n(2), include_embedding: true, namespace: String::new() }))) {
                Ok(r) => {
                    let r = r.into_inner();
                    if r.found { format!("{}/{}", r.embedding.first().copied().unwrap_or(-1.0) as i64, r.metadata.get("v").cloned().unwrap_or_else(|| "-".into())) } else { "none".into() }
                }
                Err(e) => code(&e),
            },
            "sum" => {
                let mut md = HashMap::new();
                md.insert("v".to_string(), n(3).to_string());
                match block_on(s.svc.update_metadata(req(s, t, UpdateMetadataRequest { doc_id: n(2), metadata: md, merge: false, namespace: String::new() }))) {
                    Ok(r) => r.into_inner().existed.to_string(),
                    Err(e) => code(&e),
                }
            }
            _ => "bad-op".into(),
        }
    }

    /// per tenant: counted / live / usage vector_count, as a sequential observer sees them at the end
    pub fn final_state(s: &Srv) -> String {
        let e = &s.svc.state.engine;
        let mut parts = vec![];
        for t in &s.tenants {
            let counted = s.svc.state.tenant_vector_counts.as_ref().map(|c| c.read().get(&t.tenant_id).copied().unwrap_or(0)).unwrap_or(0);
            let idx = t.tenant_index.to_string();
            let mut ids: Vec<u64> = e.cold_tier().scan(|m| m.get("__tenant_idx__") == Some(&idx));
            for id in e.hot_tier().scan(|m| m.get("__tenant_idx__") == Some(&idx)) {
                if !ids.contains(&id) {
                    ids.push(id);
                }
            }
            ids.retain(|id| e.exists(*id));
            let usage = s.svc.state.usage_tracker.as_ref().and_then(|u| u.get_snapshot(&t.tenant_id)).map(|x| x.vector_count).unwrap_or(0);
            parts.push(format!("{}:counted={}:live={}:usage={}", t.tenant_id, counted, ids.len(), usage));
        }
        parts.join(",")
    }
}
