//! Engine `persist`: the real `HnswBackend` with persistence under the FS shim.
//! Per op: result, the logical actions recognised in the effect log, and — when crash
//! enumeration is on — the outcome of the real strict `recover` on the directory materialised
//! at every effect boundary (kill model) and at torn prefixes of frame writes.
use crate::proto::*;
use crate::shim::{self, Effect};
use crate::store::nums_of;
use crate::tiered::parse_metric;
use kyrodb_engine::config::DistanceMetric;
use kyrodb_engine::metrics::MetricsCollector;
use kyrodb_engine::persistence::{FsyncPolicy, Manifest, Snapshot, WalEntry, WalOp, WalReader};
use kyrodb_engine::HnswBackend;
use std::collections::{BTreeMap, HashMap};
use std::io::{BufRead, Write};
use std::path::{Path, PathBuf};

pub struct Cfg {
    pub dim: usize,
    pub metric: DistanceMetric,
    pub cap: usize,
    pub snap: usize,
    pub rot: u64,
    pub fsync: FsyncPolicy,
    pub crash: bool,
    pub torn: bool,
    /// enumerate power-loss states too (only meaningful with fsync=always)
    pub ploss: bool,
}

pub struct World {
    pub cfg: Cfg,
    pub root: PathBuf,       // scratch root (removed at exit)
    pub dir: PathBuf,        // live data directory (watched)
    pub b: Option<HnswBackend>,
    /// shadow of the data directory as of the last consumed effect (kill model)
    pub shadow: BTreeMap<String, Vec<u8>>,
    /// real file name -> creation index
    pub names: HashMap<String, usize>,
    pub next_name: usize,
    pub scratch_n: usize,
    pub bk: crate::backupeng::Bk,
    pub wall: bool,
    pub fault_armed: bool,
    pub pl: PowerLoss,
    /// power-loss outcomes of the last consumed op (distinct from the kill outcome at the same point)
    pub ploss: Vec<String>,
    pub ploss_n: usize,
    /// referenced views (MANIFEST + listed segments + pointed snapshot) of the power-loss directories of the current op
    pub plossv: Vec<String>,
}

fn is_wal(p: &str) -> bool {
    p.starts_with("wal_") && p.ends_with(".wal")
}
fn is_snap(p: &str) -> bool {
    p.starts_with("snapshot_") && p.ends_with(".snap")
}

/// Power-loss model (C01, second failure model): per file the content as of its last fsync, the
/// directory as of the last directory fsync, and the directory changes made since (which may be
/// lost as a suffix, in order).
#[derive(Clone, Default)]
pub struct PowerLoss {
    ids: BTreeMap<String, usize>,      // volatile namespace: name -> file
    vol: Vec<Vec<u8>>,                 // volatile content per file
    syn: Vec<Vec<u8>>,                 // content as of the file's last fsync / fdatasync
    dur: BTreeMap<String, usize>,      // durable namespace
    pending: Vec<DirOp>,               // directory changes since the last directory fsync
}

#[derive(Clone)]
enum DirOp {
    Create(String, usize),
    Rename(String, String),
    Unlink(String),
}

impl PowerLoss {
    pub fn from_shadow(shadow: &BTreeMap<String, Vec<u8>>) -> Self {
        let mut p = PowerLoss::default();
        for (n, d) in shadow {
            p.ids.insert(n.clone(), p.vol.len());
            p.dur.insert(n.clone(), p.vol.len());
            p.vol.push(d.clone());
            p.syn.push(d.clone());
        }
        p
    }

    fn file(&mut self, path: &str) -> usize {
        if let Some(i) = self.ids.get(path) {
            return *i;
        }
        let i = self.vol.len();
        self.vol.push(vec![]);
        self.syn.push(vec![]);
        self.ids.insert(path.to_string(), i);
        self.pending.push(DirOp::Create(path.to_string(), i));
        i
    }

    pub fn apply(&mut self, e: &Effect) {
        match e {
            Effect::Open { path, create, trunc } => {
                if *trunc || *create {
                    let i = self.file(path);
                    if *trunc {
                        self.vol[i].clear();
                    }
                }
            }
            Effect::Write { path, offset, data } => {
                let i = self.file(path);
                let off = *offset as usize;
                if self.vol[i].len() < off + data.len() {
                    self.vol[i].resize(off + data.len(), 0);
                }
                self.vol[i][off..off + data.len()].copy_from_slice(data);
            }
            Effect::Truncate { path, len } => {
                let i = self.file(path);
                self.vol[i].resize(*len as usize, 0);
            }
            Effect::Fsync { path, .. } => {
                if let Some(i) = self.ids.get(path).copied() {
                    self.syn[i] = self.vol[i].clone();
                }
            }
            Effect::FsyncDir => {
                let ops = std::mem::take(&mut self.pending);
                for op in &ops {
                    Self::dir_apply(&mut self.dur, op);
                }
            }
            Effect::Rename { from, to } => {
                if let Some(i) = self.ids.remove(from) {
                    self.ids.insert(to.clone(), i);
                    self.pending.push(DirOp::Rename(from.clone(), to.clone()));
                }
            }
            Effect::Unlink { path } => {
                if self.ids.remove(path).is_some() {
                    self.pending.push(DirOp::Unlink(path.clone()));
                }
            }
        }
    }

    fn dir_apply(ns: &mut BTreeMap<String, usize>, op: &DirOp) {
        match op {
            DirOp::Create(n, i) => {
                ns.insert(n.clone(), *i);
            }
            DirOp::Rename(a, b) => {
                if let Some(i) = ns.remove(a) {
                    ns.insert(b.clone(), i);
                }
            }
            DirOp::Unlink(n) => {
                ns.remove(n);
            }
        }
    }

    /// every directory a power failure at this instant may leave: a prefix of the pending directory
    /// changes survives; per file either only the synced bytes or everything written
    pub fn states(&self) -> Vec<BTreeMap<String, Vec<u8>>> {
        let mut out: Vec<BTreeMap<String, Vec<u8>>> = vec![];
        for k in 0..=self.pending.len() {
            let mut ns = self.dur.clone();
            for op in &self.pending[..k] {
                Self::dir_apply(&mut ns, op);
            }
            for full in [false, true] {
                let st: BTreeMap<String, Vec<u8>> =
                    ns.iter().map(|(n, i)| (n.clone(), if full { self.vol[*i].clone() } else { self.syn[*i].clone() })).collect();
                if !out.contains(&st) {
                    out.push(st);
                }
            }
        }
        out
    }
}

pub fn apply_effect(shadow: &mut BTreeMap<String, Vec<u8>>, e: &Effect) {
    match e {
        Effect::Open { path, create, trunc } => {
            if *trunc {
                shadow.insert(path.clone(), vec![]);
            } else if *create {
                shadow.entry(path.clone()).or_default();
            }
        }
        Effect::Write { path, offset, data } => {
            let f = shadow.entry(path.clone()).or_default();
            let off = *offset as usize;
            if f.len() < off + data.len() {
                f.resize(off + data.len(), 0);
            }
            f[off..off + data.len()].copy_from_slice(data);
        }
        Effect::Truncate { path, len } => {
            let f = shadow.entry(path.clone()).or_default();
            f.resize(*len as usize, 0);
        }
        Effect::Rename { from, to } => {
            if let Some(d) = shadow.remove(from) {
                shadow.insert(to.clone(), d);
            }
        }
        Effect::Unlink { path } => {
            shadow.remove(path);
        }
        Effect::Fsync { .. } | Effect::FsyncDir => {}
    }
}

pub fn materialise(shadow: &BTreeMap<String, Vec<u8>>, dir: &Path) {
    let _ = std::fs::remove_dir_all(dir);
    std::fs::create_dir_all(dir).expect("mkdir scratch");
    for (name, data) in shadow {
        std::fs::write(dir.join(name), data).expect("write scratch file");
    }
}

pub fn err_class(msg: &str) -> &'static str {
    if msg.contains("No MANIFEST") {
        "err:no_manifest"
    } else if msg.contains("required WAL segment missing") {
        "err:missing_segment"
    } else if msg.contains("corrupted frames") || msg.contains("corrupted entries") {
        "err:corrupt_frames"
    } else if msg.contains("Invalid WAL magic") || msg.contains("WAL magic header") {
        "err:bad_magic"
    } else if msg.contains("snapshot corruption") || msg.contains("Failed to load snapshot") {
        "err:snapshot_unreadable"
    } else if msg.contains("manifest") || msg.contains("MANIFEST") {
        "err:manifest_unreadable"
    } else {
        "err:other"
    }
}

pub fn docs_census(b: &HnswBackend) -> String {
    let mut ids = b.scan(|_| true);
    ids.sort_unstable();
    let parts: Vec<String> = ids
        .iter()
        .map(|&id| {
            let v = b.fetch_document(id).unwrap_or_default();
            let m = b.fetch_metadata(id).unwrap_or_default();
            format!("{}~{}~{}", id, show_vec(&v), show_meta(&m))
        })
        .collect();
    format!("[{}]", parts.join(";"))
}

impl World {
    /// What strict recovery reads of a directory: the MANIFEST, the segments it lists, the snapshot it points to - in the
    /// vocabulary of the model's `viewOf` (canonical file numbers).
    pub fn view_of_dir(&self, d: &std::path::Path) -> String {
        let Ok(data) = std::fs::read(d.join("MANIFEST")) else { return "none".into() };
        let Ok(m) = serde_json::from_slice::<Manifest>(&data) else { return "unparsable".into() };
        let segs: Vec<String> = m
            .wal_segments
            .iter()
            .map(|name| {
                let n = self.canon_opt(name);
                let desc = match WalReader::open(d.join(name)) {
                    Ok(mut r) => match r.read_all() {
                        Ok(es) => es
                            .iter()
                            .map(|en| {
                                format!(
                                    "{}{}{}",
                                    en.seq_no,
                                    match en.op {
                                        WalOp::Insert => "i",
                                        WalOp::Delete => "d",
                                        WalOp::UpdateMetadata => "u",
                                    },
                                    en.doc_id
                                )
                            })
                            .collect::<Vec<_>>()
                            .join("."),
                        Err(_) => "unreadable".into(),
                    },
                    Err(_) => "missing".into(),
                };
                format!("{}:{}", n, desc)
            })
            .collect();
        let snap = match &m.latest_snapshot {
            None => "-".to_string(),
            Some(name) => match Snapshot::load(d.join(name)) {
                Ok(sf) => format!("{}:{}.{}", self.canon_opt(name), sf.last_wal_seq, sf.documents.len()),
                Err(_) => format!("{}:missing", self.canon_opt(name)),
            },
        };
        format!("M({})|{}|{}", self.show_manifest_bytes(&data), segs.join(";"), snap)
    }

    /// recover_at + the referenced view of the directory before recovery touched it
    pub fn recover_and_view_at(&mut self, shadow: &BTreeMap<String, Vec<u8>>) -> (String, String) {
        let d = self.root.join("crash");
        materialise(shadow, &d);
        let v = self.view_of_dir(&d);
        (self.recover_at(shadow), v)
    }

    pub fn recover_at(&mut self, shadow: &BTreeMap<String, Vec<u8>>) -> String {
        self.scratch_n += 1;
        let d = self.root.join("crash");
        materialise(shadow, &d);
        let r = HnswBackend::recover(
            self.cfg.dim,
            self.cfg.metric,
            &d,
            self.cfg.cap,
            FsyncPolicy::Never,
            0,
            0,
            MetricsCollector::new(),
        );
        match r {
            Ok(b) => docs_census(&b),
            Err(e) => err_class(&format!("{:#}", e)).to_string(),
        }
    }

    fn canon(&mut self, real: &str) -> usize {
        if let Some(n) = self.names.get(real) {
            return *n;
        }
        let n = self.next_name;
        self.next_name += 1;
        self.names.insert(real.to_string(), n);
        n
    }

    pub fn canon_name(&self, real: &str) -> String {
        match self.names.get(real) {
            Some(n) => n.to_string(),
            None => "?".to_string(),
        }
    }

    /// manifest fields with unknown file names collapsed to `?`
    pub fn show_manifest_view(&self, data: &[u8]) -> String {
        match serde_json::from_slice::<Manifest>(data) {
            Ok(m) => {
                let segs: Vec<String> = m.wal_segments.iter().map(|s| self.canon_name(s)).collect();
                if m.latest_snapshot.as_ref().map(|s| s.contains('/')).unwrap_or(false) {
                    // the pointer leaves the data directory: fallback scans another directory
                    return "outside".into();
                }
                format!(
                    "{}/{}/{}",
                    m.latest_snapshot.as_ref().map(|s| self.canon_name(s)).unwrap_or_else(|| "-".into()),
                    m.latest_snapshot_wal_seq.map(|s| s.to_string()).unwrap_or_else(|| "-".into()),
                    if segs.is_empty() { "-".to_string() } else { segs.join(",") }
                )
            }
            Err(_) => "unparsable".into(),
        }
    }

    fn canon_opt(&self, real: &str) -> String {
        match self.names.get(real) {
            Some(n) => n.to_string(),
            None => format!("?{}", real),
        }
    }

    fn show_manifest_bytes(&self, data: &[u8]) -> String {
        match serde_json::from_slice::<Manifest>(data) {
            Ok(m) => {
                let segs: Vec<String> = m.wal_segments.iter().map(|s| self.canon_opt(s)).collect();
                format!(
                    "{}/{}/{}",
                    m.latest_snapshot
                        .as_ref()
                        .map(|s| self.canon_opt(s))
                        .unwrap_or_else(|| "-".into()),
                    m.latest_snapshot_wal_seq
                        .map(|s| s.to_string())
                        .unwrap_or_else(|| "-".into()),
                    if segs.is_empty() { "-".to_string() } else { segs.join(",") }
                )
            }
            Err(_) => "unparsable".into(),
        }
    }

    /// Consumes the effects logged since the last call.  Returns (canonical actions,
    /// crash outcomes as `j:outcome`).
    fn consume(&mut self, enumerate: bool) -> (Vec<String>, Vec<String>) {
        let effects = shim::take_log();
        let mut acts: Vec<String> = vec![];
        let mut crashes: Vec<String> = vec![];
        let mut pending_magic: Option<String> = None;
        let do_crash = enumerate && self.cfg.crash && !self.fault_armed;
        // (file, offset) of every walAppend act of this op, for cancelling rolled-back appends
        let mut append_at: Vec<Option<(String, u64)>> = vec![];
        // bytes appended to a segment that do not yet form a whole frame: (file, offset of the first byte, bytes)
        let mut pend: Option<(String, u64, Vec<u8>)> = None;
        if do_crash {
            let sh = self.shadow.clone();
            let o = self.recover_at(&sh);
            crashes.push(format!("{}:{}", acts.len(), o));
        }
        for e in effects.iter() {
            // torn prefixes of a frame write (kill in the middle of the write call)
            if do_crash && self.cfg.torn {
                if let Effect::Write { path, offset, data } = e {
                    if is_wal(path) && !(data.len() == 4 && *offset == 0) && data.len() > 2 {
                        let mut cuts = vec![1usize, 3, 4, 5, data.len() - 1];
                        cuts.sort_unstable();
                        cuts.dedup();
                        for c in cuts.into_iter().filter(|c| *c < data.len()) {
                            let mut sh = self.shadow.clone();
                            apply_effect(
                                &mut sh,
                                &Effect::Write { path: path.clone(), offset: *offset, data: data[..c].to_vec() },
                            );
                            let o = self.recover_at(&sh);
                            crashes.push(format!("{}:{}", acts.len(), o));
                        }
                    }
                }
            }
            let pre_size = if let Effect::Truncate { path, .. } = e {
                self.shadow.get(path).map(|d| d.len() as u64)
            } else {
                None
            };
            apply_effect(&mut self.shadow, e);
            self.pl.apply(e);
            if self.wall {
                // the kernel stamps mtimes with the real clock: restamp with the virtual one
                let p = match e {
                    Effect::Write { path, .. } | Effect::Truncate { path, .. } => Some(path.clone()),
                    Effect::Open { path, create: true, .. } => Some(path.clone()),
                    Effect::Rename { to, .. } => Some(to.clone()),
                    _ => None,
                };
                if let Some(p) = p {
                    let secs = shim::wall_secs() as i64;
                    let full = self.dir.join(&p);
                    if let Ok(c) = std::ffi::CString::new(full.to_string_lossy().as_bytes()) {
                        let ts = [
                            libc::timespec { tv_sec: secs, tv_nsec: 0 },
                            libc::timespec { tv_sec: secs, tv_nsec: 0 },
                        ];
                        unsafe {
                            libc::utimensat(libc::AT_FDCWD, c.as_ptr(), ts.as_ptr(), 0);
                        }
                    }
                }
            }
            match e {
                Effect::Open { path, create, .. } => {
                    if *create && (is_wal(path)) && !self.names.contains_key(path) {
                        self.canon(path);
                        pending_magic = Some(path.clone());
                    }
                }
                Effect::Write { path, offset, data } => {
                    if is_wal(path) {
                        if *offset == 0 && data.len() == 4 {
                            // magic header; walCreate completes at the following fdatasync
                        } else {
                            // frames may arrive in pieces (short writes): assemble contiguous bytes
                            let contiguous = matches!(&pend, Some((p, start, buf)) if p == path && *start + buf.len() as u64 == *offset);
                            if !contiguous {
                                if let Some((p, start, buf)) = pend.take() {
                                    if !buf.is_empty() {
                                        acts.push(format!("walAppend:{}:partial", self.canon_opt(&p)));
                                        append_at.resize(acts.len() - 1, None);
                                        append_at.push(Some((p, start)));
                                    }
                                }
                                pend = Some((path.clone(), *offset, vec![]));
                            }
                            let (p, start, buf) = pend.as_mut().unwrap();
                            buf.extend_from_slice(data);
                            loop {
                                if buf.len() < 4 {
                                    break;
                                }
                                let n = u32::from_le_bytes([buf[0], buf[1], buf[2], buf[3]]) as usize;
                                if n == 0 || n > 100 * 1024 * 1024 || buf.len() < 8 + n {
                                    break;
                                }
                                let desc = match bincode::deserialize::<WalEntry>(&buf[4..4 + n]) {
                                    Ok(en) => format!(
                                        "{}{}{}",
                                        en.seq_no,
                                        match en.op {
                                            WalOp::Insert => "i",
                                            WalOp::Delete => "d",
                                            WalOp::UpdateMetadata => "u",
                                        },
                                        en.doc_id
                                    ),
                                    Err(_) => "partial".to_string(),
                                };
                                let n_canon = self.names.get(p.as_str()).map(|x| x.to_string()).unwrap_or_else(|| format!("?{}", p));
                                acts.push(format!("walAppend:{}:{}", n_canon, desc));
                                append_at.resize(acts.len() - 1, None);
                                append_at.push(Some((p.clone(), *start)));
                                buf.drain(..8 + n);
                                *start += (8 + n) as u64;
                            }
                        }
                    }
                }
                Effect::Fsync { path, data_only } => {
                    if *data_only && pending_magic.as_deref() == Some(path.as_str()) {
                        acts.push(format!("walCreate:{}", self.canon_opt(path)));
                        pending_magic = None;
                    }
                }
                Effect::Rename { from: _, to } => {
                    if to == "MANIFEST" {
                        let data = self.shadow.get("MANIFEST").cloned().unwrap_or_default();
                        acts.push(format!("manifestPut:{}", self.show_manifest_bytes(&data)));
                    } else if is_snap(to) {
                        let n = self.canon(to);
                        let p = self.dir.join(to);
                        let desc = match Snapshot::load(&p) {
                            Ok(s) => format!("{}.{}", s.last_wal_seq, s.documents.len()),
                            Err(_) => "unreadable".into(),
                        };
                        acts.push(format!("snapPut:{}:{}", n, desc));
                    } else {
                        acts.push(format!("rename:?{}", to));
                    }
                }
                Effect::Unlink { path } => {
                    if is_wal(path) {
                        acts.push(format!("unlinkWal:{}", self.canon_opt(path)));
                    } else if is_snap(path) {
                        acts.push(format!("unlinkSnap:{}", self.canon_opt(path)));
                    } else {
                        acts.push(format!("unlink:?{}", path));
                    }
                }
                Effect::Truncate { path, len } => {
                    // a rollback that cuts the file back to where this op's append(s) started cancels them
                    append_at.resize(acts.len(), None);
                    let mut cancelled = false;
                    if matches!(&pend, Some((p, start, _)) if p == path && *start >= *len) {
                        pend = None;
                        cancelled = true;
                    }
                    let mut i = 0;
                    while i < acts.len() {
                        let hit = matches!(&append_at[i], Some((p, off)) if p == path && *off >= *len);
                        if hit {
                            acts.remove(i);
                            append_at.remove(i);
                            cancelled = true;
                        } else {
                            i += 1;
                        }
                    }
                    if !cancelled && pre_size != Some(*len) {
                        acts.push(format!("truncate:{}:{}", self.canon_opt(path), len));
                    }
                }
                Effect::FsyncDir => {}
            }
            if do_crash {
                let sh = self.shadow.clone();
                let o = self.recover_at(&sh);
                if self.cfg.ploss {
                    // power failure at the same instant: every directory it may leave
                    for st in self.pl.states() {
                        if st == sh {
                            continue;
                        }
                        let (po, pv) = self.recover_and_view_at(&st);
                        self.ploss_n += 1;
                        if po != o && !self.ploss.contains(&po) {
                            self.ploss.push(po);
                        }
                        if !self.plossv.contains(&pv) {
                            self.plossv.push(pv);
                        }
                    }
                }
                crashes.push(format!("{}:{}", acts.len(), o));
            }
        }
        if let Some((p, _, buf)) = pend.take() {
            if !buf.is_empty() {
                acts.push(format!("walAppend:{}:partial", self.canon_opt(&p)));
            }
        }
        (acts, crashes)
    }

    fn finish(&mut self, out: String) -> String {
        self.ploss.clear();
        self.plossv.clear();
        self.ploss_n = 0;
        let (acts, crashes) = self.consume(true);
        let pl = if self.cfg.ploss {
            format!(
                " ploss={} plossn={} plossv={}",
                if self.ploss.is_empty() { "-".to_string() } else { self.ploss.join("#") },
                self.ploss_n,
                if self.plossv.is_empty() { "-".to_string() } else { self.plossv.join("#") }
            )
        } else {
            String::new()
        };
        format!(
            "{} acts={} crash={}{}",
            out,
            acts.join(";"),
            crashes.join("#"),
            pl
        )
    }
}

fn parse_fsync(s: &str) -> Option<FsyncPolicy> {
    if s == "always" {
        Some(FsyncPolicy::Always)
    } else if s == "never" {
        Some(FsyncPolicy::Never)
    } else {
        s.strip_prefix("periodic:")?.parse().ok().map(FsyncPolicy::Periodic)
    }
}

fn flen_of(op: WalOp, dim: usize, m: &HashMap<String, String>) -> u64 {
    let e = WalEntry {
        op,
        doc_id: 0,
        embedding: vec![0.0; dim],
        metadata: m.clone(),
        seq_no: 0,
        timestamp: 0,
    };
    bincode::serialized_size(&e).unwrap_or(0) + 8
}

pub fn show_disk(w: &World) -> String {
    let man = match std::fs::read(w.dir.join("MANIFEST")) {
        Ok(data) => {
            let s = w.show_manifest_bytes(&data);
            let parts: Vec<&str> = s.split('/').collect();
            if parts.len() == 3 {
                format!("snap:{},seq:{},segs:{}", parts[0], parts[1], parts[2])
            } else {
                s
            }
        }
        Err(_) => "none".into(),
    };
    let mut wals: Vec<(usize, String)> = vec![];
    let mut snaps: Vec<(usize, String)> = vec![];
    if let Ok(rd) = std::fs::read_dir(&w.dir) {
        for e in rd.flatten() {
            let name = e.file_name().to_string_lossy().to_string();
            if is_wal(&name) {
                let n = w.names.get(&name).copied().unwrap_or(usize::MAX);
                let desc = match WalReader::open(e.path()) {
                    Ok(mut r) => match r.read_all() {
                        Ok(es) => es
                            .iter()
                            .map(|en| {
                                format!(
                                    "{}{}{}",
                                    en.seq_no,
                                    match en.op {
                                        WalOp::Insert => "i",
                                        WalOp::Delete => "d",
                                        WalOp::UpdateMetadata => "u",
                                    },
                                    en.doc_id
                                )
                            })
                            .collect::<Vec<_>>()
                            .join("."),
                        Err(_) => "unreadable".into(),
                    },
                    Err(_) => "unreadable".into(),
                };
                wals.push((n, format!("{}:{}", n, desc)));
            } else if is_snap(&name) {
                let n = w.names.get(&name).copied().unwrap_or(usize::MAX);
                let desc = match Snapshot::load(e.path()) {
                    Ok(s) => format!("{}.{}", s.last_wal_seq, s.documents.len()),
                    Err(_) => "corrupt".into(),
                };
                snaps.push((n, format!("{}:{}", n, desc)));
            }
        }
    }
    wals.sort();
    snaps.sort();
    format!(
        "man={} wals={} snaps={}",
        man,
        wals.into_iter().map(|x| x.1).collect::<Vec<_>>().join(";"),
        snaps.into_iter().map(|x| x.1).collect::<Vec<_>>().join(";")
    )
}

pub fn step(w: &mut Option<World>, line: &str, scratch_root: &Path, case_no: &mut usize) -> (String, String) {
    let (op, fs) = split_fields(line);
    let t = line.trim().to_string();
    if op == "cfg" {
        // tear down the previous case
        if let Some(old) = w.take() {
            drop(old.b);
            shim::watch(None);
            let _ = std::fs::remove_dir_all(&old.root);
        }
        let (Some(dim), Some(cap), Some(metric), Some(snap), Some(rot), Some(fsync)) = (
            nat(&fs, "dim"),
            nat(&fs, "cap"),
            field(&fs, "metric").and_then(parse_metric),
            nat(&fs, "snap"),
            nat(&fs, "rot"),
            field(&fs, "fsync").and_then(parse_fsync),
        ) else {
            return (t, "bad-op".into());
        };
        *case_no += 1;
        let root = scratch_root.join(format!("case{}", *case_no));
        let dir = root.join("data");
        std::fs::create_dir_all(&dir).expect("mkdir");
        let dir = dir.canonicalize().expect("canon");
        shim::watch(Some(&dir.to_string_lossy()));
        let wall = nat(&fs, "wall");
        match wall {
            Some(s) => {
                shim::WALL_US.store(s * 1_000_000, std::sync::atomic::Ordering::SeqCst);
                shim::WALL_ON.store(true, std::sync::atomic::Ordering::SeqCst);
            }
            None => shim::WALL_ON.store(false, std::sync::atomic::Ordering::SeqCst),
        }
        let cfg = Cfg {
            dim: dim as usize,
            metric,
            cap: cap as usize,
            snap: snap as usize,
            rot,
            fsync,
            crash: boolean(&fs, "crash").unwrap_or(false),
            torn: boolean(&fs, "torn").unwrap_or(false),
            ploss: boolean(&fs, "ploss").unwrap_or(false),
        };
        let b = HnswBackend::with_persistence(
            cfg.dim,
            cfg.metric,
            vec![],
            vec![],
            cfg.cap,
            &dir,
            cfg.fsync,
            cfg.snap,
            cfg.rot,
        );
        let mut world = World {
            cfg,
            root,
            dir,
            b: None,
            shadow: BTreeMap::new(),
            names: HashMap::new(),
            next_name: 0,
            scratch_n: 0,
            bk: Default::default(),
            wall: false,
            fault_armed: false,
            pl: PowerLoss::default(),
            ploss: vec![],
            ploss_n: 0,
            plossv: vec![],
        };
        world.wall = wall.is_some();
        let out = match b {
            Ok(b) => {
                world.b = Some(b);
                world.finish("ok".into())
            }
            Err(e) => format!("err:{:#}", e),
        };
        *w = Some(world);
        return (t, out);
    }
    let Some(w) = w.as_mut() else {
        return (t, "bad-op:no-cfg".into());
    };
    let bad = || (line.trim().to_string(), "bad-op".to_string());
    if op == "fault" {
        let (Some(call), Some(errno)) = (field(&fs, "call"), nat(&fs, "errno")) else { return bad() };
        shim::arm(shim::Fault {
            call: call.to_string(),
            nth: nat(&fs, "nth").unwrap_or(0) as usize,
            errno: errno as i32,
            short: nat(&fs, "short").map(|x| x as usize),
            path_contains: field(&fs, "path").map(|x| x.to_string()),
        });
        w.fault_armed = true;
        return (t, "armed".into());
    }
    if w.fault_armed && matches!(op.as_str(), "insert" | "delete" | "batch_delete" | "update" | "snapshot" | "restart") {
        let (ann, res) = step_op(w, &op, &fs, &t, line);
        let fired = shim::disarm();
        w.fault_armed = false;
        return (format!("{} io={}", ann, fired.len()), res);
    }
    step_op(w, &op, &fs, &t, line)
}

fn step_op(w: &mut World, op: &str, fs: &Fields, t: &str, line: &str) -> (String, String) {
    let t = t.to_string();
    let op = op.to_string();
    let fs = fs.clone();
    let bad = || (line.trim().to_string(), "bad-op".to_string());
    if op == "tick" || op.starts_with("bk_") {
        return crate::backupeng::step(w, op.as_str(), &fs, &t).unwrap_or_else(bad);
    }
    if w.b.is_none() && op != "restart" && op != "disk" && op != "sweep" {
        return (t, "down".into());
    }
    match op.as_str() {
        "insert" => {
            let (Some(id), Some(v), Some(m)) =
                (nat(&fs, "id"), vec_field(&fs, "v"), meta_field(&fs, "m"))
            else {
                return bad();
            };
            let nums = nums_of(m.values());
            let flen = flen_of(WalOp::Insert, w.cfg.dim, &m);
            let flendel = flen_of(WalOp::Delete, 0, &HashMap::new());
            let r = w.b.as_ref().unwrap().insert(id, v, m.clone());
            let (acc, stored, out) = match r {
                Ok(()) => (
                    "1",
                    show_vec(&w.b.as_ref().unwrap().fetch_document(id).unwrap_or_default()),
                    "ok",
                ),
                Err(e) => {
                    let msg = format!("{:#}", e);
                    if msg.contains("HNSW index full") {
                        ("1", "-".to_string(), "full")
                    } else if msg.contains("HNSW insert failed after WAL append") {
                        ("index", "-".to_string(), "rejected")
                    } else if msg.contains("WAL") || msg.contains("ircuit breaker") {
                        ("io", "-".to_string(), "rejected")
                    } else {
                        ("0", "-".to_string(), "rejected")
                    }
                }
            };
            // an index rejection logged the (normalised) vector it refused: recover it from the log
            let ann = format!(
                "insert id={} stored={} m={} accept={} flen={} flendel={} nums={}",
                id,
                stored,
                show_meta(&m),
                acc,
                flen,
                flendel,
                nums
            );
            (ann, w.finish(out.into()))
        }
        "delete" => {
            let Some(id) = nat(&fs, "id") else { return bad() };
            let flen = flen_of(WalOp::Delete, 0, &HashMap::new());
            let out = match w.b.as_ref().unwrap().delete(id) {
                Ok(b) => show_bool(b).to_string(),
                Err(_) => "err".into(),
            };
            let fail = if out == "err" { " fail=1" } else { "" };
            (format!("delete id={} flen={}{}", id, flen, fail), w.finish(out))
        }
        "batch_delete" => {
            let Some(ids) = nat_list(&fs, "ids") else { return bad() };
            let flen = flen_of(WalOp::Delete, 0, &HashMap::new());
            let out = match w.b.as_ref().unwrap().batch_delete(&ids) {
                Ok(n) => n.to_string(),
                Err(_) => "err".into(),
            };
            let fail = if out == "err" { " fail=1" } else { "" };
            (
                format!("batch_delete ids={} flen={}{}", show_nat_list(&ids), flen, fail),
                w.finish(out),
            )
        }
        "update" => {
            let (Some(id), Some(m), Some(mg)) =
                (nat(&fs, "id"), meta_field(&fs, "m"), boolean(&fs, "merge"))
            else {
                return bad();
            };
            let nums = nums_of(m.values());
            let b = w.b.as_ref().unwrap();
            let merged = {
                let mut base = if mg { b.fetch_metadata(id).unwrap_or_default() } else { HashMap::new() };
                base.extend(m.clone());
                base
            };
            let flen = flen_of(WalOp::UpdateMetadata, 0, &merged);
            let out = match b.update_metadata(id, m.clone(), mg) {
                Ok(x) => show_bool(x).to_string(),
                Err(_) => "err".into(),
            };
            let fail = if out == "err" { " fail=1" } else { "" };
            (
                format!(
                    "update id={} m={} merge={} flen={} nums={}{}",
                    id,
                    show_meta(&m),
                    mg as u8,
                    flen,
                    nums,
                    fail
                ),
                w.finish(out),
            )
        }
        "snapshot" => {
            let out = match w.b.as_ref().unwrap().create_snapshot() {
                Ok(()) => "ok".to_string(),
                Err(e) => format!("err:{:#}", e),
            };
            (t, w.finish(out))
        }
        "restart" => {
            // clean stop at an operation boundary: drop the engine, recover from the directory
            w.b = None;
            let r = HnswBackend::recover(
                w.cfg.dim,
                w.cfg.metric,
                &w.dir,
                w.cfg.cap,
                w.cfg.fsync,
                w.cfg.snap,
                w.cfg.rot,
                MetricsCollector::new(),
            );
            match r {
                Ok(b) => {
                    w.b = Some(b);
                    (t, w.finish("ok".into()))
                }
                Err(e) => {
                    let _ = w.consume(false);
                    (t, err_class(&format!("{:#}", e)).to_string())
                }
            }
        }
        "sweep" => {
            // clean stop, then every single fault on the directory
            w.b = None;
            let _ = w.consume(false);
            let base = w.shadow.clone();
            let pre = w.recover_at(&base);
            let full = field(&fs, "level") == Some("full");
            let seed = nat(&fs, "seed").unwrap_or(0);
            let only = field(&fs, "only").map(|s| s.to_string());
            let faults = crate::damage::enumerate(&base, full, seed);
            let tmp = w.root.join("view");
            std::fs::create_dir_all(&tmp).expect("mkdir view");
            let mut anns = vec![];
            let mut outs = vec![];
            for f in &faults {
                let c = crate::damage::concrete(w, f);
                if let Some(o) = &only {
                    if *o != c {
                        continue;
                    }
                }
                if crate::damage::huge_alloc(&base, f) {
                    anns.push(format!("{}@{}@skip", f.label, c));
                    outs.push("skipped".to_string());
                    continue;
                }
                let v = crate::damage::view(w, &base, f, &tmp);
                let sh = crate::damage::apply(&base, f);
                let o = w.recover_at(&sh);
                anns.push(format!("{}@{}@{}", f.label, c, v));
                outs.push(o);
            }
            (
                format!(
                    "sweep level={} seed={} base={} man={} faults={}",
                    if full { "full" } else { "quick" },
                    seed,
                    pre,
                    base.get("MANIFEST").map(|d| w.show_manifest_bytes(d)).unwrap_or_else(|| "none".into()),
                    if anns.is_empty() { "-".to_string() } else { anns.join("#") }
                ),
                outs.join("#"),
            )
        }
        "census" => (t, docs_census(w.b.as_ref().unwrap())),
        "disk" => (t, show_disk(w)),
        _ => bad(),
    }
}

pub fn run() {
    let stdin = std::io::stdin();
    let stdout = std::io::stdout();
    let mut out = stdout.lock();
    let scratch = std::env::var("KVH_SCRATCH")
        .map(PathBuf::from)
        .unwrap_or_else(|_| std::env::temp_dir().join(format!("kvh.{}", std::process::id())));
    std::fs::create_dir_all(&scratch).expect("scratch");
    let mut w: Option<World> = None;
    let mut case_no = 0usize;
    for line in stdin.lock().lines() {
        let Ok(line) = line else { break };
        let t = line.trim();
        if t.is_empty() || t.starts_with('#') {
            continue;
        }
        let r = std::panic::catch_unwind(std::panic::AssertUnwindSafe(|| {
            step(&mut w, t, &scratch, &mut case_no)
        }));
        match r {
            Ok((ann, res)) => {
                let _ = writeln!(out, "> {}", ann);
                let _ = writeln!(out, "< {}", res);
            }
            Err(_) => {
                let _ = writeln!(out, "> {}", t);
                let _ = writeln!(out, "< panic");
            }
        }
    }
    if let Some(old) = w.take() {
        drop(old.b);
        shim::watch(None);
        let _ = std::fs::remove_dir_all(&old.root);
    }
    let _ = std::fs::remove_dir_all(&scratch);
}
