//! Engine `tiered`: interprets op lines against the real `TieredEngine` (in-process).
//! For every input line prints `> <annotated op>` (what the model driver consumes: oracle
//! inputs such as the stored vector bits and the acceptance verdict are filled in from what the
//! implementation did) and `< <canonical result>`.
use crate::proto::*;
use kyrodb_engine::cache_strategy::{
    AbTestSplitter, CacheStrategy, LearnedCacheStrategy, LruCacheStrategy,
};
use kyrodb_engine::config::DistanceMetric;
use kyrodb_engine::coherence::{digest_embedding, VectorCoherenceToken};
use kyrodb_engine::tiered_engine::{PointQueryTier, TieredEngine, TieredEngineConfig};
use kyrodb_engine::{
    AccessEvent, AccessType, CachedVector, LearnedCachePredictor, QueryHashCache, SemanticAdapter,
};
use parking_lot::Mutex;
use std::collections::{BTreeSet, HashMap};
use std::io::{BufRead, Write};
use std::sync::Arc;
use std::time::{Duration, Instant, SystemTime};

/// Observing wrapper around the real strategy: records `should_cache` verdicts.
pub struct Obs {
    inner: Arc<dyn CacheStrategy>,
    log: Mutex<Vec<bool>>,
}
impl CacheStrategy for Obs {
    fn get_cached(&self, doc_id: u64) -> Option<CachedVector> {
        self.inner.get_cached(doc_id)
    }
    fn peek_cached(&self, doc_id: u64) -> Option<CachedVector> {
        self.inner.peek_cached(doc_id)
    }
    fn should_cache(&self, doc_id: u64, embedding: &[f32]) -> bool {
        let r = self.inner.should_cache(doc_id, embedding);
        self.log.lock().push(r);
        r
    }
    fn insert_cached(&self, cached_vector: CachedVector) {
        self.inner.insert_cached(cached_vector)
    }
    fn invalidate(&self, doc_id: u64) {
        self.inner.invalidate(doc_id)
    }
    fn name(&self) -> &str {
        self.inner.name()
    }
    fn stats(&self) -> String {
        self.inner.stats()
    }
    fn size(&self) -> usize {
        self.inner.size()
    }
}

pub struct World {
    pub engine: TieredEngine,
    pub obs: Arc<Obs>,
    pub learned: Option<Arc<LearnedCacheStrategy>>,
    pub qc: Arc<QueryHashCache>,
    pub ids: BTreeSet<u64>,
    pub metric: DistanceMetric,
    pub ef_default: usize,
}

pub fn parse_metric(s: &str) -> Option<DistanceMetric> {
    match s {
        "l2" => Some(DistanceMetric::Euclidean),
        "cos" => Some(DistanceMetric::Cosine),
        "ip" => Some(DistanceMetric::InnerProduct),
        _ => None,
    }
}

fn build(fs: &Fields) -> Option<World> {
    let strat = field(fs, "strat")?;
    let cap = nat(fs, "cap")? as usize;
    let hard = nat(fs, "hard")? as usize;
    let soft = nat(fs, "soft")? as usize;
    let dim = nat(fs, "dim")? as usize;
    let metric = parse_metric(field(fs, "metric").unwrap_or("l2"))?;
    let qcap = nat(fs, "qcap").unwrap_or(8) as usize;
    let mut learned = None;
    let mk_learned = |sem: bool| -> Arc<LearnedCacheStrategy> {
        let p = LearnedCachePredictor::new(cap.max(1)).expect("predictor");
        if sem {
            Arc::new(LearnedCacheStrategy::new_with_semantic(
                cap,
                p,
                SemanticAdapter::new(),
            ))
        } else {
            Arc::new(LearnedCacheStrategy::new(cap, p))
        }
    };
    let inner: Arc<dyn CacheStrategy> = match strat {
        "lru" => Arc::new(LruCacheStrategy::new(cap)),
        "learned" => {
            let l = mk_learned(false);
            learned = Some(l.clone());
            l
        }
        "learned_sem" => {
            let l = mk_learned(true);
            learned = Some(l.clone());
            l
        }
        "ab" => {
            let l = mk_learned(false);
            learned = Some(l.clone());
            Arc::new(AbTestSplitter::new(
                Arc::new(LruCacheStrategy::new(cap)),
                l as Arc<dyn CacheStrategy>,
            ))
        }
        _ => return None,
    };
    let obs = Arc::new(Obs {
        inner,
        log: Mutex::new(vec![]),
    });
    let qc = Arc::new(QueryHashCache::new(qcap, 0.52));
    let config = TieredEngineConfig {
        hot_tier_max_size: soft,
        hot_tier_hard_limit: hard,
        hot_tier_max_age: Duration::from_secs(1_000_000),
        hnsw_max_elements: nat(fs, "maxel").unwrap_or(100_000) as usize,
        embedding_dimension: dim,
        hnsw_distance: metric,
        data_dir: None,
        ..Default::default()
    };
    let engine = TieredEngine::new_with_shared_strategy(
        obs.clone() as Arc<dyn CacheStrategy>,
        qc.clone(),
        vec![],
        vec![],
        config,
    )
    .ok()?;
    Some(World {
        engine,
        obs,
        learned,
        qc,
        ids: BTreeSet::new(),
        metric,
        ef_default: 50,
    })
}

fn tier_name(t: PointQueryTier) -> &'static str {
    match t {
        PointQueryTier::Cache => "cache",
        PointQueryTier::HotTier => "hot",
        PointQueryTier::ColdTier => "cold",
    }
}

fn strip_op(line: &str) -> String {
    line.trim().to_string()
}

/// returns (annotated op, result)
pub fn step(w: &mut Option<World>, line: &str) -> (String, String) {
    let (op, fs) = split_fields(line);
    if op == "cfg" {
        return match build(&fs) {
            Some(world) => {
                *w = Some(world);
                // the model's strategy kinds: learned_sem behaves as learned w.r.t. the cache
                let ann = line.replace("strat=learned_sem", "strat=learned");
                (strip_op(&ann), "ok".into())
            }
            None => (strip_op(line), "bad-op".into()),
        };
    }
    let Some(w) = w.as_mut() else {
        return (strip_op(line), "bad-op:no-cfg".into());
    };
    if let Some(id) = nat(&fs, "id") {
        w.ids.insert(id);
    }
    if let Some(ids) = nat_list(&fs, "ids") {
        w.ids.extend(ids);
    }
    let bad = || (strip_op(line), "bad-op".to_string());
    match op.as_str() {
        "insert" => {
            let (Some(id), Some(v), Some(m)) =
                (nat(&fs, "id"), vec_field(&fs, "v"), meta_field(&fs, "m"))
            else {
                return bad();
            };
            let r = w.engine.insert(id, v, m.clone());
            match r {
                Ok(()) => {
                    let stored = w.engine.cold_tier().fetch_document(id).unwrap_or_default();
                    (
                        format!(
                            "insert id={} stored={} m={} accept=1 nums={}",
                            id,
                            show_vec(&stored),
                            show_meta(&m),
                            crate::store::nums_of(m.values())
                        ),
                        "ok".into(),
                    )
                }
                Err(e) => {
                    let msg = format!("{:#}", e);
                    let out = if msg.contains("emergency flush failed") {
                        "drain_failed"
                    } else {
                        "rejected"
                    };
                    (
                        format!("insert id={} stored=- m={} accept=0", id, show_meta(&m)),
                        out.into(),
                    )
                }
            }
        }
        "delete" => {
            let Some(id) = nat(&fs, "id") else { return bad() };
            match w.engine.delete(id) {
                Ok(b) => (strip_op(line), show_bool(b).into()),
                Err(e) => (strip_op(line), format!("err:{:#}", e)),
            }
        }
        "batch_delete" => {
            let Some(ids) = nat_list(&fs, "ids") else { return bad() };
            match w.engine.batch_delete(&ids) {
                Ok(n) => (strip_op(line), n.to_string()),
                Err(e) => (strip_op(line), format!("err:{:#}", e)),
            }
        }
        "update" => {
            let (Some(id), Some(m), Some(mg)) =
                (nat(&fs, "id"), meta_field(&fs, "m"), boolean(&fs, "merge"))
            else {
                return bad();
            };
            let nums = crate::store::nums_of(m.values());
            match w.engine.update_metadata(id, m, mg) {
                Ok(b) => (format!("{} nums={}", strip_op(line), nums), show_bool(b).into()),
                Err(e) => (strip_op(line), format!("err:{:#}", e)),
            }
        }
        "bulk_load" => {
            let Some(docs_s) = field(&fs, "docs") else { return bad() };
            let mut docs = vec![];
            if docs_s != "-" {
                for rec in docs_s.split('/') {
                    let parts: Vec<&str> = rec.split(';').collect();
                    if parts.len() != 3 {
                        return bad();
                    }
                    let (Some(id), Some(v), Some(m)) = (
                        parts[0].parse::<u64>().ok(),
                        parse_vec(parts[1]),
                        parse_meta(parts[2]),
                    ) else {
                        return bad();
                    };
                    w.ids.insert(id);
                    docs.push((id, v, m));
                }
            }
            // Per-document acceptance is observed through the canonical version counter: every
            // accepted cold insert of an id bumps its version by one (a fresh id starts at 1).
            let ver = |w: &World, id: u64| -> u64 {
                w.engine
                    .cold_tier()
                    .current_coherence_token(id)
                    .map(|t| t.version)
                    .unwrap_or(0)
            };
            let mut before: HashMap<u64, u64> = HashMap::new();
            let mut occ: HashMap<u64, u64> = HashMap::new();
            for (id, _, _) in &docs {
                before.entry(*id).or_insert_with(|| ver(w, *id));
                *occ.entry(*id).or_insert(0) += 1;
            }
            let metas: Vec<(u64, HashMap<String, String>)> =
                docs.iter().map(|(id, _, m)| (*id, m.clone())).collect();
            let loaded = w
                .engine
                .bulk_load_cold_tier(docs)
                .map(|(l, _f, _, _)| l)
                .unwrap_or(0);
            let mut ann = vec![];
            let all_vals: Vec<String> = metas.iter().flat_map(|(_, m)| m.values().cloned()).collect();
            let bl_nums = crate::store::nums_of(all_vals.iter());
            for (id, m) in metas {
                let delta = ver(w, id) - before[&id];
                if delta == occ[&id] {
                    let stored = w.engine.cold_tier().fetch_document(id).unwrap_or_default();
                    ann.push(format!("{};{};{};1", id, show_vec(&stored), show_meta(&m)));
                } else if delta == 0 {
                    ann.push(format!("{};-;{};0", id, show_meta(&m)));
                } else {
                    ann.push(format!("{};-;{};ambiguous", id, show_meta(&m)));
                }
            }
            (
                format!(
                    "bulk_load docs={} nums={}",
                    if ann.is_empty() { "-".to_string() } else { ann.join("/") },
                    bl_nums
                ),
                format!("loaded={}", loaded),
            )
        }
        "flush" => {
            let Some(force) = boolean(&fs, "force") else { return bad() };
            match w.engine.flush_hot_tier(force) {
                Ok(n) => (strip_op(line), format!("ok {}", n)),
                Err(_) => (strip_op(line), "err".into()),
            }
        }
        "query" => {
            let Some(id) = nat(&fs, "id") else { return bad() };
            w.obs.log.lock().clear();
            let r = w.engine.query_with_source(id, None);
            let log = w.obs.log.lock().clone();
            let admit = match log.as_slice() {
                [] => "-".to_string(),
                [b] => (if *b { "1" } else { "0" }).to_string(),
                _ => "multi".to_string(),
            };
            let consulted = !log.is_empty();
            (
                format!("query id={} admit={}", id, admit),
                match r {
                    None => format!("none adm={}", consulted as u8),
                    Some((v, t)) => {
                        format!("some {} {} adm={}", tier_name(t), show_vec(&v), consulted as u8)
                    }
                },
            )
        }
        "doc_meta" => {
            let Some(id) = nat(&fs, "id") else { return bad() };
            (
                strip_op(line),
                match w.engine.get_document_with_metadata(id) {
                    None => "none".into(),
                    Some((v, m)) => format!("some {} {}", show_vec(&v), show_meta(&m)),
                },
            )
        }
        "emb_aware" => {
            let Some(id) = nat(&fs, "id") else { return bad() };
            (
                strip_op(line),
                match w.engine.get_embedding_cache_aware(id) {
                    None => "none".into(),
                    Some(v) => format!("some {}", show_vec(&v)),
                },
            )
        }
        "get_meta" => {
            let Some(id) = nat(&fs, "id") else { return bad() };
            (
                strip_op(line),
                match w.engine.get_metadata(id) {
                    None => "none".into(),
                    Some(m) => format!("some {}", show_meta(&m)),
                },
            )
        }
        "exists" => {
            let Some(id) = nat(&fs, "id") else { return bad() };
            (strip_op(line), show_bool(w.engine.exists(id)).into())
        }
        "bulk_query" => {
            let (Some(ids), Some(emb)) = (nat_list(&fs, "ids"), boolean(&fs, "emb")) else {
                return bad();
            };
            let rs = w.engine.bulk_query_with_source(&ids, emb);
            let parts: Vec<String> = rs
                .into_iter()
                .map(|r| match r {
                    None => "none".to_string(),
                    Some((v, m, t)) => {
                        format!("{}~{}~{}", tier_name(t), show_vec(&v), show_meta(&m))
                    }
                })
                .collect();
            (strip_op(line), format!("[{}]", parts.join(";")))
        }
        "poke_cache" | "poke_hot" => {
            let Some(id) = nat(&fs, "id") else { return bad() };
            let cur_vec = w.engine.cold_tier().fetch_document(id);
            let cur_ver = w
                .engine
                .cold_tier()
                .current_coherence_token(id)
                .map(|t| t.version);
            let norm = |mut v: Vec<f32>| -> Vec<f32> {
                if !matches!(w.metric, DistanceMetric::Euclidean) {
                    let n = v.iter().map(|x| x * x).sum::<f32>().sqrt();
                    if n > 0.0 && n.is_finite() {
                        for x in v.iter_mut() {
                            *x /= n;
                        }
                    }
                }
                v
            };
            let alt = match vec_field(&fs, "alt") {
                Some(a) => norm(a),
                None => return bad(),
            };
            let v = match field(&fs, "v") {
                Some("@cur") => cur_vec.clone().unwrap_or_else(|| alt.clone()),
                Some(x) => match parse_vec(x) {
                    Some(v) => norm(v),
                    None => return bad(),
                },
                None => return bad(),
            };
            let ver = match field(&fs, "ver") {
                Some("@cur") => cur_ver.unwrap_or(1),
                Some("@cur-1") => cur_ver.unwrap_or(1).saturating_sub(1),
                Some("@cur+1") => cur_ver.unwrap_or(1) + 1,
                Some(x) => match x.parse::<u64>() {
                    Ok(n) => n,
                    Err(_) => return bad(),
                },
                None => return bad(),
            };
            let dv = match field(&fs, "dig") {
                Some("@cur") => cur_vec.clone().unwrap_or_else(|| v.clone()),
                Some("@v") => v.clone(),
                Some(x) => match parse_vec(x) {
                    Some(v) => v,
                    None => return bad(),
                },
                None => return bad(),
            };
            let tok = VectorCoherenceToken::new(ver, digest_embedding(&dv));
            if op == "poke_cache" {
                w.obs.insert_cached(CachedVector {
                    doc_id: id,
                    embedding: v.clone(),
                    coherence: tok,
                    distance: 0.0,
                    cached_at: Instant::now(),
                });
                (
                    format!(
                        "poke_cache id={} v={} ver={} dig={}",
                        id,
                        show_vec(&v),
                        ver,
                        show_vec(&dv)
                    ),
                    "ok".into(),
                )
            } else {
                let Some(m) = meta_field(&fs, "m") else { return bad() };
                w.engine
                    .hot_tier()
                    .insert_with_coherence(id, v.clone(), m.clone(), tok);
                (
                    format!(
                        "poke_hot id={} v={} m={} ver={} dig={} nums={}",
                        id,
                        show_vec(&v),
                        show_meta(&m),
                        ver,
                        show_vec(&dv),
                        crate::store::nums_of(m.values())
                    ),
                    "ok".into(),
                )
            }
        }
        "delete_by_filter" => {
            let Some(f) = field(&fs, "f") else { return bad() };
            let mut strings = vec![];
            let Some(flt) = crate::store::filter_from_field(f, &mut strings) else {
                return (strip_op(line), "bad-op:filter".into());
            };
            let nums = crate::store::nums_of(strings.iter());
            match w.engine.batch_delete_by_metadata_filter(&flt) {
                Ok(n) => (format!("delete_by_filter f={} nums={}", f, nums), n.to_string()),
                Err(e) => (strip_op(line), format!("err:{:#}", e)),
            }
        }
        "train" => {
            // trains the learned predictor on a synthetic access log (affects only admission bits,
            // which the model receives as oracle inputs)
            let Some(ids) = nat_list(&fs, "ids") else { return bad() };
            if let Some(l) = &w.learned {
                let mut p = LearnedCachePredictor::new(l.cache.capacity().max(1)).expect("p");
                let ev: Vec<AccessEvent> = ids
                    .iter()
                    .map(|&d| AccessEvent {
                        doc_id: d,
                        timestamp: SystemTime::now(),
                        access_type: AccessType::Read,
                    })
                    .collect();
                let _ = p.train_from_accesses(&ev);
                l.update_predictor(p);
            }
            (strip_op(line), "ok".into())
        }
        "knn" => {
            // k-NN through the real engine; the annotated line carries what the two tiers return
            // for this query right now (the merge model's inputs).  `ef` given => cache bypassed.
            let (Some(q0), Some(k)) = (vec_field(&fs, "q"), nat(&fs, "k")) else { return bad() };
            let k = k as usize;
            // the engine normalises an out-of-band query for Cosine/InnerProduct before it asks the
            // tiers; same arithmetic here (the SIMD kernels are the build-time copy of simd.rs)
            let q: Vec<f32> = if matches!(w.metric, DistanceMetric::Cosine | DistanceMetric::InnerProduct) && !q0.is_empty() {
                let ns = crate::mem::sum_squares(&q0);
                if ns > f32::EPSILON && !(0.98f32..=1.02f32).contains(&ns) {
                    let inv = 1.0 / ns.sqrt();
                    q0.iter().map(|x| x * inv).collect()
                } else {
                    q0.clone()
                }
            } else {
                q0.clone()
            };
            let ef = nat(&fs, "ef").map(|x| x as usize);
            let scope = nat(&fs, "scope").unwrap_or(0);
            let hot = w.engine.hot_tier();
            let cold = w.engine.cold_tier();
            let key = |d: f32| -> u64 {
                // monotone key of a finite float; -0.0 and +0.0 coincide
                let d = if d == 0.0 { 0.0f32 } else { d };
                let b = d.to_bits();
                if b & 0x8000_0000 != 0 { (!b) as u64 } else { (b | 0x8000_0000) as u64 }
            };
            let kk = k.saturating_mul(2);
            // the WHOLE content of the recent-write tier in scan order (the engine widens its cut
            // past stale mirrors, so the model needs what lies behind the first 2k)
            let hot_raw = if kk > 0 { hot.knn_search(&q, hot.len().saturating_add(1)) } else { vec![] };
            let hot_ann: Vec<String> = hot_raw
                .iter()
                .map(|(id, d)| {
                    let m = match (hot.peek_with_coherence(*id), cold.current_coherence_token(*id)) {
                        (Some((emb, tok)), Some(ctok)) => {
                            (tok == ctok && kyrodb_engine::coherence::embedding_matches_token(&emb, tok)) as u8
                        }
                        _ => 0,
                    };
                    format!("{}:{}:{}:{}", id, key(*d), d.to_bits(), m)
                })
                .collect();
            let cold_raw = if !cold.is_empty() && k > 0 && k <= 10_000 {
                cold.knn_search_with_ef(&q, kk, ef.or(Some(w.ef_default))).unwrap_or_default()
            } else {
                vec![]
            };
            let cold_ann: Vec<String> = cold_raw
                .iter()
                .map(|r| format!("{}:{}:{}", r.doc_id, key(r.distance), r.distance.to_bits()))
                .collect();
            let hot_ids: Vec<u64> = w.ids.iter().copied().filter(|&id| hot.exists(id)).collect();
            let r = w.engine.knn_search_with_ef_detailed_scoped(&q0, k, ef, scope);
            let cachehit = matches!(&r, Ok((_, p)) if format!("{:?}", p) == "CacheHit");
            let out = match r {
                Ok((res, path)) => format!(
                    "ok path={:?} res={}",
                    path,
                    if res.is_empty() {
                        "-".to_string()
                    } else {
                        res.iter()
                            .map(|r| format!("{}:{}:{}", r.doc_id, key(r.distance), r.distance.to_bits()))
                            .collect::<Vec<_>>()
                            .join(",")
                    }
                ),
                Err(_) => "rejected".into(),
            };
            (
                format!(
                    "knn q={} qn={} k={} ef={} scope={} cachehit={} hot={} cold={} hotset={}",
                    show_vec(&q0),
                    show_vec(&q),
                    k,
                    ef.map(|e| e.to_string()).unwrap_or_else(|| "-".into()),
                    scope,
                    cachehit as u8,
                    if hot_ann.is_empty() { "-".to_string() } else { hot_ann.join(",") },
                    if cold_ann.is_empty() { "-".to_string() } else { cold_ann.join(",") },
                    show_nat_list(&hot_ids)
                ),
                out,
            )
        }
        "sizes" => {
            let l1a_keys: Vec<u64> = w
                .ids
                .iter()
                .copied()
                .filter(|&id| w.obs.peek_cached(id).is_some())
                .collect();
            let hot_keys: Vec<u64> = w
                .ids
                .iter()
                .copied()
                .filter(|&id| w.engine.hot_tier().exists(id))
                .collect();
            (
                strip_op(line),
                format!(
                    "l1a={} hot={} l1a_keys={} hot_keys={}",
                    w.engine.cache_size(),
                    w.engine.hot_tier().len(),
                    show_nat_list(&l1a_keys),
                    show_nat_list(&hot_keys)
                ),
            )
        }
        "census" => {
            let mut ids = w.engine.cold_tier().scan(|_| true);
            ids.sort_unstable();
            let parts: Vec<String> = ids
                .iter()
                .map(|&id| {
                    let v = w.engine.cold_tier().fetch_document(id).unwrap_or_default();
                    let m = w.engine.cold_tier().fetch_metadata(id).unwrap_or_default();
                    format!("{}~{}~{}", id, show_vec(&v), show_meta(&m))
                })
                .collect();
            (strip_op(line), format!("[{}]", parts.join(";")))
        }
        _ => bad(),
    }
}

pub fn run() {
    let stdin = std::io::stdin();
    let stdout = std::io::stdout();
    let mut out = stdout.lock();
    let mut w: Option<World> = None;
    for line in stdin.lock().lines() {
        let Ok(line) = line else { break };
        let t = line.trim();
        if t.is_empty() || t.starts_with('#') {
            continue;
        }
        let r = std::panic::catch_unwind(std::panic::AssertUnwindSafe(|| step(&mut w, t)));
        match r {
            Ok((ann, res)) => {
                if ann.starts_with('#') {
                    continue;
                }
                let _ = writeln!(out, "> {}", ann);
                let _ = writeln!(out, "< {}", res);
            }
            Err(p) => {
                let msg = p
                    .downcast_ref::<String>()
                    .cloned()
                    .or_else(|| p.downcast_ref::<&str>().map(|s| s.to_string()))
                    .unwrap_or_default();
                let _ = writeln!(out, "> {}", t);
                let _ = writeln!(out, "< panic:{}", msg.replace('\n', " "));
            }
        }
    }
}
