//! C13: single-fault sweep over a cleanly stopped data directory (part of the `persist` engine).
//! For every fault the harness reports (a) what the real per-file readers see in the damaged file
//! in isolation — the model's input — and (b) the outcome of the real strict `recover` on the
//! damaged directory — what the model must predict.
use crate::persist::World;
use kyrodb_engine::persistence::{Manifest, Snapshot, WalEntry, WalReader};
use std::collections::BTreeMap;

#[derive(Clone, Debug)]
pub enum Dmg {
    Remove,
    Trunc(usize),
    Flip(usize, u8),
}

pub struct Fault {
    pub file: String,
    pub dmg: Dmg,
    pub label: String,
}

fn is_wal(p: &str) -> bool {
    p.starts_with("wal_") && p.ends_with(".wal")
}
fn is_snap(p: &str) -> bool {
    p.starts_with("snapshot_") && p.ends_with(".snap")
}

/// frame table of a clean segment: (offset of the length field, payload length)
pub fn frames_of(data: &[u8]) -> Vec<(usize, usize)> {
    let mut v = vec![];
    let mut off = 4usize;
    while off + 4 <= data.len() {
        let n = u32::from_le_bytes([data[off], data[off + 1], data[off + 2], data[off + 3]]) as usize;
        if n == 0 || off + 8 + n > data.len() {
            break;
        }
        v.push((off, n));
        off += 8 + n;
    }
    v
}

struct Lcg(u64);
impl Lcg {
    fn next(&mut self, n: usize) -> usize {
        self.0 = self.0.wrapping_mul(6364136223846793005).wrapping_add(1442695040888963407);
        ((self.0 >> 33) as usize) % n.max(1)
    }
}

pub fn enumerate(base: &BTreeMap<String, Vec<u8>>, full: bool, seed: u64) -> Vec<Fault> {
    let mut out = vec![];
    let mut rng = Lcg(seed ^ 0x5DEECE66D);
    let manifest: Option<Manifest> = base.get("MANIFEST").and_then(|d| serde_json::from_slice(d).ok());
    let listed: Vec<String> = manifest.as_ref().map(|m| m.wal_segments.clone()).unwrap_or_default();
    let pointed: Option<String> = manifest.as_ref().and_then(|m| m.latest_snapshot.clone());
    for (name, data) in base {
        let len = data.len();
        if name == "MANIFEST" {
            out.push(Fault { file: name.clone(), dmg: Dmg::Remove, label: "manifest.remove".into() });
            for t in [0usize, 1, len / 2, len.saturating_sub(1)] {
                if t < len {
                    out.push(Fault { file: name.clone(), dmg: Dmg::Trunc(t), label: "manifest.trunc".into() });
                }
            }
            let bits: &[u8] = if full { &[0, 1, 2, 3, 4, 5, 6, 7] } else { &[0, 2, 5] };
            for off in 0..len {
                for &b in bits {
                    out.push(Fault { file: name.clone(), dmg: Dmg::Flip(off, b), label: "manifest.flip".into() });
                }
            }
        } else if is_wal(name) {
            let pos = if listed.last() == Some(name) {
                "newest"
            } else if listed.contains(name) {
                "old"
            } else {
                "unlisted"
            };
            out.push(Fault { file: name.clone(), dmg: Dmg::Remove, label: format!("wal.remove.{pos}") });
            let frames = frames_of(data);
            // truncations
            let mut cuts: Vec<(usize, &str)> = vec![(0, "magic"), (3, "magic"), (4, "boundary")];
            for &(off, n) in &frames {
                for (c, what) in [
                    (off + 1, "len"),
                    (off + 4, "payload"),
                    (off + 4 + n / 2, "payload"),
                    (off + 4 + n, "crc"),
                    (off + 8 + n - 1, "crc"),
                    (off + 8 + n, "boundary"),
                ] {
                    cuts.push((c, what));
                }
            }
            if full {
                for c in 0..len {
                    cuts.push((c, "any"));
                }
            } else {
                for _ in 0..4 {
                    cuts.push((rng.next(len), "any"));
                }
            }
            cuts.sort();
            cuts.dedup_by_key(|c| c.0);
            let field_at = |o: usize| -> &'static str {
                if o < 4 {
                    return "magic";
                }
                for &(off, n) in &frames {
                    if o >= off && o < off + 4 {
                        return "len";
                    }
                    if o >= off + 4 && o < off + 4 + n {
                        return "payload";
                    }
                    if o >= off + 4 + n && o < off + 8 + n {
                        return "crc";
                    }
                }
                "tail"
            };
            for (c, what) in cuts {
                if c < len {
                    let what = if what == "any" { if frames.iter().any(|&(off, _)| off == c) { "boundary" } else { field_at(c) } } else { what };
                    out.push(Fault { file: name.clone(), dmg: Dmg::Trunc(c), label: format!("wal.trunc.{what}.{pos}") });
                }
            }
            // flips
            let mut flips: Vec<(usize, u8, &str)> = vec![(0, 0, "magic"), (3, 7, "magic")];
            for (fi, &(off, n)) in frames.iter().enumerate() {
                let all_bits = full || fi == frames.len() / 2;
                if all_bits {
                    for b in 0..32usize {
                        flips.push((off + b / 8, (b % 8) as u8, "len"));
                        flips.push((off + 4 + n + b / 8, (b % 8) as u8, "crc"));
                    }
                } else {
                    for (byte, bit) in [(0usize, 0u8), (0, 6), (1, 0), (2, 0), (3, 2), (3, 7)] {
                        flips.push((off + byte, bit, "len"));
                    }
                    flips.push((off + 4 + n, 0, "crc"));
                    flips.push((off + 4 + n + 3, 7, "crc"));
                }
                flips.push((off + 4, 0, "payload"));
                flips.push((off + 4 + n / 2, 3, "payload"));
                flips.push((off + 4 + n - 1, 7, "payload"));
                if full {
                    for k in 0..n {
                        flips.push((off + 4 + k, (k % 8) as u8, "payload"));
                    }
                }
            }
            for _ in 0..(if full { 64 } else { 6 }) {
                flips.push((rng.next(len), rng.next(8) as u8, "any"));
            }
            flips.sort();
            flips.dedup_by_key(|f| (f.0, f.1));
            for (off, bit, what) in flips {
                if off < len {
                    let what = if what == "any" { field_at(off) } else { what };
                    out.push(Fault { file: name.clone(), dmg: Dmg::Flip(off, bit), label: format!("wal.flip.{what}.{pos}") });
                }
            }
        } else if is_snap(name) {
            let pos = if pointed.as_ref() == Some(name) { "pointed" } else { "other" };
            out.push(Fault { file: name.clone(), dmg: Dmg::Remove, label: format!("snap.remove.{pos}") });
            let mut cuts = vec![0usize, 3, 4, 11, 12, 13, len / 2, len.saturating_sub(5), len.saturating_sub(4), len.saturating_sub(1)];
            if full {
                cuts.extend((0..len).step_by(7));
            } else {
                for _ in 0..3 {
                    cuts.push(rng.next(len));
                }
            }
            cuts.sort();
            cuts.dedup();
            for c in cuts {
                if c < len {
                    out.push(Fault { file: name.clone(), dmg: Dmg::Trunc(c), label: format!("snap.trunc.{pos}") });
                }
            }
            let mut flips: Vec<(usize, u8, &str)> = vec![(0, 0, "magic"), (3, 7, "magic")];
            for b in 0..64usize {
                if full || b % 5 == 0 || b == 63 {
                    flips.push((4 + b / 8, (b % 8) as u8, "size"));
                }
            }
            if len > 16 {
                flips.push((12, 0, "version"));
                flips.push((12 + (len - 16) / 2, 3, "payload"));
                flips.push((len - 5, 7, "payload"));
                flips.push((len - 4, 0, "crc"));
                flips.push((len - 1, 7, "crc"));
                let extra = if full { 200 } else { 8 };
                for _ in 0..extra {
                    flips.push((12 + rng.next(len - 16), rng.next(8) as u8, "payload"));
                }
            }
            flips.sort();
            flips.dedup_by_key(|f| (f.0, f.1));
            for (off, bit, what) in flips {
                if off < len {
                    out.push(Fault { file: name.clone(), dmg: Dmg::Flip(off, bit), label: format!("snap.flip.{what}.{pos}") });
                }
            }
        }
    }
    out
}

/// a flip in a snapshot's size field that asks `Snapshot::load` for a buffer of >= 32 GiB: the
/// real loader either aborts in the allocator or fails with EOF, depending on host memory; it is
/// not run in-process (an abort would take the harness down)
pub fn huge_alloc(base: &BTreeMap<String, Vec<u8>>, f: &Fault) -> bool {
    if !is_snap(&f.file) {
        return false;
    }
    let d = apply(base, f);
    match d.get(&f.file) {
        Some(b) if b.len() >= 12 => {
            let mut sz = [0u8; 8];
            sz.copy_from_slice(&b[4..12]);
            u64::from_le_bytes(sz) >= (1u64 << 35)
        }
        _ => false,
    }
}

pub fn apply(base: &BTreeMap<String, Vec<u8>>, f: &Fault) -> BTreeMap<String, Vec<u8>> {
    let mut sh = base.clone();
    match f.dmg {
        Dmg::Remove => {
            sh.remove(&f.file);
        }
        Dmg::Trunc(n) => {
            if let Some(d) = sh.get_mut(&f.file) {
                d.truncate(n);
            }
        }
        Dmg::Flip(off, bit) => {
            if let Some(d) = sh.get_mut(&f.file) {
                if off < d.len() {
                    d[off] ^= 1 << bit;
                }
            }
        }
    }
    sh
}

pub fn concrete(w: &World, f: &Fault) -> String {
    let file = if f.file == "MANIFEST" { "M".to_string() } else { w.canon_name(&f.file) };
    match f.dmg {
        Dmg::Remove => format!("{file}:rm"),
        Dmg::Trunc(n) => format!("{file}:tr:{n}"),
        Dmg::Flip(o, b) => format!("{file}:fl:{o}.{b}"),
    }
}

/// canonical content of a log entry (the metadata is a HashMap: its serialisation order differs
/// between two decoded instances of the same bytes, so the serialised form cannot be compared)
fn entry_bytes(e: &WalEntry) -> Vec<u8> {
    let mut md: Vec<(&String, &String)> = e.metadata.iter().collect();
    md.sort();
    let emb: Vec<u32> = e.embedding.iter().map(|x| x.to_bits()).collect();
    format!("{:?}|{}|{:?}|{:?}|{}|{}", e.op, e.doc_id, emb, md, e.seq_no, e.timestamp).into_bytes()
}

/// what the real readers see in the damaged file, in isolation
pub fn view(w: &World, base: &BTreeMap<String, Vec<u8>>, f: &Fault, tmp: &std::path::Path) -> String {
    let sh_file: Option<Vec<u8>> = match f.dmg {
        Dmg::Remove => None,
        _ => apply(base, f).get(&f.file).cloned(),
    };
    if f.file == "MANIFEST" {
        return match sh_file {
            None => "mgone".into(),
            Some(d) => match std::str::from_utf8(&d) {
                Ok(_) => format!("m:{}", w.show_manifest_view(&d)),
                Err(_) => "m:unparsable".into(),
            },
        };
    }
    let n = w.canon_name(&f.file);
    if is_wal(&f.file) {
        let Some(d) = sh_file else { return format!("wgone:{n}") };
        let p = tmp.join("view.wal");
        std::fs::write(&p, &d).expect("tmp write");
        let clean: Vec<WalEntry> = WalReader::open_bytes_compat(base.get(&f.file).unwrap(), tmp);
        match WalReader::open(&p) {
            Err(_) => format!("wopen:{n}"),
            Ok(mut r) => match r.read_all() {
                Err(_) => format!("wopen:{n}"),
                Ok(es) => {
                    let mut alt = false;
                    for e in &es {
                        match clean.iter().find(|c| c.seq_no == e.seq_no) {
                            Some(c) => {
                                if entry_bytes(c) != entry_bytes(e) {
                                    alt = true;
                                }
                            }
                            None => alt = true,
                        }
                    }
                    let seqs: Vec<String> = es.iter().map(|e| e.seq_no.to_string()).collect();
                    format!(
                        "wsees:{n}:{}:{}{}",
                        if seqs.is_empty() { "-".to_string() } else { seqs.join(",") },
                        r.corrupted_entries(),
                        if alt { ":alt" } else { "" }
                    )
                }
            },
        }
    } else {
        let Some(d) = sh_file else { return format!("sgone:{n}") };
        let p = tmp.join("view.snap");
        std::fs::write(&p, &d).expect("tmp write");
        match Snapshot::load(&p) {
            Err(_) => format!("sbad:{n}"),
            Ok(s) => {
                let pc = tmp.join("clean.snap");
                std::fs::write(&pc, base.get(&f.file).unwrap()).expect("tmp write");
                let same = match Snapshot::load(&pc) {
                    Ok(c) => snap_canon(&c) == snap_canon(&s),
                    Err(_) => false,
                };
                if same { format!("sok:{n}") } else { format!("salt:{n}") }
            }
        }
    }
}

/// canonical content of a snapshot (metadata maps sorted; see `entry_bytes`)
fn snap_canon(s: &Snapshot) -> String {
    let docs: Vec<(u64, Vec<u32>)> =
        s.documents.iter().map(|(id, v)| (*id, v.iter().map(|x| x.to_bits()).collect())).collect();
    let md: Vec<(u64, Vec<(&String, &String)>)> = s
        .metadata
        .iter()
        .map(|(id, m)| {
            let mut kv: Vec<(&String, &String)> = m.iter().collect();
            kv.sort();
            (*id, kv)
        })
        .collect();
    format!(
        "{}|{}|{}|{}|{:?}|{:?}|{:?}|{}",
        s.version, s.timestamp, s.doc_count, s.dimension, docs, md, s.distance, s.last_wal_seq
    )
}

trait OpenBytes {
    fn open_bytes_compat(data: &[u8], tmp: &std::path::Path) -> Vec<WalEntry>;
}
impl OpenBytes for WalReader {
    fn open_bytes_compat(data: &[u8], tmp: &std::path::Path) -> Vec<WalEntry> {
        let p = tmp.join("clean.wal");
        std::fs::write(&p, data).expect("tmp write");
        match WalReader::open(&p) {
            Ok(mut r) => r.read_all().unwrap_or_default(),
            Err(_) => vec![],
        }
    }
}
