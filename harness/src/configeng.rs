//! Engine `config`: real `KyroDbConfig::load` (file + KYRODB__ environment overrides + defaults)
//! on one row of the safety-relevant cross product.
use crate::proto::*;
use kyrodb_engine::config::KyroDbConfig;
use std::io::{BufRead, Write};
use std::path::PathBuf;

const ENV_KEYS: &[&str] = &[
    "KYRODB__ENVIRONMENT__TYPE",
    "KYRODB__PERSISTENCE__FSYNC_POLICY",
    "KYRODB__PERSISTENCE__SNAPSHOT_INTERVAL_MUTATIONS",
    "KYRODB__PERSISTENCE__RECOVERY_MODE",
    "KYRODB__PERSISTENCE__ALLOW_FRESH_START_ON_RECOVERY_FAILURE",
    "KYRODB__CACHE__STRATEGY",
    "KYRODB__AUTH__ENABLED",
    "KYRODB__AUTH__API_KEYS_FILE",
    "KYRODB__RATE_LIMIT__ENABLED",
    "KYRODB__SERVER__OBSERVABILITY_AUTH",
    "KYRODB__SERVER__TLS__ENABLED",
    "KYRODB__SERVER__TLS__CERT_PATH",
    "KYRODB__SERVER__TLS__KEY_PATH",
    "KYRODB__SERVER__HOST",
    "KYRODB__SERVER__HTTP_HOST",
];

struct Row {
    env: String,
    fsync: String,
    snap: String,
    recovery: String,
    strategy: String,
    auth: bool,
    rl: bool,
    obs: String,
    fresh: bool,
    tls: bool,
    /// certificate / key paths present (independently of `tls.enabled`); default: as `tls`
    certs: bool,
    host: String,
    hhost: Option<String>,
}

fn toml_of(r: &Row) -> String {
    let q = |s: &str| serde_json::to_string(s).unwrap(); // JSON string escaping is valid TOML basic-string escaping
    let mut t = String::new();
    t += &format!("[environment]\ntype = {}\n", q(&r.env));
    t += &format!("[server]\nhost = {}\nport = 50051\nobservability_auth = {}\n", q(&r.host), q(&r.obs));
    if let Some(h) = &r.hhost {
        t += &format!("http_host = {}\n", q(h));
    }
    t += &format!("[server.tls]\nenabled = {}\n", r.tls);
    if r.certs {
        t += "cert_path = \"c.pem\"\nkey_path = \"k.pem\"\n";
    }
    t += &format!("[auth]\nenabled = {}\napi_keys_file = \"keys.yaml\"\n", r.auth);
    t += &format!("[rate_limit]\nenabled = {}\n", r.rl);
    t += &format!(
        "[persistence]\nfsync_policy = {}\nsnapshot_interval_mutations = {}\nrecovery_mode = {}\nallow_fresh_start_on_recovery_failure = {}\n",
        q(&r.fsync), r.snap, q(&r.recovery), r.fresh
    );
    t += &format!("[cache]\nstrategy = {}\n", q(&r.strategy));
    t
}

fn yaml_of(r: &Row) -> String {
    let q = |s: &str| serde_json::to_string(s).unwrap(); // JSON strings are valid YAML double-quoted scalars
    let mut t = String::new();
    t += &format!("environment:\n  type: {}\n", q(&r.env));
    t += &format!("server:\n  host: {}\n  port: 50051\n  observability_auth: {}\n", q(&r.host), q(&r.obs));
    if let Some(h) = &r.hhost {
        t += &format!("  http_host: {}\n", q(h));
    }
    t += &format!("  tls:\n    enabled: {}\n", r.tls);
    if r.certs {
        t += "    cert_path: \"c.pem\"\n    key_path: \"k.pem\"\n";
    }
    t += &format!("auth:\n  enabled: {}\n  api_keys_file: \"keys.yaml\"\n", r.auth);
    t += &format!("rate_limit:\n  enabled: {}\n", r.rl);
    t += &format!(
        "persistence:\n  fsync_policy: {}\n  snapshot_interval_mutations: {}\n  recovery_mode: {}\n  allow_fresh_start_on_recovery_failure: {}\n",
        q(&r.fsync), r.snap, q(&r.recovery), r.fresh
    );
    t += &format!("cache:\n  strategy: {}\n", q(&r.strategy));
    t
}

fn set_env(r: &Row) {
    std::env::set_var("KYRODB__ENVIRONMENT__TYPE", &r.env);
    std::env::set_var("KYRODB__PERSISTENCE__FSYNC_POLICY", &r.fsync);
    std::env::set_var("KYRODB__PERSISTENCE__SNAPSHOT_INTERVAL_MUTATIONS", &r.snap);
    std::env::set_var("KYRODB__PERSISTENCE__RECOVERY_MODE", &r.recovery);
    std::env::set_var(
        "KYRODB__PERSISTENCE__ALLOW_FRESH_START_ON_RECOVERY_FAILURE",
        r.fresh.to_string(),
    );
    std::env::set_var("KYRODB__CACHE__STRATEGY", &r.strategy);
    std::env::set_var("KYRODB__AUTH__ENABLED", r.auth.to_string());
    std::env::set_var("KYRODB__AUTH__API_KEYS_FILE", "keys.yaml");
    std::env::set_var("KYRODB__RATE_LIMIT__ENABLED", r.rl.to_string());
    std::env::set_var("KYRODB__SERVER__OBSERVABILITY_AUTH", &r.obs);
    std::env::set_var("KYRODB__SERVER__TLS__ENABLED", r.tls.to_string());
    if r.certs {
        std::env::set_var("KYRODB__SERVER__TLS__CERT_PATH", "c.pem");
        std::env::set_var("KYRODB__SERVER__TLS__KEY_PATH", "k.pem");
    }
    std::env::set_var("KYRODB__SERVER__HOST", &r.host);
    if let Some(h) = &r.hhost {
        std::env::set_var("KYRODB__SERVER__HTTP_HOST", h);
    }
}

fn clear_env() {
    for k in ENV_KEYS {
        std::env::remove_var(k);
    }
}

pub fn step(line: &str, scratch: &PathBuf) -> (String, String) {
    let (op, fs) = split_fields(line);
    let t = line.trim().to_string();
    if op != "cfgrow" {
        return (t, "bad-op".into());
    }
    let get = |k: &str| field(&fs, k).map(|s| s.to_string());
    let (Some(env), Some(fsync), Some(snap), Some(recovery), Some(strategy), Some(obs), Some(host), Some(via)) = (
        get("env").and_then(|h| unhex(&h)),
        get("fsync"),
        get("snap"),
        get("recovery"),
        get("strategy"),
        get("obs"),
        get("host").and_then(|h| unhex(&h)),
        get("via"),
    ) else {
        return (t, "bad-op".into());
    };
    let r = Row {
        env,
        fsync,
        snap,
        recovery,
        strategy,
        auth: boolean(&fs, "auth").unwrap_or(false),
        rl: boolean(&fs, "rl").unwrap_or(false),
        obs,
        fresh: boolean(&fs, "fresh").unwrap_or(false),
        tls: boolean(&fs, "tls").unwrap_or(false),
        certs: boolean(&fs, "certs").unwrap_or(boolean(&fs, "tls").unwrap_or(false)),
        host,
        hhost: get("hhost").filter(|h| h != "-").and_then(|h| unhex(&h)),
    };
    clear_env();
    // a safe baseline that the overrides must be able to defeat
    let safe = Row {
        env: "pilot".into(),
        fsync: "data_only".into(),
        snap: "10000".into(),
        recovery: "strict".into(),
        strategy: "learned".into(),
        auth: true,
        rl: true,
        obs: "all".into(),
        fresh: false,
        tls: false,
        certs: false,
        host: "127.0.0.1".into(),
        hhost: None,
    };
    // emit=<path>: also leave the file where the check can start the real server binary on it
    if let Some(out) = get("emit") {
        let text = if via == "yaml" { yaml_of(&r) } else { toml_of(&r) };
        let _ = std::fs::write(&out, text);
    }
    let res = match via.as_str() {
        "toml" => {
            let p = scratch.join("cfg.toml");
            std::fs::write(&p, toml_of(&r)).expect("write cfg");
            KyroDbConfig::load(Some(p.to_str().unwrap()))
        }
        "yaml" => {
            let p = scratch.join("cfg.yaml");
            std::fs::write(&p, yaml_of(&r)).expect("write cfg");
            KyroDbConfig::load(Some(p.to_str().unwrap()))
        }
        "env" => {
            let p = scratch.join("base.toml");
            std::fs::write(&p, toml_of(&safe)).expect("write cfg");
            set_env(&r);
            KyroDbConfig::load(Some(p.to_str().unwrap()))
        }
        "envonly" => {
            set_env(&r);
            KyroDbConfig::load(None)
        }
        _ => return (t, "bad-op".into()),
    };
    clear_env();
    match res {
        Ok(_) => (t, "accept".into()),
        Err(e) => {
            let msg = format!("{:#}", e).replace(['\n', ' '], "_");
            (t, format!("reject {}", &msg[..msg.len().min(90)]))
        }
    }
}

pub fn run() {
    let stdin = std::io::stdin();
    let stdout = std::io::stdout();
    let mut out = stdout.lock();
    let scratch = std::env::var("KVH_SCRATCH")
        .map(PathBuf::from)
        .unwrap_or_else(|_| std::env::temp_dir().join(format!("kvh.cfg.{}", std::process::id())));
    std::fs::create_dir_all(&scratch).expect("scratch");
    for line in stdin.lock().lines() {
        let Ok(line) = line else { break };
        let t = line.trim();
        if t.is_empty() || t.starts_with('#') {
            continue;
        }
        let (ann, res) = step(t, &scratch);
        let _ = writeln!(out, "> {}", ann);
        let _ = writeln!(out, "< {}", res);
    }
    let _ = std::fs::remove_dir_all(&scratch);
}
