//! Engine `qcache`: interprets op lines against the real `QueryHashCache`.
//! Oracle inputs for the model (query similarity order, query-to-insert distances) are computed
//! here in f64 from the bit patterns, independently of the engine's f32 kernels.
use crate::proto::*;
use crate::tiered::parse_metric;
use kyrodb_engine::config::DistanceMetric;
use kyrodb_engine::hnsw_index::SearchResult;
use kyrodb_engine::QueryHashCache;
use std::io::{BufRead, Write};

pub struct World {
    qc: QueryHashCache,
    thr: f64,
    /// every distinct (scope, query) ever stored
    pool: Vec<(u64, Vec<f32>)>,
    grabbed: u64,
}

/// the coordinates `hash_embedding` hashes: `(val * 32768.0).round() as i16`, shifted to ≥ 0
pub fn quantise(v: &[f32]) -> String {
    if v.is_empty() {
        return "-".into();
    }
    v.iter()
        .map(|x| (((x * 32768.0).round() as i16) as i32 + 32768).to_string())
        .collect::<Vec<_>>()
        .join(".")
}

fn dot64(a: &[f32], b: &[f32]) -> f64 {
    a.iter().zip(b).map(|(x, y)| *x as f64 * *y as f64).sum()
}

/// exact bits, `.`-separated (identifies a stored query embedding)
pub fn bits_dot(v: &[f32]) -> String {
    if v.is_empty() {
        return "-".into();
    }
    v.iter().map(|x| x.to_bits().to_string()).collect::<Vec<_>>().join(".")
}

pub fn cos64(a: &[f32], b: &[f32]) -> f64 {
    if a.len() != b.len() {
        return 0.0;
    }
    let na = dot64(a, a).sqrt();
    let nb = dot64(b, b).sqrt();
    if na == 0.0 || nb == 0.0 {
        return 0.0;
    }
    dot64(a, b) / (na * nb)
}

pub fn dist64(a: &[f32], b: &[f32], m: DistanceMetric) -> f64 {
    match m {
        DistanceMetric::Euclidean => a
            .iter()
            .zip(b)
            .map(|(x, y)| (*x as f64 - *y as f64).powi(2))
            .sum::<f64>()
            .sqrt(),
        // since fix (C07): the smaller of what the two search tiers can report for the pair
        DistanceMetric::Cosine | DistanceMetric::InnerProduct => (1.0 - cos64(a, b)).min(1.0 - dot64(a, b)),
    }
}

fn parse_res(s: &str) -> Option<Vec<SearchResult>> {
    if s == "-" || s.is_empty() {
        return Some(vec![]);
    }
    s.split(',')
        .map(|p| {
            let mut it = p.split(':');
            let d: u64 = it.next()?.parse().ok()?;
            let b: u32 = it.next()?.parse().ok()?;
            Some(SearchResult {
                doc_id: d,
                distance: f32::from_bits(b),
            })
        })
        .collect()
}

fn show_res(r: &[SearchResult]) -> String {
    if r.is_empty() {
        return "-".into();
    }
    r.iter()
        .map(|x| format!("{}:{}", x.doc_id, x.distance.to_bits()))
        .collect::<Vec<_>>()
        .join(",")
}

pub fn step(w: &mut Option<World>, line: &str) -> (String, String) {
    let (op, fs) = split_fields(line);
    let t = line.trim().to_string();
    if op == "cfg" {
        let (Some(cap), Some(thr)) = (
            nat(&fs, "cap"),
            field(&fs, "thr").and_then(|s| s.parse::<f32>().ok()),
        ) else {
            return (t, "bad-op".into());
        };
        *w = Some(World {
            qc: QueryHashCache::new(cap as usize, thr),
            thr: thr as f64,
            pool: vec![],
            grabbed: 0,
        });
        return (t, "ok".into());
    }
    let Some(w) = w.as_mut() else {
        return (t, "bad-op:no-cfg".into());
    };
    let bad = || (line.trim().to_string(), "bad-op".to_string());
    match op.as_str() {
        "store" => {
            let (Some(scope), Some(q), Some(k), Some(res), Some(g)) = (
                nat(&fs, "scope"),
                vec_field(&fs, "q"),
                nat(&fs, "k"),
                field(&fs, "res").and_then(parse_res),
                field(&fs, "gen"),
            ) else {
                return bad();
            };
            if !w.pool.iter().any(|(s, v)| {
                *s == scope && v.len() == q.len() && v.iter().zip(&q).all(|(a, b)| a.to_bits() == b.to_bits())
            }) {
                w.pool.push((scope, q.clone()));
            }
            let qh = quantise(&q);
            let qb = bits_dot(&q);
            let (gen_s, ok) = match g {
                "-" => {
                    let _ = w.qc.insert_with_k_scoped(scope, q, res.clone(), k as usize);
                    ("-".to_string(), true)
                }
                "cur" => {
                    let g = w.qc.invalidation_generation();
                    (
                        g.to_string(),
                        w.qc
                            .insert_with_k_scoped_if_generation(scope, q, res.clone(), k as usize, g),
                    )
                }
                "grabbed" => (
                    w.grabbed.to_string(),
                    w.qc.insert_with_k_scoped_if_generation(
                        scope,
                        q,
                        res.clone(),
                        k as usize,
                        w.grabbed,
                    ),
                ),
                _ => return bad(),
            };
            (
                format!(
                    "store scope={} qh={} qb={} k={} res={} gen={}",
                    scope,
                    qh,
                    qb,
                    k,
                    show_res(&res),
                    gen_s
                ),
                show_bool(ok).into(),
            )
        }
        "get" => {
            let (Some(scope), Some(q), Some(k)) =
                (nat(&fs, "scope"), vec_field(&fs, "q"), nat(&fs, "k"))
            else {
                return bad();
            };
            // similarity order over everything ever stored in this scope (f64, independent)
            let mut sims: Vec<(f64, String)> = w
                .pool
                .iter()
                .filter(|(s, _)| *s == scope)
                .map(|(_, v)| (cos64(&q, v), bits_dot(v)))
                .collect();
            sims.sort_by(|a, b| b.0.partial_cmp(&a.0).unwrap_or(std::cmp::Ordering::Equal));
            let mut amb = false;
            for i in 0..sims.len() {
                if (sims[i].0 - w.thr).abs() < 1e-4 {
                    amb = true;
                }
                if i + 1 < sims.len() && (sims[i].0 - sims[i + 1].0).abs() < 1e-5 && sims[i].1 != sims[i + 1].1 && sims[i].0 > w.thr - 1e-4 {
                    amb = true;
                }
            }
            let mut order: Vec<String> = vec![];
            for (s, qh) in &sims {
                if *s > w.thr && !order.contains(qh) {
                    order.push(qh.clone());
                }
            }
            let r = w.qc.get_scoped(scope, &q, k as usize);
            (
                format!(
                    "get scope={} qh={} k={} order={}",
                    scope,
                    quantise(&q),
                    k,
                    if order.is_empty() { "-".to_string() } else { order.join("/") }
                ),
                match r {
                    None => format!("none{}", if amb { " amb=1" } else { "" }),
                    Some(res) => format!("some {}{}", show_res(&res), if amb { " amb=1" } else { "" }),
                },
            )
        }
        "inv_doc" => {
            let Some(d) = nat(&fs, "d") else { return bad() };
            (t, w.qc.invalidate_doc(d).to_string())
        }
        "inv_insert" => {
            let (Some(v), Some(m)) = (
                vec_field(&fs, "v"),
                field(&fs, "metric").and_then(parse_metric),
            ) else {
                return bad();
            };
            let dists: Vec<String> = w
                .pool
                .iter()
                .map(|(s, q)| {
                    let d = if q.len() != v.len() {
                        "x".to_string()
                    } else {
                        ((dist64(q, &v, m) as f32).to_bits()).to_string()
                    };
                    format!("{};{};{}", s, bits_dot(q), d)
                })
                .collect();
            let n = w.qc.invalidate_for_insert(&v, m);
            (
                format!(
                    "inv_insert dists={}",
                    if dists.is_empty() { "-".to_string() } else { dists.join("/") }
                ),
                n.to_string(),
            )
        }
        "clear" => {
            w.qc.clear();
            (t, "ok".into())
        }
        "grab" => {
            w.grabbed = w.qc.invalidation_generation();
            (t, w.grabbed.to_string())
        }
        "len" => (t, w.qc.len().to_string()),
        _ => bad(),
    }
}

pub fn run() {
    let stdin = std::io::stdin();
    let stdout = std::io::stdout();
    let mut out = stdout.lock();
    let mut w: Option<World> = None;
    for line in stdin.lock().lines() {
        let Ok(line) = line else { break };
        let t = line.trim();
        if t.is_empty() || t.starts_with('#') {
            continue;
        }
        let r = std::panic::catch_unwind(std::panic::AssertUnwindSafe(|| step(&mut w, t)));
        match r {
            Ok((ann, res)) => {
                let _ = writeln!(out, "> {}", ann);
                let _ = writeln!(out, "< {}", res);
            }
            Err(_) => {
                let _ = writeln!(out, "> {}", t);
                let _ = writeln!(out, "< panic");
            }
        }
    }
}
