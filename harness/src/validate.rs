//! Engine `validate`: the real request validators / search planner.
use crate::proto::*;
use crate::store::filter_from_field;
use kyrodb_engine::adaptive_oversampling::calculate_oversampling_factor;
use kyrodb_engine::api_validation::{validate_insert_request, validate_search_request};
use kyrodb_engine::proto::{InsertRequest, SearchRequest};
use std::io::{BufRead, Write};

fn err_class(m: &str) -> &'static str {
    if m.contains("cannot be empty") {
        "err:emptyEmbedding"
    } else if m.contains("exceeds maximum") {
        "err:tooManyDims"
    } else if m.contains("finite") {
        "err:nonFinite"
    } else if m.contains("k must be greater") {
        "err:kZero"
    } else if m.contains("k must be <=") {
        "err:kTooLarge"
    } else if m.contains("ef_search") {
        "err:efTooLarge"
    } else if m.contains("doc_id") {
        "err:badDocId"
    } else {
        "err:other"
    }
}

fn vec_of(len: usize, finite: bool, pos: usize) -> Vec<f32> {
    let mut v = vec![0.25f32; len];
    if !finite && len > 0 {
        v[pos % len] = if pos % 3 == 0 { f32::NAN } else if pos % 3 == 1 { f32::INFINITY } else { f32::NEG_INFINITY };
    }
    v
}

pub fn run() {
    let stdin = std::io::stdin();
    let mut out = std::io::stdout().lock();
    for line in stdin.lock().lines().map_while(Result::ok) {
        let t = line.trim().to_string();
        if t.is_empty() || t.starts_with('#') {
            continue;
        }
        let (op, fs) = split_fields(&t);
        let res = std::panic::catch_unwind(|| match op.as_str() {
            "oversample" => {
                let mut s = vec![];
                match field(&fs, "f").and_then(|f| filter_from_field(f, &mut s)) {
                    Some(f) => calculate_oversampling_factor(&f).to_string(),
                    None => "bad-op".into(),
                }
            }
            "vsearch" => {
                let (Some(len), Some(fin), Some(k), Some(ef), Some(ns)) = (
                    nat(&fs, "len"),
                    boolean(&fs, "finite"),
                    nat(&fs, "k"),
                    nat(&fs, "ef"),
                    boolean(&fs, "ns"),
                ) else {
                    return "bad-op".to_string();
                };
                let filter = match field(&fs, "f") {
                    Some("-") | None => None,
                    Some(f) => {
                        let mut s = vec![];
                        match filter_from_field(f, &mut s) {
                            Some(x) => Some(x),
                            None => return "bad-op".to_string(),
                        }
                    }
                };
                let req = SearchRequest {
                    query_embedding: vec_of(len as usize, fin, nat(&fs, "pos").unwrap_or(0) as usize),
                    k: k as u32,
                    ef_search: ef as u32,
                    namespace: if ns { "ns1".into() } else { String::new() },
                    filter,
                    ..Default::default()
                };
                match validate_search_request(&req) {
                    Ok(p) => format!(
                        "ok search_k={} ef={}",
                        p.search_k,
                        p.ef_search_override.map(|e| e.to_string()).unwrap_or_else(|| "-".into())
                    ),
                    Err(m) => err_class(&m).to_string(),
                }
            }
            "vinsert" => {
                let (Some(id), Some(len), Some(fin)) =
                    (nat(&fs, "id"), nat(&fs, "len"), boolean(&fs, "finite"))
                else {
                    return "bad-op".to_string();
                };
                let req = InsertRequest {
                    doc_id: id,
                    embedding: vec_of(len as usize, fin, nat(&fs, "pos").unwrap_or(0) as usize),
                    ..Default::default()
                };
                match validate_insert_request(&req) {
                    Ok(()) => "ok".into(),
                    Err(m) => err_class(&m).to_string(),
                }
            }
            _ => "bad-op".into(),
        });
        let _ = writeln!(out, "> {}", t);
        let _ = writeln!(out, "< {}", res.unwrap_or_else(|_| "panic".into()));
    }
}
