//! Backup / restore / prune ops of the `persist` engine (C12): the real BackupManager and
//! RestoreManager on the live data directory, under a virtual wall clock (`cfg … wall=<secs>`).
use crate::persist::{docs_census, err_class, World};
use crate::proto::*;
use crate::shim;
use kyrodb_engine::backup::{BackupManager, BackupMetadata, BackupType, ClearDirectoryOptions, RestoreManager, RetentionPolicy};
use kyrodb_engine::metrics::MetricsCollector;
use kyrodb_engine::persistence::FsyncPolicy;
use kyrodb_engine::HnswBackend;
use std::path::PathBuf;
use uuid::Uuid;

#[derive(Default)]
pub struct Bk {
    pub ids: Vec<Uuid>,
    pub restore_n: usize,
}

fn bdir(w: &World) -> PathBuf {
    let d = w.root.join("backups");
    std::fs::create_dir_all(&d).expect("mkdir backups");
    d
}

fn idx_of(w: &World, id: Uuid) -> String {
    match w.bk.ids.iter().position(|x| *x == id) {
        Some(i) => i.to_string(),
        None => "?".into(),
    }
}

/// canonical member list of an archive: M, s<n>, w<n> in archive order
fn members(w: &World, id: Uuid) -> String {
    let p = bdir(w).join(format!("backup_{}.tar", id));
    let Ok(b) = std::fs::read(&p) else { return "unreadable".into() };
    let mut out = vec![];
    if b.len() < 4 {
        return "unreadable".into();
    }
    let n = u32::from_le_bytes([b[0], b[1], b[2], b[3]]) as usize;
    let mut off = 4usize;
    for _ in 0..n {
        if off + 4 > b.len() {
            return "unreadable".into();
        }
        let nl = u32::from_le_bytes([b[off], b[off + 1], b[off + 2], b[off + 3]]) as usize;
        off += 4;
        if off + nl + 8 > b.len() {
            return "unreadable".into();
        }
        let name = String::from_utf8_lossy(&b[off..off + nl]).to_string();
        off += nl;
        let mut l = [0u8; 8];
        l.copy_from_slice(&b[off..off + 8]);
        let dl = u64::from_le_bytes(l) as usize;
        off += 8;
        let data = if off + dl <= b.len() { &b[off..off + dl] } else { &b[off..] };
        if name == "MANIFEST" {
            out.push(format!("M({})", w.show_manifest_view(data)));
        } else if name.starts_with("wal_") {
            out.push(format!("w{}", w.canon_name(&name)));
        } else if name.starts_with("snapshot_") {
            out.push(format!("s{}", w.canon_name(&name)));
        } else {
            out.push("other".into());
        }
        off += dl;
    }
    if out.is_empty() { "-".into() } else { out.join(",") }
}

fn show_meta_line(w: &World, m: &BackupMetadata) -> String {
    format!(
        "b={} type={} ts={} parent={} maxwal={} snap={} members={}",
        idx_of(w, m.id),
        if m.backup_type == BackupType::Full { "full" } else { "incr" },
        m.timestamp,
        m.parent_id.map(|p| idx_of(w, p)).unwrap_or_else(|| "-".into()),
        m.max_wal_file_id
            .map(|id| w.canon_name(&format!("wal_{}.wal", id)))
            .unwrap_or_else(|| "-".into()),
        m.snapshot_file.as_ref().map(|s| w.canon_name(s)).unwrap_or_else(|| "-".into()),
        members(w, m.id)
    )
}

fn berr(msg: &str) -> &'static str {
    if msg.contains("No new WAL files") {
        "err:no_new_wal"
    } else if msg.contains("not found") {
        "err:not_found"
    } else if msg.contains("checksum mismatch") {
        "err:checksum"
    } else if msg.contains("explicit confirmation") {
        "err:needs_confirmation"
    } else if msg.contains("No full backup") {
        "err:no_full"
    } else {
        "err:other"
    }
}

/// mtime (virtual seconds) of every WAL file on disk >= parent's timestamp, as the real selection sees it
fn modified_bits(w: &World, parent_ts: u64) -> String {
    let mut v = vec![];
    if let Ok(rd) = std::fs::read_dir(&w.dir) {
        for e in rd.flatten() {
            let name = e.file_name().to_string_lossy().to_string();
            if name.starts_with("wal_") && name.ends_with(".wal") {
                let m = e
                    .metadata()
                    .ok()
                    .and_then(|m| m.modified().ok())
                    .and_then(|t| t.duration_since(std::time::UNIX_EPOCH).ok())
                    .map(|d| d.as_secs() >= parent_ts)
                    .unwrap_or(false);
                v.push((w.canon_name(&name).parse::<usize>().unwrap_or(usize::MAX), m));
            }
        }
    }
    v.sort();
    if v.is_empty() {
        "-".into()
    } else {
        v.iter().map(|(n, m)| format!("{}:{}", n, *m as u8)).collect::<Vec<_>>().join(",")
    }
}

/// offset of byte `byte` (clamped) of field `at` of member `nth` (clamped)
fn tar_offset(b: &[u8], at: &str, nth: usize, byte: usize) -> Option<usize> {
    if at == "count" {
        return Some(byte.min(3));
    }
    if b.len() < 4 {
        return None;
    }
    let n = u32::from_le_bytes([b[0], b[1], b[2], b[3]]) as usize;
    if n == 0 {
        return None;
    }
    let nth = nth % n;
    let mut off = 4usize;
    for i in 0..n {
        if off + 4 > b.len() {
            return None;
        }
        let nl = u32::from_le_bytes([b[off], b[off + 1], b[off + 2], b[off + 3]]) as usize;
        let name_at = off + 4;
        let dl_at = name_at + nl;
        if dl_at + 8 > b.len() {
            return None;
        }
        let mut l = [0u8; 8];
        l.copy_from_slice(&b[dl_at..dl_at + 8]);
        let dl = u64::from_le_bytes(l) as usize;
        let data_at = dl_at + 8;
        if i == nth {
            return Some(match at {
                "namelen" => off + byte.min(3),
                "name" => name_at + byte % nl.max(1),
                "datalen" => dl_at + byte.min(7),
                _ => data_at + byte % dl.max(1),
            });
        }
        off = data_at + dl;
    }
    None
}

/// which part of the archive layout a byte offset falls in
fn tar_field(b: &[u8], at: usize) -> &'static str {
    if at < 4 {
        return "count";
    }
    if b.len() < 4 {
        return "past-end";
    }
    let n = u32::from_le_bytes([b[0], b[1], b[2], b[3]]) as usize;
    let mut off = 4usize;
    for _ in 0..n {
        if off + 4 > b.len() {
            break;
        }
        let nl = u32::from_le_bytes([b[off], b[off + 1], b[off + 2], b[off + 3]]) as usize;
        if at < off + 4 {
            return "namelen";
        }
        off += 4;
        if at < off + nl {
            return "name";
        }
        off += nl;
        if off + 8 > b.len() {
            break;
        }
        let mut l = [0u8; 8];
        l.copy_from_slice(&b[off..off + 8]);
        let dl = u64::from_le_bytes(l) as usize;
        if at < off + 8 {
            return "datalen";
        }
        off += 8;
        if at < off + dl {
            return "data";
        }
        off += dl;
    }
    "past-end"
}

fn recover_dir(w: &World, d: &std::path::Path) -> String {
    let r = HnswBackend::recover(w.cfg.dim, w.cfg.metric, d, w.cfg.cap, FsyncPolicy::Never, 0, 0, MetricsCollector::new());
    match r {
        Ok(b) => docs_census(&b),
        Err(e) => err_class(&format!("{:#}", e)).to_string(),
    }
}

pub fn step(w: &mut World, op: &str, fs: &Fields, t: &str) -> Option<(String, String)> {
    let now = shim::wall_secs();
    match op {
        "tick" => {
            let s = nat(fs, "secs").unwrap_or(1);
            shim::WALL_US.fetch_add(s * 1_000_000, std::sync::atomic::Ordering::SeqCst);
            Some((t.to_string(), "ok".into()))
        }
        "bk_full" => {
            let bm = BackupManager::new(bdir(w), &w.dir).ok()?;
            let r = bm.create_full_backup("full".into());
            let _ = shim::take_log();
            Some(match r {
                Ok(m) => {
                    w.bk.ids.push(m.id);
                    (format!("bk_full ts={}", m.timestamp), format!("ok {}", show_meta_line(w, &m)))
                }
                Err(e) => (format!("bk_full ts={}", now), berr(&format!("{:#}", e)).to_string()),
            })
        }
        "bk_incr" => {
            let k = nat(fs, "parent")? as usize;
            let bm = BackupManager::new(bdir(w), &w.dir).ok()?;
            let Some(pid) = w.bk.ids.get(k).copied() else {
                return Some((t.to_string(), "err:not_found".into()));
            };
            let pts = std::fs::read_to_string(bdir(w).join(format!("backup_{}.json", pid)))
                .ok()
                .and_then(|s| serde_json::from_str::<BackupMetadata>(&s).ok())
                .map(|m| m.timestamp);
            let bits = pts.map(|p| modified_bits(w, p)).unwrap_or_else(|| "-".into());
            let r = bm.create_incremental_backup(pid, "incr".into());
            let _ = shim::take_log();
            Some(match r {
                Ok(m) => {
                    w.bk.ids.push(m.id);
                    (format!("bk_incr parent={} ts={} mod={}", k, m.timestamp, bits), format!("ok {}", show_meta_line(w, &m)))
                }
                Err(e) => (format!("bk_incr parent={} ts={} mod={}", k, now, bits), berr(&format!("{:#}", e)).to_string()),
            })
        }
        "bk_restore" | "bk_pitr" => {
            let clear = boolean(fs, "clear").unwrap_or(false);
            let dirty = field(fs, "target") == Some("dirty");
            w.bk.restore_n += 1;
            let target = w.root.join(format!("restore{}", w.bk.restore_n));
            let _ = std::fs::remove_dir_all(&target);
            std::fs::create_dir_all(&target).expect("mkdir target");
            if dirty {
                std::fs::write(target.join("junk.bin"), b"precious").expect("junk");
            }
            let rm = RestoreManager::new(bdir(w), &target).ok()?;
            let opts = ClearDirectoryOptions::new().with_allow_clear(clear);
            let r = if op == "bk_restore" {
                let k = nat(fs, "b")? as usize;
                match w.bk.ids.get(k).copied() {
                    Some(id) => rm.restore_from_backup_with_options(id, &opts),
                    None => Err(anyhow::anyhow!("Backup not found")),
                }
            } else {
                rm.restore_point_in_time_with_options(nat(fs, "ts")?, &opts)
            };
            let _ = shim::take_log();
            let junk = if dirty {
                if std::fs::read(target.join("junk.bin")).map(|b| b == b"precious").unwrap_or(false) { "kept" } else { "gone" }
            } else {
                "-"
            };
            let others = std::fs::read_dir(&target).map(|rd| rd.flatten().filter(|e| e.file_name() != "junk.bin").count()).unwrap_or(0);
            let out = match r {
                Ok(()) => format!("ok rec={} junk={}", recover_dir(w, &target), junk),
                Err(e) => format!("{} junk={} touched={}", berr(&format!("{:#}", e)), junk, (others > 0) as u8),
            };
            let _ = std::fs::remove_dir_all(&target);
            Some((t.to_string(), out))
        }
        "bk_prune" => {
            let pol = RetentionPolicy {
                hourly_hours: nat(fs, "hourly")? as usize,
                daily_days: nat(fs, "daily")? as usize,
                weekly_weeks: nat(fs, "weekly")? as usize,
                monthly_months: nat(fs, "monthly")? as usize,
                min_age_days: nat(fs, "minage")?,
            };
            let bm = BackupManager::new(bdir(w), &w.dir).ok()?;
            let r = bm.prune_backups(&pol);
            let _ = shim::take_log();
            Some(match r {
                Ok(ids) => {
                    let mut v: Vec<usize> = ids.iter().filter_map(|id| w.bk.ids.iter().position(|x| x == id)).collect();
                    v.sort();
                    let d = if v.is_empty() { "-".to_string() } else { v.iter().map(|x| x.to_string()).collect::<Vec<_>>().join(",") };
                    (format!("{} now={} obs={}", t, now, d), format!("deleted={}", d))
                }
                Err(_) => (format!("{} now={}", t, now), "err:other".into()),
            })
        }
        "bk_damage" => {
            let k = nat(fs, "b")? as usize;
            let id = w.bk.ids.get(k).copied()?;
            let what = field(fs, "what")?;
            let p = bdir(w).join(format!("backup_{}.{}", id, if what == "tar" { "tar" } else { "json" }));
            let mut b = std::fs::read(&p).ok()?;
            let desc;
            let mut fld = "meta";
            if let Some(pm) = nat(fs, "trunc") {
                let len = (b.len() as u64 * pm.min(999) / 1000) as usize;
                b.truncate(len);
                if what == "tar" {
                    fld = "truncated";
                }
                desc = "trunc".to_string();
            } else {
                let off = match (field(fs, "at"), nat(fs, "pos")) {
                    (Some(at), _) if what == "tar" => tar_offset(&b, at, nat(fs, "nth").unwrap_or(0) as usize, nat(fs, "byte").unwrap_or(0) as usize)?,
                    (_, Some(pos)) => (b.len() as u64 * pos.min(999) / 1000) as usize,
                    _ => nat(fs, "off")? as usize,
                };
                let bit = nat(fs, "bit")? as u8;
                if what == "tar" {
                    fld = tar_field(&b, off);
                }
                if off < b.len() {
                    b[off] ^= 1 << (bit % 8);
                }
                desc = format!("flip@{}", off);
            }
            std::fs::write(&p, &b).ok()?;
            let _ = shim::take_log();
            Some((t.to_string(), format!("ok {} len={} field={}", desc, b.len(), fld)))
        }
        "bk_sizes" => {
            let k = nat(fs, "b")? as usize;
            let id = w.bk.ids.get(k).copied()?;
            let a = std::fs::metadata(bdir(w).join(format!("backup_{}.tar", id))).map(|m| m.len()).unwrap_or(0);
            let j = std::fs::metadata(bdir(w).join(format!("backup_{}.json", id))).map(|m| m.len()).unwrap_or(0);
            Some((t.to_string(), format!("tar={} json={}", a, j)))
        }
        _ => None,
    }
}
