//! `mem` engine (C17): drives the real SIMD kernels and the real HNSW index with every heap block
//! placed so that it ENDS at a PROT_NONE guard page (in-binary "electric fence" allocator, only
//! active while this engine runs).  A read past the end of a buffer, or of a freed block, faults;
//! the SIGSEGV handler prints `< SEGV` and exits with status 3 so the check can name the op.
//!
//! ops:
//!   kernels                                   list discovered kernel wrappers
//!   kern <entry-name> <len>                   run one ISA kernel wrapper on two guard-abutted slices
//!   pub <fn> <alen> <blen>                    public kyrodb simd-backed API via HnswVectorIndex? (n/a: simd is pub(crate))
//!   hnsw <metric> <dim> <n> <k> <ef> <seed>   build an index through the public API, search it,
//!                                             and probe wrong-dimension inserts/queries
use std::alloc::{GlobalAlloc, Layout, System};
use std::io::{self, BufRead, Write};
use std::sync::atomic::{AtomicBool, AtomicUsize, Ordering};

mod simd_src {
    #![allow(dead_code, unused_imports, clippy::all)]
    include!(concat!(env!("OUT_DIR"), "/simd_src.rs"));
}

/// `simd::sum_squares_f32` of the build-time copy of the current simd.rs
pub fn sum_squares(v: &[f32]) -> f32 {
    simd_src::sum_squares_f32(v)
}

const PAGE: usize = 4096;
const REGION: usize = 1 << 38; // 256 GiB of address space, never reused

pub struct Fence;
static ON: AtomicBool = AtomicBool::new(false);
static BASE: AtomicUsize = AtomicUsize::new(0);
static NEXT: AtomicUsize = AtomicUsize::new(0);
pub static BLOCKS: AtomicUsize = AtomicUsize::new(0);

unsafe impl GlobalAlloc for Fence {
    unsafe fn alloc(&self, layout: Layout) -> *mut u8 {
        if !ON.load(Ordering::Relaxed) || layout.size() == 0 || layout.align() > PAGE {
            return System.alloc(layout);
        }
        let base = BASE.load(Ordering::Relaxed);
        let span = (layout.size() + layout.align() + PAGE - 1) / PAGE * PAGE;
        let off = NEXT.fetch_add(span + PAGE, Ordering::Relaxed);
        if off + span + PAGE > REGION {
            return System.alloc(layout);
        }
        let data = base + off;
        if libc::mprotect(data as *mut _, span, libc::PROT_READ | libc::PROT_WRITE) != 0 {
            return System.alloc(layout);
        }
        BLOCKS.fetch_add(1, Ordering::Relaxed);
        // end-abutting: the block's last byte is (up to alignment) the page's last byte
        let end = data + span;
        let start = (end - layout.size()) & !(layout.align() - 1);
        start as *mut u8
    }
    unsafe fn alloc_zeroed(&self, layout: Layout) -> *mut u8 {
        if !ON.load(Ordering::Relaxed) {
            return System.alloc_zeroed(layout);
        }
        // fenced pages come straight from mmap and are already zero; the fallback path is not
        let p = self.alloc(layout);
        let base = BASE.load(Ordering::Relaxed);
        let a = p as usize;
        if !p.is_null() && !(base != 0 && a >= base && a < base + REGION) {
            std::ptr::write_bytes(p, 0, layout.size());
        }
        p
    }
    unsafe fn realloc(&self, ptr: *mut u8, layout: Layout, new_size: usize) -> *mut u8 {
        let base = BASE.load(Ordering::Relaxed);
        let p = ptr as usize;
        let fenced = base != 0 && p >= base && p < base + REGION;
        if !fenced && !ON.load(Ordering::Relaxed) {
            return System.realloc(ptr, layout, new_size);
        }
        let new_layout = Layout::from_size_align_unchecked(new_size, layout.align());
        let np = self.alloc(new_layout);
        if !np.is_null() {
            std::ptr::copy_nonoverlapping(ptr, np, layout.size().min(new_size));
            self.dealloc(ptr, layout);
        }
        np
    }
    unsafe fn dealloc(&self, ptr: *mut u8, layout: Layout) {
        let base = BASE.load(Ordering::Relaxed);
        let p = ptr as usize;
        if base != 0 && p >= base && p < base + REGION {
            let span = (layout.size() + layout.align() + PAGE - 1) / PAGE * PAGE;
            let end = (p + layout.size() + PAGE - 1) / PAGE * PAGE;
            let data = end - span;
            // give the memory back and make any later touch fault (use-after-free)
            libc::madvise(data as *mut _, span, libc::MADV_DONTNEED);
            libc::mprotect(data as *mut _, span, libc::PROT_NONE);
        } else {
            System.dealloc(ptr, layout)
        }
    }
}

extern "C" fn on_segv(_sig: libc::c_int) {
    let msg = b"< SEGV\n";
    unsafe {
        libc::write(1, msg.as_ptr() as *const _, msg.len());
        libc::_exit(3);
    }
}

fn fence_on() {
    if BASE.load(Ordering::Relaxed) == 0 {
        let p = unsafe {
            libc::mmap(std::ptr::null_mut(), REGION, libc::PROT_NONE,
                libc::MAP_PRIVATE | libc::MAP_ANONYMOUS | libc::MAP_NORESERVE, -1, 0)
        };
        if p == libc::MAP_FAILED {
            println!("< fence-unavailable");
            return;
        }
        BASE.store(p as usize, Ordering::Relaxed);
        unsafe {
            let mut sa: libc::sigaction = std::mem::zeroed();
            sa.sa_sigaction = on_segv as *const () as usize;
            libc::sigaction(libc::SIGSEGV, &sa, std::ptr::null_mut());
            libc::sigaction(libc::SIGBUS, &sa, std::ptr::null_mut());
        }
    }
    ON.store(true, Ordering::SeqCst);
}
fn fence_off() {
    ON.store(false, Ordering::SeqCst);
}

/// deterministic values in (-1, 1)
fn fill(seed: u64, n: usize) -> Vec<f32> {
    let mut x = seed.wrapping_mul(0x9E37_79B9_7F4A_7C15) | 1;
    (0..n).map(|_| {
        x ^= x << 13; x ^= x >> 7; x ^= x << 17;
        ((x >> 40) as f32 / (1u64 << 24) as f32) * 2.0 - 1.0
    }).collect()
}

fn normalize(v: &mut [f32]) {
    let n: f32 = v.iter().map(|x| x * x).sum::<f32>().sqrt();
    if n > 0.0 { for x in v.iter_mut() { *x /= n; } }
}

fn kern(name: &str, len: usize) -> String {
    let table = simd_src::verif_kernels();
    let Some((_, isa, k)) = table.into_iter().find(|(n, _, _)| *n == name) else {
        return "unknown-kernel".into();
    };
    let supported = match isa {
        "avx512" => std::is_x86_feature_detected!("avx512f") && std::is_x86_feature_detected!("fma"),
        "avx2" => std::is_x86_feature_detected!("avx2") && std::is_x86_feature_detected!("fma"),
        "sse2" => std::is_x86_feature_detected!("sse2"),
        "scalar" => true,
        _ => false,
    };
    if !supported {
        return "unsupported-isa".into();
    }
    fence_on();
    // boxed slices: exact size, end-abutting the guard page
    let a: Box<[f32]> = fill(len as u64 + 1, len).into_boxed_slice();
    let b: Box<[f32]> = fill(len as u64 + 77, len).into_boxed_slice();
    let r = std::panic::catch_unwind(|| match k {
        simd_src::VKernel::Bin(f) => { let x = f(&a, &b); x.is_nan() as u8 }
        simd_src::VKernel::Un(f) => { let x = f(&a); x.is_nan() as u8 }
        simd_src::VKernel::Tri(f) => { let x = f(&a, &b); x.0.is_nan() as u8 }
    });
    drop(a); drop(b);
    fence_off();
    match r { Ok(0) => "ok".into(), Ok(_) => "nan".into(), Err(_) => "panic".into() }
}

fn hnsw(metric: &str, dim: usize, n: usize, k: usize, ef: usize, seed: u64, m: usize) -> String {
    use kyrodb_engine::config::DistanceMetric;
    use kyrodb_engine::HnswVectorIndex;
    let dm = match metric { "l2" => DistanceMetric::Euclidean, "cos" => DistanceMetric::Cosine, "ip" => DistanceMetric::InnerProduct, _ => return "bad-op".into() };
    fence_on();
    let r = std::panic::catch_unwind(|| -> Result<String, String> {
        // m = 0: the default graph degree; otherwise the degree M is forced (record layout of the packed level-0 storage
        // depends on it: cap = max(2M, 8) slots, padded to the record alignment)
        let mut idx = if m == 0 {
            HnswVectorIndex::new_with_distance(dim, n.max(1) + 4, dm)
        } else {
            HnswVectorIndex::new_with_params(dim, n.max(1) + 4, dm, m, 200, false)
        }
        .map_err(|e| format!("new:{e}"))?;
        let mut added = 0usize;
        for i in 0..n {
            let mut v = fill(seed.wrapping_add(i as u64 * 31 + 5), dim);
            if !(m > 0 && metric == "l2") { normalize(&mut v); }      // forced-degree L2 runs keep scattered points (dimension 1 too)
            if idx.add_vector(i as u64, &v).is_ok() { added += 1; }
        }
        // wrong dimensions must be refused, never reach a kernel
        let mut refused = 0usize;
        for d in [0usize, dim.saturating_sub(1), dim + 1, dim + 9, dim * 2 + 3] {
            if d == dim { continue; }
            let mut v = fill(seed ^ d as u64, d);
            normalize(&mut v);
            if idx.add_vector(1_000_000 + d as u64, &v).is_err() { refused += 1; } else { return Err(format!("wrong-dim-insert-accepted:{d}")); }
            if idx.knn_search(&v, k.max(1)).is_err() { refused += 1; } else { return Err(format!("wrong-dim-query-accepted:{d}")); }
        }
        let mut hits = 0usize;
        for q in 0..n.min(24).max(1) {
            let mut v = fill(seed.wrapping_add(q as u64 * 131 + 9), dim);
            normalize(&mut v);
            match idx.knn_search_with_ef(&v, k.max(1), Some(ef.max(1))) {
                Ok(res) => hits += res.len(),
                Err(e) => return Err(format!("search:{e}")),
            }
        }
        Ok(format!("ok added={added} refused={refused} hits={}", (hits > 0 || n == 0) as u8))
    });
    fence_off();
    match r { Ok(Ok(s)) => s, Ok(Err(e)) => format!("fail {e}"), Err(_) => "panic".into() }
}

pub fn run() {
    let stdin = io::stdin();
    let out = io::stdout();
    for line in stdin.lock().lines() {
        let line = line.unwrap();
        let t: Vec<&str> = line.split_whitespace().collect();
        if t.is_empty() { continue; }
        {
            let mut o = out.lock();
            writeln!(o, "> {}", line.trim()).unwrap();
            o.flush().unwrap();
        }
        let res = match t[0] {
            "kernels" => simd_src::verif_kernels().iter().map(|(n, i, _)| format!("{n}:{i}")).collect::<Vec<_>>().join(" "),
            "kern" if t.len() == 3 => kern(t[1], t[2].parse().unwrap_or(0)),
            "hnsw" if t.len() == 7 || t.len() == 8 => hnsw(t[1], t[2].parse().unwrap_or(1), t[3].parse().unwrap_or(0), t[4].parse().unwrap_or(1), t[5].parse().unwrap_or(1), t[6].parse().unwrap_or(0), t.get(7).and_then(|x| x.parse().ok()).unwrap_or(0)),
            "blocks" => format!("{}", BLOCKS.load(Ordering::Relaxed)),
            _ => "bad-op".into(),
        };
        let mut o = out.lock();
        writeln!(o, "< {}", res).unwrap();
        o.flush().unwrap();
    }
}
