//! Copies the CURRENT /repo/engine/src/simd.rs into OUT_DIR (inner doc comments demoted, the
//! test module cut) and appends a table of every `*_entry` kernel wrapper found in it, so the
//! `mem` engine can drive each ISA kernel directly, not only the one runtime dispatch selects.
use std::{env, fs, path::PathBuf};

fn main() {
    let src_path = "/repo/engine/src/simd.rs";
    println!("cargo:rerun-if-changed={}", src_path);
    println!("cargo:rerun-if-changed=build.rs");
    let src = fs::read_to_string(src_path).expect("read simd.rs");
    let mut out = String::new();
    for line in src.lines() {
        if line.trim_start().starts_with("#[cfg(test)]") {
            break;
        }
        if let Some(rest) = line.strip_prefix("//!") {
            out.push_str("//");
            out.push_str(rest);
        } else {
            out.push_str(line);
        }
        out.push('\n');
    }
    // discover entry wrappers:  fn <base>_<isa>_entry(<params>) -> <ret> {
    let mut rows = Vec::new();
    let lines: Vec<&str> = src.lines().collect();
    for (idx, line) in lines.iter().enumerate() {
        let l = line.trim();
        if !l.starts_with("fn ") || !l.contains("_entry(") {
            continue;
        }
        let name = l[3..l.find('(').unwrap()].to_string();
        let params = &l[l.find('(').unwrap() + 1..l.find(')').unwrap()];
        let arity = params.matches("&[f32]").count();
        let ret = l[l.find("->").map(|i| i + 2).unwrap_or(l.len())..].trim().trim_end_matches('{').trim().to_string();
        let kind = match (arity, ret.as_str()) {
            (2, "f32") => "Bin",
            (1, "f32") => "Un",
            (2, "(f32, f32, f32)") => "Tri",
            _ => panic!("unrecognised entry wrapper shape: {}", l),
        };
        // cfg attribute within the preceding three lines
        let mut cfg = String::new();
        for back in 1..=3 {
            if idx >= back {
                let p = lines[idx - back].trim();
                if p.starts_with("#[cfg(") {
                    cfg = p.to_string();
                }
            }
        }
        let stem = name.trim_end_matches("_entry");
        let isa = stem.rsplit('_').next().unwrap().to_string();
        rows.push((name, kind.to_string(), isa, cfg));
    }
    out.push_str("\n#[allow(dead_code)]\npub enum VKernel { Bin(BinaryF32Kernel), Un(UnaryF32Kernel), Tri(DotAndNormsF32Kernel) }\n");
    out.push_str("#[allow(dead_code)]\npub fn verif_kernels() -> Vec<(&'static str, &'static str, VKernel)> {\n    #[allow(unused_mut)]\n    let mut v: Vec<(&'static str, &'static str, VKernel)> = Vec::new();\n");
    for (name, kind, isa, cfg) in &rows {
        if !cfg.is_empty() {
            out.push_str("    ");
            out.push_str(cfg);
            out.push('\n');
        }
        out.push_str(&format!("    v.push((\"{}\", \"{}\", VKernel::{}({})));\n", name, isa, kind, name));
    }
    out.push_str("    v\n}\n");
    let dst = PathBuf::from(env::var("OUT_DIR").unwrap()).join("simd_src.rs");
    fs::write(dst, out).unwrap();
    server_copy();
}

/// Copies the CURRENT /repo/engine/src/bin/kyrodb_server.rs into OUT_DIR (inner doc comments demoted,
/// the test module cut) so `srvinc.rs` can include it and call the real, private RPC handlers
/// (`KyroDBServiceImpl`) in-process under the controlled scheduler.
fn server_copy() {
    let src_path = "/repo/engine/src/bin/kyrodb_server.rs";
    println!("cargo:rerun-if-changed={}", src_path);
    let src = fs::read_to_string(src_path).expect("read kyrodb_server.rs");
    let mut out = String::new();
    let lines: Vec<&str> = src.lines().collect();
    let mut i = 0;
    while i < lines.len() {
        let line = lines[i];
        // the trailing test module
        if line.starts_with("#[cfg(test)]") && i + 1 < lines.len() && lines[i + 1].starts_with("mod tests") {
            break;
        }
        if let Some(rest) = line.strip_prefix("//!") {
            out.push_str("//");
            out.push_str(rest);
        } else {
            out.push_str(line);
        }
        out.push('\n');
        i += 1;
    }
    let dst = PathBuf::from(env::var("OUT_DIR").unwrap()).join("server_src.rs");
    fs::write(dst, out).unwrap();
    println!("cargo:rustc-env=GIT_COMMIT_HASH=verif");
    println!("cargo:rustc-env=GIT_BRANCH=verif");
    println!("cargo:rustc-env=BUILD_TIMESTAMP=0");
    println!("cargo:rustc-env=TARGET_TRIPLE=verif");
}
