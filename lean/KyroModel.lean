import KyroModel.Base.Assoc
import KyroModel.Tiered.Model
