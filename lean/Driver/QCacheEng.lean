/-
Driver engine `qcache`: the query-result cache model, one op per line.
-/
import Driver.Parse
import KyroModel.Tiered.QueryCache

namespace Driver.QCacheEng
open KyroModel Driver

/-- `doc:distbits,doc:distbits` -/
def parseRes (s : String) : Option (List (Nat × Nat)) :=
  if s == "-" || s == "" then some [] else
  (s.splitOn ",").mapM fun p =>
    match p.splitOn ":" with
    | [a, b] => do pure ((← a.toNat?), (← b.toNat?))
    | _ => none

def showRes (r : List (Nat × Nat)) : String :=
  if r.isEmpty then "-" else ",".intercalate (r.map fun (a, b) => s!"{a}:{b}")

/-- quantised key `n.n.n` -/
def parseQh (s : String) : Option (List Nat) :=
  if s == "-" || s == "" then some [] else (s.splitOn ".").mapM String.toNat?

/-- similarity order: stored query embeddings (bits, `.`-separated) separated by `/` -/
def parseOrder (s : String) : Option (List (List Nat)) :=
  if s == "-" || s == "" then some [] else (s.splitOn "/").mapM parseQh

/-- `scope;qh;distbits|x` records separated by `/` -/
def parseDists (s : String) : Option (List ((Nat × List Nat) × Option Nat)) :=
  if s == "-" || s == "" then some [] else
  (s.splitOn "/").mapM fun r =>
    match r.splitOn ";" with
    | [sc, q, d] => do
      let sc ← sc.toNat?
      let q ← parseQh q
      let d ← (if d == "x" then some none else d.toNat?.map some)
      pure ((sc, q), d)
    | _ => none

/-- an entry whose decision sits within 256 ulps of the boundary -/
def nearBoundary (c : QCache) (dists : List ((Nat × List Nat) × Option Nat)) : Bool :=
  c.entries.any fun e =>
    match dists.find? (·.1 == (e.key.1, e.q)), QCache.worstKey e.res with
    | some (_, some d), some w =>
      let k := QCache.f32Key d
      (if k ≥ w then k - w else w - k) ≤ 256 && e.res.length ≥ e.reqK
    | _, _ => false

def step (st : Option QCache) (line : String) : Option QCache × String :=
  let (op, fs) := splitFields line
  match op, st with
  | "cfg", _ =>
    match natField? fs "cap" with
    | some cap => (some (QCache.init cap), "ok")
    | none => (st, "bad-op")
  | _, none => (none, "bad-op:no-cfg")
  | "store", some c =>
    match natField? fs "scope", (field? fs "qh").bind parseQh, natField? fs "k",
          (field? fs "res").bind parseRes, field? fs "gen", (field? fs "qb").bind parseQh with
    | some sc, some qh, some k, some res, some g, some qb =>
      let eg : Option (Option Nat) := if g == "-" then some none else g.toNat?.map some
      match eg with
      | some eg => let (c', b) := c.store (sc, qh) qb k res eg; (some c', showBool b)
      | none => (st, "bad-op")
    | _, _, _, _, _, _ => (st, "bad-op")
  | "get", some c =>
    match natField? fs "scope", (field? fs "qh").bind parseQh, natField? fs "k" with
    | some sc, some qh, some k =>
      match (field? fs "order").bind parseOrder with
      | some order =>
        let (c', r) := c.get (sc, qh) k order
        (some c', match r with | none => "none" | some res => s!"some {showRes res}")
      | none => (st, "bad-op")
    | _, _, _ => (st, "bad-op")
  | "inv_doc", some c =>
    match natField? fs "d" with
    | some d => let (c', n) := c.invalidateDoc d; (some c', toString n)
    | none => (st, "bad-op")
  | "inv_insert", some c =>
    match (field? fs "dists").bind parseDists with
    | some dists =>
      let amb := nearBoundary c dists
      let (c', n) := c.invalidateForInsert (c.hitKeys dists)
      (some c', s!"{n} amb={if amb then 1 else 0}")
    | none => (st, "bad-op")
  | "clear", some c => (some c.clear, "ok")
  | "grab", some c => (st, toString c.gen)
  | "len", some c => (st, toString c.entries.length)
  | _, _ => (st, "bad-op")

end Driver.QCacheEng
