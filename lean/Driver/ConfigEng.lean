/-
Driver engine `config`: evaluates the GENERATED `validate` on the atoms of a configuration row.
-/
import Driver.Parse
import KyroModel.Config.Generated

namespace Driver.ConfigEng
open KyroModel.Config Driver

def step (_ : Unit) (line : String) : Unit × String :=
  let (op, fs) := splitFields line
  match op with
  | "cfgrow" =>
    let env : Env := match field? fs "envclass" with
      | some "production" => .production | some "pilot" => .pilot | some "benchmark" => .benchmark
      | _ => .other
    let b (k : String) (v : String) : Bool := field? fs k == some v
    let nb (k : String) (v : String) : Bool := !(field? fs k == some v)
    let a : Atoms := {
      env := env,
      strategyLearned := b "strategy" "learned",
      fsyncNone := b "fsync" "none",
      snapZero := b "snap" "0",
      recoveryBestEffort := b "recovery" "best_effort",
      authEnabled := b "auth" "1",
      rateLimitEnabled := b "rl" "1",
      obsAuthOn := nb "obs" "disabled",
      freshStart := b "fresh" "1",
      tlsEnabled := b "tls" "1",
      grpcLoopback := b "loop" "1",
      httpLoopback := (if (field? fs "hloop").isSome then b "hloop" "1" else b "loop" "1"),
      other := benignOther }
    ((), if validate a then "accept" else "reject")
  | _ => ((), "bad-op")

end Driver.ConfigEng
