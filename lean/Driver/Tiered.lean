/-
Driver engine `tiered`: runs the executable tiered-engine model on one op per line.
Digest instance: `D := Vec`, `digest := id` (injective by construction; the theorems assume
exactly injectivity).
-/
import Driver.Parse
import Driver.StoreEng
import KyroModel.Tiered.Knn

namespace Driver.Tiered
open KyroModel Driver

abbrev S := TState Vec

/-- driver state: engine model + observed `parse::<f64>` table -/
structure DS where
  ts : S
  nums : List (String × Nat)
def dg : Vec → Vec := id

def showTier : Tier → String
  | .cache => "cache" | .hot => "hot" | .cold => "cold"

def parseStrat : String → Option StratKind
  | "lru" => some .lru | "learned" => some .learned | "ab" => some .ab | _ => none

def sortedKeys {α : Type} (l : List (Nat × α)) : List Nat := (akeys l).mergeSort (· ≤ ·)

def sortById {α : Type} (l : List (Nat × α)) : List (Nat × α) :=
  l.mergeSort (fun a b => a.1 ≤ b.1)

/-- `id;vec;meta;accept` records separated by `/` -/
def parseBulkDocs (s : String) : Option (List (Nat × Vec × Meta × Bool)) :=
  if s == "-" || s == "" then some [] else
  (s.splitOn "/").mapM fun rec =>
    match rec.splitOn ";" with
    | [i, v, m, a] => do
      let i ← i.toNat?
      let v ← parseNatList v
      let m ← parseMeta m
      let a ← (if a == "1" then some true else if a == "0" then some false else none)
      pure (i, v, m, a)
    | _ => none

def stepCore (st : Option S) (line : String) : Option S × String :=
  let (op, fs) := splitFields line
  match op, st with
  | "cfg", _ =>
    match (field? fs "strat").bind parseStrat, natField? fs "cap", natField? fs "hard",
          natField? fs "soft", natField? fs "dim" with
    | some k, some cap, some hard, some soft, some dim =>
      (some (TState.init Vec k cap hard soft dim), "ok")
    | _, _, _, _, _ => (st, "bad-op")
  | _, none => (none, "bad-op:no-cfg")
  | "insert", some s =>
    match natField? fs "id", natListField? fs "stored", metaField? fs "m", boolField? fs "accept" with
    | some id, some v, some m, some acc =>
      let (s', out) := insert dg s id v m acc
      (some s', match out with | .ok => "ok" | .rejected => "rejected" | .drainFailed => "drain_failed")
    | _, _, _, _ => (st, "bad-op")
  | "delete", some s =>
    match natField? fs "id" with
    | some id => let (s', b) := delete s id; (some s', showBool b)
    | none => (st, "bad-op")
  | "batch_delete", some s =>
    match natListField? fs "ids" with
    | some ids => let (s', n) := batchDelete s ids; (some s', toString n)
    | none => (st, "bad-op")
  | "update", some s =>
    match natField? fs "id", metaField? fs "m", boolField? fs "merge" with
    | some id, some m, some mg => let (s', b) := updateMeta s id m mg; (some s', showBool b)
    | _, _, _ => (st, "bad-op")
  | "bulk_load", some s =>
    match (field? fs "docs").bind parseBulkDocs with
    | some docs => let (s', n) := bulkLoad s docs; (some s', s!"loaded={n}")
    | none => (st, "bad-op")
  | "flush", some s =>
    match boolField? fs "force" with
    | some f =>
      -- the model drains in id order; the implementation in hash-map order (not observable)
      let (s', r) := flush dg { s with hot := sortById s.hot } f
      (some s', match r with | some n => s!"ok {n}" | none => "err")
    | none => (st, "bad-op")
  | "audit", some s =>
    let (s', n) := audit dg s; (some s', toString n)
  | "query", some s =>
    match natField? fs "id", boolField? fs "admit" with
    | some id, adm =>
      let (s', r) := query dg s id (adm.getD false)
      -- cross-check: the implementation consulted `should_cache` iff the model reaches it
      (some s', match r with
        | none => "none adm=0"
        | some (v, t) => s!"some {showTier t} {showNatList v} adm={if t == .cache then 0 else 1}")
    | none, _ => (st, "bad-op")
  | "doc_meta", some s =>
    match natField? fs "id" with
    | some id =>
      let (s', r) := docWithMeta dg s id
      (some s', match r with | none => "none" | some (v, m) => s!"some {showNatList v} {showMeta m}")
    | none => (st, "bad-op")
  | "emb_aware", some s =>
    match natField? fs "id" with
    | some id =>
      let (s', r) := embAware dg s id
      (some s', match r with | none => "none" | some v => s!"some {showNatList v}")
    | none => (st, "bad-op")
  | "get_meta", some s =>
    match natField? fs "id" with
    | some id => (st, match getMeta s id with | none => "none" | some m => s!"some {showMeta m}")
    | none => (st, "bad-op")
  | "exists", some s =>
    match natField? fs "id" with
    | some id => (st, showBool (existsDoc s id))
    | none => (st, "bad-op")
  | "bulk_query", some s =>
    match natListField? fs "ids", boolField? fs "emb" with
    | some ids, some emb =>
      let (s', rs) := bulkQuery dg s ids
      let show1 : Option (Vec × Meta × Tier) → String
        | none => "none"
        | some (v, m, t) => s!"{showTier t}~{if emb then showNatList v else "-"}~{showMeta m}"
      (some s', "[" ++ ";".intercalate (rs.map show1) ++ "]")
    | _, _ => (st, "bad-op")
  | "poke_cache", some s =>
    match natField? fs "id", natListField? fs "v", natField? fs "ver", natListField? fs "dig" with
    | some id, some v, some ver, some dv => (some (pokeCache s id v ⟨ver, dg dv⟩), "ok")
    | _, _, _, _ => (st, "bad-op")
  | "poke_hot", some s =>
    match natField? fs "id", natListField? fs "v", metaField? fs "m", natField? fs "ver",
          natListField? fs "dig" with
    | some id, some v, some m, some ver, some dv => (some (pokeHot s id v m ⟨ver, dg dv⟩), "ok")
    | _, _, _, _, _ => (st, "bad-op")
  | "train", some _ => (st, "ok")
  | "knn", some s =>
    let parseCands := fun (txt : String) =>
      if txt == "-" then some [] else
      (txt.splitOn ",").mapM fun c =>
        match c.splitOn ":" with
        | i :: k :: b :: _ => do
          let i ← i.toNat?
          let k ← k.toNat?
          let b ← b.toNat?
          pure (⟨i, k, b⟩ : Knn.Cand)
        | _ => none
    match (field? fs "hot").bind parseCands, (field? fs "cold").bind parseCands, natField? fs "k",
          field? fs "ef" with
    | some hot, some cold, some k, some ef =>
      -- a search answered by the query cache touches nothing else (cache contents: qcache engine / C07)
      if ef == "-" && (field? fs "cachehit") == some "1" then (st, "unpredicted") else
      if k == 0 || k > 10000 then (st, "rejected") else
      let (s', res) := Knn.knnStep dg s hot cold k
      let sv := Knn.annotate dg s hot
      let hotNonEmpty := !(Knn.widenF (sv.length + 1) sv (2 * k) (2 * k)).2.isEmpty
      let path := match hotNonEmpty, !cold.isEmpty, !s.cold.isEmpty with
        | true, true, _ => "HotAndCold"
        | true, false, _ => "HotTierOnly"
        | false, true, _ => "ColdTierOnly"
        | false, false, true => "HotAndCold"
        | false, false, false => "HotTierOnly"
      (some s', s!"ok path={path} res=" ++ (if res.isEmpty then "-" else
        ",".intercalate (res.map fun c => s!"{c.id}:{c.key}:{c.bits}")))
    | _, _, _, _ => (st, "bad-op")
  | "sizes", some s =>
    (st, s!"l1a={s.l1a.size} hot={s.hot.length} l1a_keys={showNatList (sortedKeys (s.l1a.a.entries ++ (if s.l1a.kind == .ab then s.l1a.b.entries else [])))} hot_keys={showNatList (sortedKeys s.hot)}")
  | "census", some s =>
    (st, "[" ++ ";".intercalate ((sortById s.cold).map fun (id, d) =>
      s!"{id}~{showNatList d.vec}~{showMeta d.md}") ++ "]")
  | _, _ => (st, "bad-op")

def step (st : Option DS) (line : String) : Option DS × String :=
  let (op, fs) := splitFields line
  let nums0 := (st.map (·.nums)).getD []
  let nums := StoreEng.addNums nums0 ((field? fs "nums").getD "-")
  match op, st with
  | "delete_by_filter", some d =>
    match field? fs "f" with
    | some f =>
      match StoreEng.parseFilter 10000 (f.splitOn ",") with
      | some (flt, []) =>
        let parse : String → Option Nat := fun x => (nums.find? (·.1 == x)).map (·.2)
        let (s', n) := deleteByFilter parse d.ts flt
        (some ⟨s', nums⟩, toString n)
      | _ => (st, "bad-op:filter")
    | none => (st, "bad-op")
  | _, _ =>
    let (s', out) := stepCore (st.map (·.ts)) line
    (s'.map fun t => ⟨t, if op == "cfg" then [] else nums⟩, out)

end Driver.Tiered
