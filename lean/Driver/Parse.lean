/-
Line-protocol helpers shared by every engine of the driver.  Core Lean only.

A line is `<op> k=v k=v …` (single spaces).  Values never contain spaces.  Lists use `,`,
records use `;`, alternatives use `|`, `/`.  Strings (metadata keys and values, filter
operands) travel as lower-case hex of their UTF-8 bytes and are never decoded: equality and
lexicographic order of the hex text coincide with those of the bytes.  `-` is the empty list.
-/
import KyroModel.Tiered.Model

namespace Driver
open KyroModel

def splitFields (line : String) : String × List (String × String) :=
  match line.trimAscii.toString.splitOn " " with
  | [] => ("", [])
  | op :: rest =>
    (op, rest.filterMap fun tok =>
      match tok.splitOn "=" with
      | [k, v] => some (k, v)
      | k :: v :: more => some (k, "=".intercalate (v :: more))
      | _ => none)

def field? (fs : List (String × String)) (k : String) : Option String :=
  (fs.find? (·.1 == k)).map (·.2)

def natField? (fs : List (String × String)) (k : String) : Option Nat :=
  (field? fs k).bind String.toNat?

def boolField? (fs : List (String × String)) (k : String) : Option Bool :=
  match field? fs k with
  | some "1" => some true
  | some "0" => some false
  | _ => none

def parseNatList (s : String) : Option (List Nat) :=
  if s == "-" || s == "" then some []
  else (s.splitOn ",").mapM String.toNat?

def natListField? (fs : List (String × String)) (k : String) : Option (List Nat) :=
  (field? fs k).bind parseNatList

/-- `k:v|k:v` (hex text), normalised to the model's sorted map. -/
def parseMeta (s : String) : Option Meta :=
  if s == "-" || s == "" then some []
  else do
    let pairs ← (s.splitOn "|").mapM fun kv =>
      match kv.splitOn ":" with
      | [k, v] => some (k, v)
      | _ => none
    pure (Meta.norm pairs)

def metaField? (fs : List (String × String)) (k : String) : Option Meta :=
  (field? fs k).bind parseMeta

def showNatList (l : List Nat) : String :=
  if l.isEmpty then "-" else ",".intercalate (l.map toString)

def showMeta (m : Meta) : String :=
  if m.isEmpty then "-" else "|".intercalate (m.map fun (k, v) => k ++ ":" ++ v)

def showBool (b : Bool) : String := if b then "true" else "false"

end Driver
