/-
Driver engine `codec`: the byte-level segment scanner on a hex string.
  wal bytes=<hex>   ->  open-err | valid=<k> corrupted=<c> sizes=<payload lengths>
-/
import Driver.Parse
import KyroModel.Persist.Codec

namespace Driver.CodecEng
open KyroModel.Codec Driver

def hexVal (c : Char) : Option Nat :=
  if '0' ≤ c ∧ c ≤ '9' then some (c.toNat - '0'.toNat)
  else if 'a' ≤ c ∧ c ≤ 'f' then some (c.toNat - 'a'.toNat + 10)
  else none

def parseHex : List Char → Option Bytes
  | [] => some []
  | a :: b :: rest => do
    let x ← hexVal a
    let y ← hexVal b
    let r ← parseHex rest
    pure ((x * 16 + y) :: r)
  | _ => none

def step (line : String) : String :=
  let (op, fs) := splitFields line
  match op with
  | "wal" =>
    match (field? fs "bytes").bind (fun s => if s == "-" then some [] else parseHex s.toList) with
    | none => "bad-op"
    | some bs =>
      match readFile crc32 bs with
      | none => "open-err"
      | some r => s!"valid={r.payloads.length} corrupted={r.corrupted} sizes={showNatList (r.payloads.map (·.length))}"
  | _ => "bad-op"

end Driver.CodecEng
