/-
Driver engine `periodic`: the periodic-fsync protocol model (`Persist/Periodic.lean`) behind the
same line protocol as the harness engine of the same name.  `ploss` prints every outcome the
model admits (sorted, distinct), smallest first.
-/
import Driver.Parse
import KyroModel.Persist.Periodic

namespace Driver.PeriodicEng
open KyroModel KyroModel.Periodic Driver

def base : Nat := 1000000      -- the harness's virtual clock starts at 10^12 ns = 10^6 ms

def showDocs (d : Docs) : String :=
  let sorted := d.mergeSort fun a b => a.1 ≤ b.1
  "[" ++ ",".intercalate (sorted.map fun (k, v) => toString k ++ ":" ++ toString v) ++ "]"

def dedup (l : List String) : List String :=
  l.foldl (fun acc x => if acc.contains x then acc else acc ++ [x]) []

def step (st : Option St) (line : String) : Option St × String :=
  let (op, fs) := splitFields line
  match op, st with
  | "cfg", _ =>
    match natField? fs "interval" with
    | some iv =>
      let rot := (natField? fs "rot").getD 0
      -- only "never" and "after every write" are modelled (a byte threshold needs frame sizes)
      if rot > 1 then (none, "unmodelled:rot") else
      if (natField? fs "snap").getD 0 != 0 then (none, "unmodelled:snap") else
      (some { iv := iv, rot := rot == 1, fix := (natField? fs "fix").getD 1 == 1, now := base,
              act := ⟨0, 0, base⟩, lastTick := base }, "ok")
    | none => (none, "bad-op")
  | _, none => (none, "unmodelled")
  | "ins", some s =>
    match natField? fs "id", natField? fs "x" with
    | some id, some x => (some (Periodic.step s (.ins id x)), s!"ok t={s.now}")
    | _, _ => (some s, "bad-op")
  | "del", some s =>
    match natField? fs "id" with
    | some id =>
      let ex := (alookup id (live s)).isSome
      (some (Periodic.step s (.del id)), s!"ok t={s.now} existed={if ex then 1 else 0}")
    | none => (some s, "bad-op")
  | "advance", some s =>
    let s' := Periodic.step s (.advance ((natField? fs "ms").getD 0))
    (some s', s!"ok now={s'.now}")
  | "timer", some s =>
    let calls := ((field? fs "calls").getD "-").splitOn ","
    -- flush_hot_tier moves mirrors, it writes no log frame; sync_wal is the tick
    let s' := if calls.contains "cold_tier.sync_wal" then Periodic.step s .tick else s
    (some s', "ok")
  | "restart", some s => (some (Periodic.step s .restart), s!"ok t={s.now}")
  | "ploss", some s =>
    let outs := dedup ((outcomes s).map showDocs)
    (some s, s!"ok now={s.now} states={"#".intercalate outs}")
  | _, some s => (some s, "bad-op")

end Driver.PeriodicEng
