/-
Driver engine `persist`: the persistence protocol model (L2), one op per line.  For every
mutating op it also prints the strict-recovery outcome of the disk after each action prefix —
the model's prediction for every kill point of that op.
-/
import Driver.StoreEng
import KyroModel.Persist.Damage
import KyroModel.Persist.Backup
import KyroModel.Persist.Ops

namespace Driver.PersistEng
open KyroModel Driver

structure St where
  eng : PEng
  disk : Disk
  nums : List (String × Nat)
  down : Bool := false          -- after a failed restart
  bks : List Backup := []
  tampered : List Nat := []     -- backups whose files were damaged by the harness


def showDocs (d : Docs) : String :=
  let sorted := d.mergeSort (fun a b => a.1 ≤ b.1)
  "[" ++ ";".intercalate (sorted.map fun (id, (v, m)) => s!"{id}~{showNatList v}~{showMeta m}") ++ "]"

def showRecErr : RecErr → String
  | .noManifest => "err:no_manifest"
  | .manifestUnreadable => "err:manifest_unreadable"
  | .snapshotUnreadable => "err:snapshot_unreadable"
  | .missingSegment _ => "err:missing_segment"
  | .corruptFrames _ => "err:corrupt_frames"
  | .badMagic _ => "err:bad_magic"

def showRecover (d : Disk) : String :=
  match recover d with
  | .ok (docs, _) => showDocs docs
  | .error e => showRecErr e

def showOpt : Option Nat → String
  | some n => toString n | none => "-"

def showWOp : WOp → String
  | .insert => "i" | .delete => "d" | .update => "u"

def showDisk (d : Disk) : String :=
  let man := match d.manifest with
    | none => "none"
    | some m => s!"snap:{showOpt m.snap},seq:{showOpt m.snapSeq},segs:{showNatList m.segs}"
  let wals := (d.wals.mergeSort (fun a b => a.1 ≤ b.1)).map fun (n, w) =>
    s!"{n}:" ++ ".".intercalate (w.entries.map fun e => s!"{e.seq}{showWOp e.op}{e.id}")
  let snaps := (d.snaps.mergeSort (fun a b => a.1 ≤ b.1)).map fun (n, s) =>
    match s with
    | some sf => s!"{n}:{sf.lastSeq}.{sf.docs.length}"
    | none => s!"{n}:corrupt"
  s!"man={man} wals={";".intercalate wals} snaps={";".intercalate snaps}"

/-- recovery outcome after each action prefix (0 … n actions) -/
def prefixOutcomes (d0 : Disk) (as : List Action) : String :=
  let rec go (d : Disk) : List Action → List String
    | [] => [showRecover d]
    | a :: rest => showRecover d :: go (d.apply a) rest
  "#".intercalate (go d0 as)

/-- what strict recovery reads of a directory: the MANIFEST, the segments it lists, the snapshot it
    points to (the `SameReferenced` view of `Lemmas/PowerLoss.lean`) -/
def viewOf (d : Disk) : String :=
  match d.manifest with
  | none => "none"
  | some m =>
    let segs := m.segs.map fun n =>
      match alookup n d.wals with
      | some w => s!"{n}:{".".intercalate (w.entries.map fun e => s!"{e.seq}{showWOp e.op}{e.id}")}"
      | none => s!"{n}:missing"
    let snap := match m.snap with
      | none => "-"
      | some n =>
        match alookup n d.snaps with
        | some (some sf) => s!"{n}:{sf.lastSeq}.{sf.docs.length}"
        | _ => s!"{n}:missing"
    s!"M({showOpt m.snap}/{showOpt m.snapSeq}/{showNatList m.segs})|{";".intercalate segs}|{snap}"

/-- the referenced view after each action prefix, distinct ones in order -/
def prefixViews (d0 : Disk) (as : List Action) : String :=
  let rec go (d : Disk) : List Action → List String
    | [] => [viewOf d]
    | a :: rest => viewOf d :: go (d.apply a) rest
  "#".intercalate ((go d0 as).foldl (fun acc v => if acc.contains v then acc else acc ++ [v]) [])

def showAct : Action → String
  | .walCreate n => s!"walCreate:{n}"
  | .walAppend n e => s!"walAppend:{n}:{e.seq}{showWOp e.op}{e.id}"
  | .manifestPut m => s!"manifestPut:{showOpt m.snap}/{showOpt m.snapSeq}/{showNatList m.segs}"
  | .snapPut n s => s!"snapPut:{n}:{s.lastSeq}.{s.docs.length}"
  | .unlinkWal n => s!"unlinkWal:{n}"
  | .unlinkSnap n => s!"unlinkSnap:{n}"

/-- unknown file names (`?`) become names that are on no disk -/
def parseName (s : String) (salt : Nat) : Option Nat :=
  if s == "?" then some (1000000007 + salt) else s.toNat?

def parseManifestView (s : String) : Option Manifest :=
  match s.splitOn "/" with
  | [sn, sq, segs] => do
    let snap ← if sn == "-" then some none else (parseName sn 0).map some
    let seq ← if sq == "-" then some none else sq.toNat?.map some
    let segL ← if segs == "-" then some [] else
      ((segs.splitOn ",").zipIdx.mapM fun (t, i) => parseName t (i + 1))
    pure ⟨snap, seq, segL⟩
  | _ => none

/-- view text → damage (`none` when the model cannot predict: altered content, skipped) -/
def parseView (v : String) : Option (Option Damage) :=
  match v.splitOn ":" with
  | ["mgone"] => some (some .manifestGone)
  | ["m", "unparsable"] => some (some .manifestUnparsable)
  | ["m", "outside"] => some none
  | ["m", f] => (parseManifestView f).map fun m => some (.manifestIs m)
  | ["wgone", n] => n.toNat?.map fun n => some (.walGone n)
  | ["wopen", n] => n.toNat?.map fun n => some (.walOpenFails n)
  | ["wsees", n, seqs, c] =>
    match n.toNat?, parseNatList seqs, c.toNat? with
    | some n, some sq, some c => some (some (.walSees n sq c))
    | _, _, _ => none
  | ["wsees", _, _, _, "alt"] => some none
  | ["sgone", n] => n.toNat?.map fun n => some (.snapGone n)
  | ["sbad", n] => n.toNat?.map fun n => some (.snapUnreadable n)
  | ["sok", _] => some (some (.walGone 2000000011))      -- no effect
  | ["salt", _] => some none
  | ["skip"] => some none
  | _ => none

def showRecoverAfter (d : Disk) (dmg : Damage) : String :=
  match recoverAfter d dmg with
  | .ok (docs, _) => showDocs docs
  | .error e => showRecErr e

def sweep (d : Disk) (faults : String) : String :=
  if faults == "-" then "" else
  "#".intercalate ((faults.splitOn "#").map fun f =>
    match f.splitOn "@" with
    | [_, _, v] =>
      match parseView v with
      | some (some dmg) => showRecoverAfter d dmg
      | some none => "unpredicted"
      | none => "bad-view"
    | _ => "bad-fault")

def showBkErr : BkErr → String
  | .noNewWal => "err:no_new_wal"
  | .notFound => "err:not_found"
  | .checksum => "err:checksum"
  | .needsConfirmation => "err:needs_confirmation"
  | .noFull => "err:no_full"
  | _ => "err:other"

def showManifestView (m : Manifest) : String :=
  s!"{showOpt m.snap}/{showOpt m.snapSeq}/{showNatList m.segs}"

def showMembers (b : Backup) : String :=
  let parts := (b.snaps.map fun (n, _) => s!"s{n}") ++
    (match b.manifest with | some m => [s!"M({showManifestView m})"] | none => []) ++
    (b.wals.map fun (n, _) => s!"w{n}")
  if parts.isEmpty then "-" else ",".intercalate parts

def showBackup (k : Nat) (b : Backup) : String :=
  s!"ok b={k} type={if b.full then "full" else "incr"} ts={b.ts} parent={showOpt b.parent} maxwal={showOpt b.maxWal} snap={showOpt b.snap} members={showMembers b}"

def parseMod (s : String) : Nat → Bool :=
  let pairs := if s == "-" then [] else (s.splitOn ",").filterMap fun kv =>
    match kv.splitOn ":" with
    | [k, v] => k.toNat?.map fun n => (n, v == "1")
    | _ => none
  fun n => ((pairs.find? (·.1 == n)).map (·.2)).getD false

def showRestore (bs : List Backup) (tampered : List Nat) (chainR : Except BkErr (List Nat))
    (dirty clear : Bool) : String :=
  match chainR with
  | .error e => s!"{showBkErr e} junk={if dirty then "kept" else "-"} touched=0"
  | .ok chain =>
    if chain.any tampered.contains then "unpredicted" else
    match restoreChain bs chain dirty clear with
    | .error e => s!"{showBkErr e} junk={if dirty then "kept" else "-"} touched=0"
    | .ok d => s!"ok rec={showRecover d} junk={if dirty then "gone" else "-"}"

def bkStep (s : St) (op : String) (fs : List (String × String)) : Option (St × String) :=
  match op with
  | "tick" => some (s, "ok")
  | "bk_full" =>
    match natField? fs "ts" with
    | none => none
    | some ts =>
      match fullBackup s.disk ts with
      | .ok b => some ({ s with bks := s.bks ++ [b] }, showBackup s.bks.length b)
      | .error e => some (s, showBkErr e)
  | "bk_incr" =>
    match natField? fs "parent", natField? fs "ts", field? fs "mod" with
    | some p, some ts, some md =>
      match incrBackup s.bks s.disk p (parseMod md) ts with
      | .ok b => some ({ s with bks := s.bks ++ [b] }, showBackup s.bks.length b)
      | .error e => some (s, showBkErr e)
    | _, _, _ => none
  | "bk_restore" =>
    match natField? fs "b", boolField? fs "clear", field? fs "target" with
    | some k, some clear, some tg =>
      some (s, showRestore s.bks s.tampered (chainOf s.bks (s.bks.length + 1) k []) (tg == "dirty") clear)
    | _, _, _ => none
  | "bk_pitr" =>
    match natField? fs "ts", boolField? fs "clear", field? fs "target" with
    | some t, some clear, some tg =>
      if pitrAmbiguous s.bks t then some (s, "unpredicted")
      else some (s, showRestore s.bks s.tampered (pitrChain s.bks t) (tg == "dirty") clear)
    | _, _, _ => none
  | "bk_prune" =>
    match natField? fs "hourly", natField? fs "daily", natField? fs "weekly", natField? fs "monthly",
          natField? fs "minage", natField? fs "now" with
    | some h, some d, some w, some m, some a, some now =>
      let pol : Policy := ⟨h, d, w, m, a⟩
      let del := prunedBy s.bks pol now
      -- equal timestamps inside one bucket: the real choice depends on directory order
      let tie := (present s.bks).any fun i => (present s.bks).any fun j =>
        i != j && (s.bks[i]?.map (·.ts)) == (s.bks[j]?.map (·.ts))
      if tie then
        -- the outcome depends on directory order: take it as an input
        match natListField? fs "obs" with
        | some obs => some ({ s with bks := markGone s.bks obs }, "unpredicted")
        | none => none
      else some ({ s with bks := markGone s.bks del }, s!"deleted={showNatList del}")
    | _, _, _, _, _, _ => none
  | "bk_damage" =>
    match natField? fs "b" with
    | some k => some ({ s with tampered := k :: s.tampered }, "unpredicted")
    | none => none
  | "bk_sizes" => some (s, "unpredicted")
  | _ => none

def showOut : POut → String
  | .ok => "ok" | .full => "full" | .rejected => "rejected" | .bool b => showBool b
  | .count n => toString n | .err => "err"

def finish (s : St) (r : PEng × List Action × POut) : Option St × String :=
  let (e, as, out) := r
  (some { s with eng := e, disk := s.disk.applyAll as },
   s!"{showOut out} acts={";".intercalate (as.map showAct)} rec={prefixOutcomes s.disk as} views={prefixViews s.disk as}")

def step (st : Option St) (line : String) : Option St × String :=
  let (op, fs) := splitFields line
  match op, st with
  | "cfg", _ =>
    match natField? fs "cap", natField? fs "snap", natField? fs "rot" with
    | some cap, some snap, some rot =>
      let (e, as) := pInit ⟨snap, rot, cap⟩
      (some { eng := e, disk := emptyDisk.applyAll as, nums := [] },
        s!"ok acts={";".intercalate (as.map showAct)} rec={prefixOutcomes emptyDisk as} views={prefixViews emptyDisk as}")
    | _, _, _ => (st, "bad-op")
  | _, none => (none, "bad-op:no-cfg")
  | _, some s0 =>
    let s : St := { s0 with nums := StoreEng.addNums s0.nums ((field? fs "nums").getD "-") }
    if op == "fault" then (some s, "armed") else
    if (field? fs "fail") == some "1" || (field? fs "accept") == some "io" then
      -- the operation failed on a storage fault: it consumed its sequence numbers and, by C03, did nothing else
      let n := match op with
        | "insert" => 1
        | "delete" | "update" => if ((natField? fs "id").map s.eng.store.has).getD false then 1 else 0
        | "batch_delete" => (((natListField? fs "ids").getD []).filter fun id => s.eng.store.has id).length
        | _ => 0
      let r := pStep s.eng s.disk (.ioFailed n)
      (some { s with eng := r.1 },
        (if op == "insert" then "rejected" else "err") ++ " acts= rec=" ++ showRecover s.disk)
    else
    if ((natField? fs "io").getD 0) > 0 && op != "restart" then
      -- an injected fault fired but the operation reported SUCCESS: some best-effort internal step absorbed it (a failed
      -- rotation / snapshot is tolerated, the write itself is durable).  Which step is not visible here: the model
      -- abstains and the comparison of this case ends (the property oracle keeps judging the implementation).
      (some s, "unpredicted amb=1")
    else
    if op == "tick" || op.startsWith "bk_" then
      match bkStep s op fs with
      | some (s', o) => (some s', o)
      | none => (some s, "unpredicted")
    else
    if s.down && op != "restart" && op != "disk" && op != "sweep" then (some s, "down") else
    match op with
    | "insert" =>
      match natField? fs "id", natListField? fs "stored", metaField? fs "m", field? fs "accept",
            natField? fs "flen", natField? fs "flendel" with
      | some id, some v, some m, some acc, some flen, some fd =>
        let a : Accept := if acc == "1" then .yes else if acc == "index" then .index else .preflight
        finish s (pInsert s.eng s.disk id v m a flen fd)
      | _, _, _, _, _, _ => (st, "bad-op")
    | "delete" =>
      match natField? fs "id", natField? fs "flen" with
      | some id, some flen => finish s (pDelete s.eng s.disk id flen)
      | _, _ => (st, "bad-op")
    | "batch_delete" =>
      match natListField? fs "ids", natField? fs "flen" with
      | some ids, some flen => finish s (pBatchDelete s.eng s.disk ids flen)
      | _, _ => (st, "bad-op")
    | "update" =>
      match natField? fs "id", metaField? fs "m", boolField? fs "merge", natField? fs "flen" with
      | some id, some m, some mg, some flen =>
        let old := ((alookup id s.eng.store.docs).map (·.2)).getD []
        let newMd := if mg then Meta.merge old m else m
        finish s (pUpdate s.eng s.disk id newMd flen)
      | _, _, _, _ => (st, "bad-op")
    | "snapshot" =>
      let (e, as) := snapshot s.eng s.disk
      finish s (e, as, .ok)
    | "restart" =>
      match pRestart s.eng.cfg s.eng.nextName s.disk with
      | .ok (e, as) =>
        (some { s with eng := e, disk := s.disk.applyAll as, down := false },
          s!"ok acts={";".intercalate (as.map showAct)} rec={prefixOutcomes s.disk as} views={prefixViews s.disk as}")
      | .error e => (some { s with down := true }, showRecErr e)
    | "sweep" =>
      match field? fs "faults" with
      | some f => (some { s with down := true }, sweep s.disk f)
      | none => (st, "bad-op")
    | "census" => (some s, showDocs s.eng.store.docs)
    | "disk" => (some s, showDisk s.disk)
    | _ => (st, "bad-op")

end Driver.PersistEng
