/-
Driver engine `ratelimit`: the exact-arithmetic limiter under the same virtual clock.
-/
import Driver.Parse
import KyroModel.Server.RateLimit

namespace Driver.RateLimitEng
open KyroModel Driver

def G : Nat := 1000000000

structure St where
  rl : RateLimiter
  now : Nat
  tick : Nat

/-- a decision within 10 nano-tokens of the threshold is left to f64 rounding — unless the value
    is an exact integer in both arithmetics (integral tokens and no fractional refill) -/
def near (b : Bucket) (now : Nat) : Bool :=
  let t := (b.refill G now).tokens
  let close := (if t ≥ G then t - G else G - t) ≤ 10
  let exact := b.tokens % G == 0 && (now ≤ b.last || t == b.cap * G)
  close && !exact

def step (st : Option St) (line : String) : Option St × String :=
  let (op, fs) := splitFields line
  match op, st with
  | "cfg", _ =>
    let tick := (natField? fs "tick").getD 0
    let now := 1000000000
    match (field? fs "global").bind String.toNat? with
    | some g => (some ⟨⟨[], some (Bucket.new G g now)⟩, now + tick, tick⟩, "ok reads=1")
    | none => (some ⟨⟨[], none⟩, now, tick⟩, "ok reads=0")
  | _, none => (none, "bad-op:no-cfg")
  | "advance", some s => (some { s with now := s.now + (natField? fs "ns").getD 0 }, "ok")
  | "tick", some s => (some { s with tick := (natField? fs "ns").getD 0 }, "ok")
  | "check", some s =>
    match natField? fs "t", natField? fs "qps" with
    | some t, some qps =>
      let isNew := (s.rl.lookup t).isNone
      let cNew := s.now
      let cT := if isNew then s.now + s.tick else s.now
      let cG := cT + s.tick
      let (rl', ok, used) := s.rl.checkLimit G t qps cNew cT cG
      -- ambiguity: tenant or global decision within rounding distance of one token
      let b0 := match s.rl.lookup t with | some b => b | none => Bucket.new G qps cNew
      let amb := near b0 cT ||
        (match s.rl.global with
         | some g => (b0.tryConsume G cT).2 && near g cG
         | none => false)
      (some { s with rl := rl', now := s.now + used * s.tick },
        s!"{showBool ok} reads={used}{if amb then " amb=1" else ""}")
    | _, _ => (st, "bad-op")
  | "avail", some s =>
    match natField? fs "t" with
    | some t =>
      match s.rl.lookup t with
      | some b =>
        let b' := b.refill G s.now
        (some { s with rl := s.rl.setTenant t b', now := s.now + s.tick },
          s!"{(b'.tokens + 500) / 1000} reads=1")
      | none => (st, "none reads=0")
    | none => (st, "bad-op")
  | _, _ => (st, "bad-op")

end Driver.RateLimitEng
