/-
`kyro_driver <engine>`: reads one op per line on stdin, prints one canonical line per op.
The engines run the same definitions the theorems in `KyroModel/Theorems` are about.
-/
import Driver.Tiered
import Driver.QCacheEng
import Driver.StoreEng
import Driver.PersistEng
import Driver.ConfigEng
import Driver.RateLimitEng
import Driver.ValidateEng
import Driver.CodecEng
import Driver.RpcEng
import Driver.PeriodicEng

open Driver

partial def loop {σ : Type} (h : IO.FS.Stream) (out : IO.FS.Stream)
    (step : σ → String → σ × String) (s : σ) : IO Unit := do
  let line ← h.getLine
  if line.isEmpty then return ()
  let t := line.trimAscii.toString
  if t.isEmpty || t.startsWith "#" then
    loop h out step s
  else
    let (s', o) := step s t
    out.putStrLn o
    loop h out step s'

def main (args : List String) : IO UInt32 := do
  let stdin ← IO.getStdin
  let stdout ← IO.getStdout
  match args with
  | ["tiered"] => loop stdin stdout Tiered.step none; return 0
  | ["qcache"] => loop stdin stdout QCacheEng.step none; return 0
  | ["store"] => loop stdin stdout StoreEng.step none; return 0
  | ["persist"] => loop stdin stdout PersistEng.step none; return 0
  | ["config"] => loop stdin stdout ConfigEng.step (); return 0
  | ["ratelimit"] => loop stdin stdout RateLimitEng.step none; return 0
  | ["validate"] => loop stdin stdout ValidateEng.step (); return 0
  | ["rpc"] => loop stdin stdout RpcEng.step {}; return 0
  | ["periodic"] => loop stdin stdout PeriodicEng.step none; return 0
  | ["codec"] => loop stdin stdout (fun (_ : Unit) l => ((), CodecEng.step l)) (); return 0
  | _ => IO.eprintln "usage: kyro_driver <engine>"; return 2
