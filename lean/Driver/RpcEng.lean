/-
Driver engine `rpc`: the tenant layer model (`KyroModel/Server/Tenant.lean`), one RPC per line, in the
output format of the harness engine `rpc` (which talks to the real `kyrodb_server` binary).

Outside the proved model and therefore trusted glue of the correspondence: the nearest-neighbour
ORDER a search starts from is computed here with `Float` from the stored vector bits (Euclidean,
exact for the small dyadic coordinates the generator uses); `Srv.search` and the theorems take that
order as a parameter.  A tie that could change the answer is reported (`ties=1`) instead of guessed.
-/
import Driver.Parse
import Driver.StoreEng
import KyroModel.Server.Tenant

namespace Driver.RpcEng
open KyroModel KyroModel.Srv Driver

structure TCfg where
  plain : String
  maxv : Nat
  enabled : Bool
  admin : Bool
deriving Repr

structure St where
  cfg : List TCfg := []
  tns : List (String × Tn) := []      -- plain name -> tenant (enabled ones)
  s : S := { dim := 4 }
  running : Bool := false

def hexDigit (n : Nat) : Char := if n < 10 then Char.ofNat (48 + n) else Char.ofNat (87 + n)

def hexOf (s : String) : String :=
  String.ofList (s.toUTF8.toList.flatMap fun b => [hexDigit (b.toNat / 16), hexDigit (b.toNat % 16)])

def insertSortedStr (x : String) : List String → List String
  | [] => [x]
  | y :: ys => if x ≤ y then x :: y :: ys else y :: insertSortedStr x ys

/-- `TenantIdMapper::load_or_create`: indexes follow the sorted ids of the enabled tenants -/
def assign (cfg : List TCfg) : List (String × Tn) :=
  let names := ((cfg.filter (·.enabled)).map (·.plain)).foldr insertSortedStr []
  let names := names.eraseDups
  (names.zipIdx).filterMap fun (n, i) =>
    (cfg.find? (·.plain == n)).map fun c => (n, ⟨hexOf n, i, hexOf (toString i), c.maxv⟩)

def parseTenants (s : String) : Option (List TCfg) :=
  (s.splitOn ",").mapM fun t =>
    match t.splitOn ":" with
    | [n, mv] => mv.toNat?.map fun m => ⟨n, m, true, false⟩
    | [n, mv, flag] => mv.toNat?.map fun m => ⟨n, m, flag != "off", flag == "admin"⟩
    | _ => none

def errName : Err → String
  | .unauthenticated => "err:Unauthenticated"
  | .invalidArgument => "err:InvalidArgument"
  | .resourceExhausted => "err:ResourceExhausted"
  | .internal => "err:Internal"

def nsField (fs : List (String × String)) : String :=
  match field? fs "ns" with
  | none | some "-" => ""
  | some h => h

def showVec (v : List Nat) : String := showNatList v

def showRead (lid : Nat) (emb : Bool) : Option (List Nat × Meta) → String
  | none => s!"{lid}~0~-~-"
  | some (v, m) => s!"{lid}~1~{if emb then showVec v else "-"}~{showMeta m}"

def parseItems (s : String) : Option (List Item) :=
  if s == "-" || s == "" then some [] else
  (s.splitOn "/").mapM fun d =>
    match d.splitOn ";" with
    | [i, v, m, ns] => do
      let i ← i.toNat?
      let v ← parseNatList v
      let m ← parseMeta m
      pure ⟨i, v, m, if ns == "-" then "" else ns⟩
    | _ => none

/-! ### nearest-neighbour order (trusted glue) -/

def f32ToFloat (b : Nat) : Float :=
  let sign : Float := if b / 2147483648 % 2 == 1 then -1.0 else 1.0
  let e := b / 8388608 % 256
  let m := b % 8388608
  if e == 0 then sign * (Float.ofNat m).scaleB (-149)
  else sign * (Float.ofNat (8388608 + m)).scaleB (Int.ofNat e - 150)

def l2 (a b : List Nat) : Float :=
  (a.zip b).foldl (fun acc (x, y) => let d := f32ToFloat x - f32ToFloat y; acc + d * d) 0.0

def insertRank (x : Float × Nat) : List (Float × Nat) → List (Float × Nat)
  | [] => [x]
  | y :: ys => if x.1 < y.1 || (x.1 == y.1 && x.2 ≤ y.2) then x :: y :: ys else y :: insertRank x ys

def rankOf (s : S) (q : List Nat) : List (Float × Nat) :=
  (s.docs.map fun (g, d) => (l2 q d.vec, g)).foldr insertRank []

/-- some two of the first `n + 1` candidates are equidistant -/
def hasTie (r : List (Float × Nat)) (n : Nat) : Bool :=
  let top := r.take (n + 1)
  (top.zip top.tail).any fun (a, b) => a.1 == b.1

def parseFilterField (fs : List (String × String)) : Option (Option Filter) :=
  match field? fs "f" with
  | none | some "-" => some none
  | some f =>
    match StoreEng.parseFilter 10000 (f.splitOn ",") with
    | some (flt, []) => some (some flt)
    | _ => none

def noParse : String → Option Nat := fun _ => none

def searchOne (s : S) (t : Tn) (q : List Nat) (k : Nat) (ns : String) (f : Option Filter) (emb : Bool) : String :=
  if q.length != s.dim then "err:InvalidArgument" else
  let r := rankOf s q
  match Srv.search noParse s t (r.map (·.2)) k ns f with
  | .error e => errName e
  | .ok (total, res) =>
    let sk := match validateSearch s.dim true k 0 (ns != "") f with
      | .ok p => p.searchK
      | .error _ => 0
    let ties := hasTie r sk
    let items := res.map fun (lid, m) =>
      let v := match gid t lid with
        | some g => ((alookup g s.docs).map (·.vec)).getD []
        | none => []
      s!"{lid}~*~{if emb then showVec v else "-"}~{showMeta m}"
    -- would a client that cannot see the server-owned keys get the same answer?
    let pub := match f with
      | some flt =>
        if mentionsReserved flt then
          match Srv.search noParse s t (r.map (fun (x : Float × Nat) => x.2)) k ns (some (hideReserved flt)) with
          | .ok (total2, res2) => if total2 == total && res2.map (fun (x : Nat × Meta) => x.1) == res.map (fun (x : Nat × Meta) => x.1) then " pub=same" else " pub=diff"
          | .error _ => " pub=diff"
        else ""
      | none => ""
    s!"total={total} res={if items.isEmpty then "-" else ";".intercalate items} ties={if ties then 1 else 0}{pub}"

def usageLine (s : S) (ts : List (String × Tn)) : String :=
  let rows := ts.map fun (n, t) => (n, usageOf s t)
  let total := rows.foldl (fun a r => a + r.2.vectors) 0
  let parts := rows.map fun (n, u) => s!"{n}:vectors={u.vectors}:inserts={u.inserts}:deletes={u.deletes}"
  s!"ok total_vectors={total} tenants={if parts.isEmpty then "-" else ",".intercalate parts}"

def step (st : St) (line : String) : St × String :=
  let (op, fs) := splitFields line
  match op with
  | "cfg" =>
    match natField? fs "dim", (field? fs "tenants").bind parseTenants with
    | some dim, some cfg => ({ cfg := cfg, tns := assign cfg, s := { dim := dim }, running := false }, "ok")
    | _, _ => (st, "bad-op")
  | "reset" => ({ st with s := { dim := st.s.dim }, running := false }, "ok")
  | "start" =>
    if st.running then (st, "already-running") else
    ({ st with running := true, s := restart st.s (st.tns.map (·.2)) }, "ok")
  | "stop" => if st.running then ({ st with running := false }, "ok rc=0") else (st, "not-running")
  | "restart" =>
    if !st.running then (st, "stop:not-running") else
    ({ st with s := restart st.s (st.tns.map (·.2)) }, "ok")
  | "usage" =>
    if !st.running then (st, "http-unreachable") else
    match field? fs "t" with
    | none => (st, "bad-op")
    | some tn =>
      match st.tns.find? (·.1 == tn) with
      | none => (st, "http:401")
      | some (_, t) =>
        if field? fs "scope" == some "all" then
          if (st.cfg.find? (·.plain == tn)).map (·.admin) == some true then
            (st, usageLine st.s st.tns)
          else (st, "http:403")
        else (st, usageLine st.s [(tn, t)])
  | _ =>
    match field? fs "t" with
    | none => (st, "bad-op")
    | some tn =>
      if !st.running then (st, "not-running") else
      match st.tns.find? (·.1 == tn) with
      | none => (st, "err:Unauthenticated")
      | some (_, t) =>
        let s := st.s
        let ns := nsField fs
        let emb := (boolField? fs "emb").getD true
        match op with
        | "ins" =>
          match natField? fs "id", natListField? fs "v", metaField? fs "m" with
          | some id, some v, some m =>
            let (s', r) := Srv.insert s t id v m ns
            ({ st with s := s' }, match r with | .ok _ => "ok success=1 n=1 failed=0" | .error e => errName e)
          | _, _, _ => (st, "bad-op")
        | "bins" =>
          match (field? fs "docs").bind parseItems with
          | some items =>
            let (s', a, b) := Srv.bulkInsert s t items
            ({ st with s := s' }, s!"ok success={if b == 0 then 1 else 0} n={a} failed={b}")
          | none => (st, "bad-op")
        | "bload" =>
          match (field? fs "docs").bind parseItems with
          | some items =>
            let (s', r) := Srv.bulkLoad s t items
            ({ st with s := s' }, match r with
              | .ok (a, b) => s!"ok success={if b == 0 then 1 else 0} n={a} failed={b}"
              | .error e => errName e)
          | none => (st, "bad-op")
        | "del" =>
          match natField? fs "id" with
          | some id =>
            let (s', r) := Srv.delete s t id ns
            ({ st with s := s' }, match r with
              | .ok b => s!"ok success=1 existed={if b then 1 else 0}" | .error e => errName e)
          | none => (st, "bad-op")
        | "um" =>
          match natField? fs "id", metaField? fs "m", boolField? fs "merge" with
          | some id, some m, some mg =>
            let (s', r) := Srv.updateMeta s t id m mg ns
            ({ st with s := s' }, match r with
              | .ok b => s!"ok success=1 existed={if b then 1 else 0}" | .error e => errName e)
          | _, _, _ => (st, "bad-op")
        | "q" =>
          match natField? fs "id" with
          | some id => (st, match Srv.query s t id ns with
              | .ok r => "ok " ++ showRead id emb r | .error e => errName e)
          | none => (st, "bad-op")
        | "bq" =>
          match natListField? fs "ids" with
          | some ids => (st, match Srv.bulkQuery s t ids ns with
              | .ok rs =>
                let items := rs.map fun (l, r) => showRead l emb r
                s!"ok found={(rs.filter (·.2.isSome)).length} req={ids.length} res={if items.isEmpty then "-" else ";".intercalate items}"
              | .error e => errName e)
          | none => (st, "bad-op")
        | "bd" =>
          match natListField? fs "ids" with
          | some ids =>
            let (s', r) := Srv.batchDeleteIds s t ids ns
            ({ st with s := s' }, match r with | .ok n => s!"ok success=1 deleted={n}" | .error e => errName e)
          | none => (st, "bad-op")
        | "bdf" =>
          match parseFilterField fs with
          | some (some f) =>
            let (s', r) := Srv.batchDeleteFilter noParse s t f ns
            let pub := if mentionsReserved f then
                (if (Srv.batchDeleteFilter noParse s t (hideReserved f) ns).1.docs.map (·.1) == s'.docs.map (·.1)
                 then " pub=same" else " pub=diff") else ""
            ({ st with s := s' }, match r with | .ok n => s!"ok success=1 deleted={n}{pub}" | .error e => errName e)
          | _ => (st, "bad-op")
        | "search" =>
          match natListField? fs "q", natField? fs "k", parseFilterField fs with
          | some q, some k, some f =>
            let o := searchOne s t q k ns f ((boolField? fs "emb").getD false)
            (st, if o.startsWith "err:" then o else "ok " ++ o)
          | _, _, _ => (st, "bad-op")
        | "bsearch" =>
          match field? fs "qs", natField? fs "k", parseFilterField fs with
          | some qs, some k, some f =>
            match (qs.splitOn "/").mapM parseNatList with
            | some qs =>
              let outs := qs.map fun q => searchOne s t q k ns f ((boolField? fs "emb").getD false)
              -- a status in the response stream ends it: nothing after the first refused request
              let upTo := match outs.findIdx? (·.startsWith "err:") with
                | some i => outs.take (i + 1)
                | none => outs
              (st, "ok " ++ " | ".intercalate upTo)
            | none => (st, "bad-op")
          | _, _, _ => (st, "bad-op")
        | "flush" => (st, "ok success=1 flushed=*")
        | "probe" =>
          let n := room s t
          ({ st with s := probe s t }, s!"ok room={n} refusal=ResourceExhausted removed={n}")
        | _ => (st, "bad-op")

end Driver.RpcEng
