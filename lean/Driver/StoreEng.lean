/-
Driver engine `store`: slot-level DocStore + inverted index + filters.
-/
import Driver.Parse
import KyroModel.Store.DocStore

namespace Driver.StoreEng
open KyroModel Driver

structure St where
  store : DocStore
  nums : List (String × Nat)         -- observed `str::parse::<f64>` results (hex text ↦ bits)

def St.parse (s : St) (x : String) : Option Nat := (s.nums.find? (·.1 == x)).map (·.2)

/-- `hex:bits;hex:bits` -/
def addNums (tbl : List (String × Nat)) (s : String) : List (String × Nat) :=
  if s == "-" || s == "" then tbl else
  (s.splitOn ";").foldl (fun t p =>
    match p.splitOn ":" with
    | [h, b] => match b.toNat? with
      | some n => if (t.find? (·.1 == h)).isSome then t else (h, n) :: t
      | none => t
    | _ => t) tbl

/-- Polish token stream → filter.  Returns the filter and the remaining tokens. -/
def parseFilter : Nat → List String → Option (Filter × List String)
  | 0, _ => none
  | fuel + 1, toks =>
    match toks with
    | "none" :: r => some (.none, r)
    | "exact" :: k :: v :: r => some (.exact k v, r)
    | "range" :: k :: "nobound" :: r => some (.range k none, r)
    | "range" :: k :: "ge" :: v :: r => some (.range k (some (.gte v)), r)
    | "range" :: k :: "le" :: v :: r => some (.range k (some (.lte v)), r)
    | "range" :: k :: "gt" :: v :: r => some (.range k (some (.gt v)), r)
    | "range" :: k :: "lt" :: v :: r => some (.range k (some (.lt v)), r)
    | "in" :: k :: n :: r =>
      match n.toNat? with
      | some n => if r.length < n then none else some (.inMatch k (r.take n), r.drop n)
      | none => none
    | "and" :: n :: r => (n.toNat?.bind fun n => parseMany fuel n r).map fun (fs, r') => (.and fs, r')
    | "or" :: n :: r => (n.toNat?.bind fun n => parseMany fuel n r).map fun (fs, r') => (.or fs, r')
    | "not" :: "0" :: r => some (.not none, r)
    | "not" :: "1" :: r => (parseFilter fuel r).map fun (f, r') => (.not (some f), r')
    | _ => none
where
  parseMany : Nat → Nat → List String → Option (List Filter × List String)
    | _, 0, r => some ([], r)
    | 0, _, _ => none
    | fuel + 1, n + 1, r =>
      match parseFilter fuel r with
      | some (f, r') => (parseMany fuel n r').map fun (fs, r'') => (f :: fs, r'')
      | none => none

def sortDedup (l : List Nat) : List Nat := (l.mergeSort (· ≤ ·)).eraseDups

def step (st : Option St) (line : String) : Option St × String :=
  let (op, fs) := splitFields line
  match op, st with
  | "cfg", _ =>
    match natField? fs "cap" with
    | some cap => (some ⟨DocStore.empty cap, []⟩, "ok")
    | none => (st, "bad-op")
  | _, none => (none, "bad-op:no-cfg")
  | _, some s0 =>
    let s : St := { s0 with nums := addNums s0.nums ((field? fs "nums").getD "-") }
    let parse := s.parse
    match op with
    | "insert" =>
      match natField? fs "id", natListField? fs "stored", metaField? fs "m", field? fs "accept" with
      | some id, some v, some m, some acc =>
        if acc == "1" then
          let (d, out) := s.store.insert parse id v m
          (some { s with store := d }, match out with | .ok => "ok" | .full => "full")
        else if acc == "index" then
          -- refused by the ANN index after the capacity handling (compaction may have run)
          let d := if s.store.slots.length ≥ s.store.cap && s.store.tombstones > 0
                   then s.store.compact parse else s.store
          (some { s with store := d },
            if d.slots.length ≥ d.cap then "full" else "rejected")
        else (some s, "rejected")
      | _, _, _, _ => (st, "bad-op")
    | "delete" =>
      match natField? fs "id" with
      | some id => let (d, b) := s.store.delete parse id; (some { s with store := d }, showBool b)
      | none => (st, "bad-op")
    | "batch_delete" =>
      match natListField? fs "ids" with
      | some ids => let (d, n) := s.store.batchDelete parse ids; (some { s with store := d }, toString n)
      | none => (st, "bad-op")
    | "update" =>
      match natField? fs "id", metaField? fs "m", boolField? fs "merge" with
      | some id, some m, some mg =>
        let old := ((s.store.lookup id).map (·.md)).getD []
        let newMd := if mg then Meta.merge old m else m
        let (d, b) := s.store.updateMeta parse id newMd
        (some { s with store := d }, showBool b)
      | _, _, _ => (st, "bad-op")
    | "filter" =>
      match field? fs "f" with
      | some f =>
        match parseFilter 10000 (f.splitOn ",") with
        | some (flt, []) =>
          let ids := s.store.idsForFilter parse flt
          let sc := s.store.scan (matchesF parse flt)
          (some s, s!"ids={showNatList (sortDedup ids)} n={ids.length} scan={showNatList (sortDedup sc)}")
        | _ => (st, "bad-op:filter")
      | none => (st, "bad-op")
    | "census" =>
      let live := s.store.slots.filterMap fun sl => sl.ext.map fun id => (id, sl)
      let sorted := live.mergeSort (fun a b => a.1 ≤ b.1)
      (some s, "[" ++ ";".intercalate (sorted.map fun (id, sl) =>
        s!"{id}~{showNatList sl.vec}~{showMeta sl.md}~{sl.ver}") ++ "]")
    | _ => (st, "bad-op")

end Driver.StoreEng
