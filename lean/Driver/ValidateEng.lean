/-
Driver engine `validate`: request validators and search planner.
-/
import Driver.StoreEng
import KyroModel.Server.Validate

namespace Driver.ValidateEng
open KyroModel Driver

def showErr : VErr → String
  | .emptyEmbedding => "err:emptyEmbedding" | .tooManyDims => "err:tooManyDims"
  | .nonFinite => "err:nonFinite" | .kZero => "err:kZero" | .kTooLarge => "err:kTooLarge"
  | .efTooLarge => "err:efTooLarge" | .badDocId => "err:badDocId"

def parseF (s : String) : Option Filter :=
  match StoreEng.parseFilter 100000 (s.splitOn ",") with
  | some (f, []) => some f
  | _ => none

def step (_ : Unit) (line : String) : Unit × String :=
  let (op, fs) := splitFields line
  match op with
  | "oversample" =>
    match (field? fs "f").bind parseF with
    | some f => ((), toString (oversample f))
    | none => ((), "bad-op")
  | "vsearch" =>
    match natField? fs "len", boolField? fs "finite", natField? fs "k", natField? fs "ef",
          boolField? fs "ns", field? fs "f" with
    | some len, some fin, some k, some ef, some ns, some f =>
      let flt : Option (Option Filter) := if f == "-" then some none else (parseF f).map some
      match flt with
      | some flt =>
        match validateSearch len fin k ef ns flt with
        | .ok p => ((), s!"ok search_k={p.searchK} ef={match p.ef with | some e => toString e | none => "-"}")
        | .error e => ((), showErr e)
      | none => ((), "bad-op")
    | _, _, _, _, _, _ => ((), "bad-op")
  | "vinsert" =>
    match natField? fs "id", natField? fs "len", boolField? fs "finite" with
    | some id, some len, some fin =>
      match validateInsert id len fin with
      | .ok _ => ((), "ok")
      | .error e => ((), showErr e)
    | _, _, _ => ((), "bad-op")
  | _ => ((), "bad-op")

end Driver.ValidateEng
