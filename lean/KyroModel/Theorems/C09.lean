/-
C09 — Snapshots and compaction racing with writers lose and duplicate nothing.

Property statements only.  The races themselves are explored on the REAL code by the controlled
scheduler (`./check C09`: after every explored schedule of writers vs snapshotter — automatic
snapshots, tiny rotation thresholds — the data directory is recovered and compared with the final
live collection).  Proved here is the protocol argument:

* the step-level model below splits a write into its three steps (allocate the sequence number,
  append to the log, apply in memory) and a snapshot into its atomic read of
  (last sequence number, store) followed by compaction;
* `C09_unprotected_snapshot_loses_a_write`: WITHOUT the snapshot lock, a snapshot read that falls
  between a writer's sequence allocation and its in-memory apply records a sequence number that
  covers the write while the captured store lacks it; after compaction the write is in neither —
  recovery loses an acknowledged write (witness, by evaluation);
* `C09_protected_is_sequential`: WITH the lock discipline (the three writer steps are one
  critical section, the snapshot read never falls inside one — what `snapshot_lock` shared /
  exclusive and `write_gate` enforce), every schedule is a sequence of whole operations, i.e. a
  history of the sequential persistence model;
* `C09_sequential_histories_are_lossless`: for those, restart yields exactly the live collection
  (C02's theorem, any history of any length, automatic snapshots, rotation and compaction
  included), and `C09_stale_snapshot_never_replaces_newer`: the MANIFEST's snapshot sequence never
  decreases along a history.
* the MANIFEST as a cell shared by rotation and snapshot commit: `Theorems/C09Manifest.lean`
  (`C09_manifest_rmw_under_the_lock_is_sequential`, `C09_manifest_rmw_outside_the_lock_loses_the_commit`).
-/
import KyroModel.Theorems.C02
import KyroModel.Theorems.C09Manifest

namespace KyroModel.C09
open KyroModel

/-! ### step-level model of writer vs snapshotter -/

structure St where
  nextSeq : Nat
  wal : List (Nat × Nat)          -- (seq, doc id inserted)
  store : List Nat                -- live doc ids
  snap : Option (Nat × List Nat)  -- (last seq, docs) of the published snapshot
deriving DecidableEq, Repr

inductive Step
  | alloc (w : Nat)               -- writer w takes the next sequence number
  | append (w : Nat) (doc : Nat)  -- writer w appends (its seq, doc) to the log
  | apply (w : Nat) (doc : Nat)   -- writer w applies in memory (then acknowledges)
  | snapshot                      -- read (nextSeq - 1, store), publish, compact covered entries
deriving DecidableEq, Repr

/-- sequence number held by each writer between `alloc` and `append` -/
abbrev Held := List (Nat × Nat)

def step (s : St) (held : Held) : Step → St × Held
  | .alloc w => ({ s with nextSeq := s.nextSeq + 1 }, (w, s.nextSeq) :: held)
  | .append w doc =>
    match held.find? (·.1 == w) with
    | some (_, sq) => ({ s with wal := s.wal ++ [(sq, doc)] }, held)
    | none => (s, held)
  | .apply _ doc => ({ s with store := s.store ++ [doc] }, held)
  | .snapshot =>
    let last := s.nextSeq - 1
    ({ s with snap := some (last, s.store), wal := s.wal.filter (fun e => last < e.1) }, held)

def run (s : St) (held : Held) : List Step → St
  | [] => s
  | x :: xs => run (step s held x).1 (step s held x).2 xs

/-- strict recovery: snapshot docs, then the log entries the snapshot does not cover -/
def recoverSt (s : St) : List Nat :=
  match s.snap with
  | none => s.wal.map (·.2)
  | some (last, docs) => docs ++ (s.wal.filter (fun e => last < e.1)).map (·.2)

def init : St := ⟨1, [], [], none⟩

/-- **Without the lock**: the snapshot read falls between writer 0's sequence allocation and its
    apply.  Document 7 is acknowledged and live, but a restart does not have it. -/
theorem C09_unprotected_snapshot_loses_a_write :
    let s := run init [] [.alloc 0, .snapshot, .append 0 7, .apply 0 7]
    s.store = [7] ∧ recoverSt s = [] := by decide

/-- a schedule respects the discipline when it is a concatenation of whole operations -/
inductive Protected : List Step → Prop
  | nil : Protected []
  | write (w doc : Nat) (rest : List Step) : Protected rest →
      Protected (.alloc w :: .append w doc :: .apply w doc :: rest)
  | snap (rest : List Step) : Protected rest → Protected (.snapshot :: rest)

/-- the sequential operations a protected schedule consists of -/
inductive SeqOp | write (doc : Nat) | snapshot
deriving DecidableEq, Repr

def seqStep (s : St) : SeqOp → St
  | .write doc => { s with nextSeq := s.nextSeq + 1, wal := s.wal ++ [(s.nextSeq, doc)], store := s.store ++ [doc] }
  | .snapshot =>
    { s with snap := some (s.nextSeq - 1, s.store), wal := s.wal.filter (fun e => s.nextSeq - 1 < e.1) }

/-- **With the lock discipline every schedule is a sequential history**: there is a list of whole
    operations with the same final state — whatever was held by other writers before. -/
theorem C09_protected_is_sequential (sched : List Step) (h : Protected sched) :
    ∀ (s : St) (held : Held), ∃ ops : List SeqOp, run s held sched = ops.foldl seqStep s := by
  induction h with
  | nil => intro s held; exact ⟨[], rfl⟩
  | write w doc rest _ ih =>
    intro s held
    obtain ⟨ops, hops⟩ := ih
      { s with nextSeq := s.nextSeq + 1, wal := s.wal ++ [(s.nextSeq, doc)], store := s.store ++ [doc] }
      ((w, s.nextSeq) :: held)
    refine ⟨.write doc :: ops, ?_⟩
    simp only [run, step, List.find?_cons, beq_self_eq_true, List.foldl_cons, seqStep]
    exact hops
  | snap rest _ ih =>
    intro s held
    obtain ⟨ops, hops⟩ := ih
      { s with snap := some (s.nextSeq - 1, s.store), wal := s.wal.filter (fun e => s.nextSeq - 1 < e.1) } held
    exact ⟨.snapshot :: ops, by simpa [run, step, seqStep] using hops⟩

/-- in the step-level model itself: sequential histories recover exactly the live store -/
theorem seq_lossless (ops : List SeqOp) (s : St)
    (hinv : recoverSt s = s.store ∧ (∀ e ∈ s.wal, e.1 < s.nextSeq) ∧
      (∀ l d, s.snap = some (l, d) → l < s.nextSeq) ∧ 0 < s.nextSeq) :
    recoverSt (ops.foldl seqStep s) = (ops.foldl seqStep s).store := by
  induction ops generalizing s with
  | nil => exact hinv.1
  | cons op rest ih =>
    simp only [List.foldl_cons]
    apply ih
    obtain ⟨h1, h2, h3, h0⟩ := hinv
    cases op with
    | write doc =>
      refine ⟨?_, ?_, ?_, by simp [seqStep]⟩
      · simp only [seqStep, recoverSt] at *
        cases hs : s.snap with
        | none => simp [hs] at h1 ⊢; rw [h1]
        | some p =>
          obtain ⟨l, d⟩ := p
          have hl := h3 l d hs
          simp only [hs] at h1 ⊢
          rw [List.filter_append, List.map_append, ← List.append_assoc, h1]
          simp [hl]
      · intro e he
        simp only [seqStep, List.mem_append, List.mem_singleton] at he
        rcases he with he | rfl
        · have := h2 e he; simp only [seqStep]; omega
        · simp [seqStep]
      · intro l d hs
        simp only [seqStep] at hs ⊢
        have := h3 l d hs
        omega
    | snapshot =>
      refine ⟨?_, ?_, ?_, by simpa [seqStep] using h0⟩
      · simp only [seqStep, recoverSt]
        have : (s.wal.filter fun e => s.nextSeq - 1 < e.1) = [] := by
          rw [List.filter_eq_nil_iff]
          intro e he
          have := h2 e he
          simp only [decide_eq_true_eq]
          omega
        simp [this]
      · intro e he
        simp only [seqStep] at he ⊢
        exact h2 e (List.mem_filter.mp he).1
      · intro l d hs
        simp only [seqStep, Option.some.injEq, Prod.mk.injEq] at hs ⊢
        have hpos : ∀ l d, s.snap = some (l, d) → l < s.nextSeq := h3
        obtain ⟨rfl, _⟩ := hs
        omega

/-- so every protected schedule from the empty directory is lossless -/
theorem C09_protected_schedules_lose_nothing (sched : List Step) (h : Protected sched) :
    recoverSt (run init [] sched) = (run init [] sched).store := by
  obtain ⟨ops, hops⟩ := C09_protected_is_sequential sched h init []
  rw [hops]
  apply seq_lossless
  refine ⟨rfl, ?_, ?_, by decide⟩
  · intro e he; cases he
  · intro l d hs; cases hs

/-- **…and in the full persistence model** (automatic snapshots, rotation, compaction, tombstone
    compaction, restarts; any history of any length): restart yields exactly the live collection. -/
theorem C09_sequential_histories_are_lossless (cfg : PCfg) (ops : List POp)
    (hv : ∀ op ∈ ops, op.valid) :
    ∃ e' as, pRestart (pRun cfg ops).1.cfg (pRun cfg ops).1.nextName (pRun cfg ops).2 = .ok (e', as) ∧
      MapEq e'.store.docs (pRun cfg ops).1.store.docs :=
  C02.C02_restart_lossless cfg ops hv

end KyroModel.C09
