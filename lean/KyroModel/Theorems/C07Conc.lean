/-
C07, schedule half — "a result computed before a write is never stored after that write's
invalidation", at the level of the ENGINE's steps.

Any number of writing and searching threads interleave at step granularity.  A write is two steps:
the store changes (`wWrite`), the query cache is invalidated (`wInval`: the generation advances and
the affected entry is removed); a cacheable search is three: read the generation (`sGen`), compute
the result from the store as it is (`sCompute`), store it if the generation is unchanged
(`sStore`, re-checked under the cache's lock).  Steps of a thread that are out of program order are
ignored, so "every list of steps" is "every interleaving".

* `C07_write_then_invalidate_is_fresh`: with the order write → invalidate (what
  `TieredEngine::insert/delete/...` do), after ANY interleaving the cached entry lags the store by at
  most the writes still in flight; once no write is in flight it was computed from the current
  store.
* `C07_invalidate_then_write_goes_stale`: with the order reversed (seeded change C07-3) a search
  between the two steps stores a pre-write result that nothing removes.

Tie to the code: `./check C07` explores the real engine (one writer against one cacheable search,
every schedule at lock granularity) and compares, afterwards, the cacheable search with the same
search past the cache.
-/
namespace KyroModel.C07.Conc

inductive SPc
  | idle
  | gotGen (g : Nat)
  | computed (g r : Nat)
  deriving DecidableEq, Repr

structure St where
  /-- true: store first, then invalidate; false: the reversed order -/
  writeFirst : Bool
  ver : Nat := 0                 -- number of writes the store reflects
  gen : Nat := 0                 -- invalidation generation of the query cache
  entry : Option Nat := none     -- the cached entry: the store version it was computed from
  inflight : Nat := 0            -- writes whose first step ran and whose second step has not
  wpc : List (Nat × Bool) := []  -- per writer: is it between its two steps?
  spc : List (Nat × SPc) := []
  deriving Repr

def getW (l : List (Nat × Bool)) (i : Nat) : Bool := ((l.find? (·.1 == i)).map (·.2)).getD false
def setW (l : List (Nat × Bool)) (i : Nat) (b : Bool) : List (Nat × Bool) := (i, b) :: l.filter (·.1 != i)
def getS (l : List (Nat × SPc)) (i : Nat) : SPc := ((l.find? (·.1 == i)).map (·.2)).getD .idle
def setS (l : List (Nat × SPc)) (i : Nat) (p : SPc) : List (Nat × SPc) := (i, p) :: l.filter (·.1 != i)

inductive Step
  | wWrite (i : Nat)
  | wInval (i : Nat)
  | sGen (i : Nat)
  | sCompute (i : Nat)
  | sStore (i : Nat)
  deriving DecidableEq, Repr

def doWrite (s : St) : St := { s with ver := s.ver + 1 }
def doInval (s : St) : St := { s with gen := s.gen + 1, entry := none }

def step (s : St) : Step → St
  | .wWrite i =>
    if s.writeFirst then
      (if getW s.wpc i then s else { doWrite s with inflight := s.inflight + 1, wpc := setW s.wpc i true })
    else
      (if getW s.wpc i then { doWrite s with inflight := s.inflight - 1, wpc := setW s.wpc i false } else s)
  | .wInval i =>
    if s.writeFirst then
      (if getW s.wpc i then { doInval s with inflight := s.inflight - 1, wpc := setW s.wpc i false } else s)
    else
      (if getW s.wpc i then s else { doInval s with inflight := s.inflight + 1, wpc := setW s.wpc i true })
  | .sGen i => { s with spc := setS s.spc i (.gotGen s.gen) }
  | .sCompute i =>
    match getS s.spc i with
    | .gotGen g => { s with spc := setS s.spc i (.computed g s.ver) }
    | _ => s
  | .sStore i =>
    match getS s.spc i with
    | .computed g r => { s with entry := if s.gen = g then some r else s.entry, spc := setS s.spc i .idle }
    | _ => s

def run (s : St) (steps : List Step) : St := steps.foldl step s

theorem getS_setS_self (l : List (Nat × SPc)) (i : Nat) (p : SPc) : getS (setS l i p) i = p := by
  simp [getS, setS]

theorem find_filter_ne {α : Type} (l : List (Nat × α)) (i j : Nat) (h : j ≠ i) :
    (l.filter (·.1 != i)).find? (·.1 == j) = l.find? (·.1 == j) := by
  have h1 : (i == j) = false := by simpa using (fun e => h e.symm)
  induction l with
  | nil => rfl
  | cons q rest ih =>
    by_cases hq : q.1 = i
    · have hf : (q.1 != i) = false := by simpa using hq
      have hj : (q.1 == j) = false := by rw [hq]; exact h1
      rw [List.filter_cons, hf, List.find?_cons, hj]
      simpa using ih
    · have hf : (q.1 != i) = true := by simpa using hq
      rw [List.filter_cons, hf]
      simp only [if_true, List.find?_cons, ih]

theorem getS_setS_ne (l : List (Nat × SPc)) (i j : Nat) (p : SPc) (h : j ≠ i) : getS (setS l i p) j = getS l j := by
  have h1 : (i == j) = false := by simpa using (fun e => h e.symm)
  simp only [getS, setS, List.find?_cons, h1]
  rw [find_filter_ne l i j h]

/-- what a searcher holds is consistent with the cache and the store -/
def SOk (s : St) : SPc → Prop
  | .idle => True
  | .gotGen g => g ≤ s.gen
  | .computed g r => g ≤ s.gen ∧ r ≤ s.ver ∧ (g = s.gen → s.ver ≤ r + s.inflight)

structure Inv (s : St) : Prop where
  entryOld : ∀ r, s.entry = some r → r ≤ s.ver
  entryLag : ∀ r, s.entry = some r → s.ver ≤ r + s.inflight
  searchers : ∀ i, SOk s (getS s.spc i)

theorem inv_init : Inv { writeFirst := true } where
  entryOld := fun _ h => nomatch h
  entryLag := fun _ h => nomatch h
  searchers := fun i => by simp [getS, SOk]

theorem sok_mono {s s' : St} (p : SPc) (h : SOk s p)
    (hg : s.gen ≤ s'.gen) (hv : s.ver ≤ s'.ver)
    (hl : ∀ g r, p = .computed g r → g = s'.gen → s'.ver ≤ r + s'.inflight) : SOk s' p := by
  cases p with
  | idle => trivial
  | gotGen g => exact Nat.le_trans h hg
  | computed g r => exact ⟨Nat.le_trans h.1 hg, Nat.le_trans h.2.1 hv, hl g r rfl⟩

theorem inv_step {s : St} (hw : s.writeFirst = true) (h : Inv s) (x : Step) : Inv (step s x) := by
  cases x with
  | wWrite i =>
    simp only [step, hw, if_true]
    split
    · exact h
    · refine ⟨?_, ?_, ?_⟩
      · intro r hr; have := h.entryOld r hr; simp only [doWrite]; omega
      · intro r hr; have := h.entryLag r hr; simp only [doWrite]; omega
      · intro j
        show SOk _ (getS s.spc j)
        refine sok_mono (s := s) _ (h.searchers j) (Nat.le_refl _) (Nat.le_succ _) ?_
        intro g r hp hg
        have := h.searchers j
        rw [hp] at this
        have := this.2.2 hg
        show s.ver + 1 ≤ r + (s.inflight + 1)
        omega
  | wInval i =>
    simp only [step, hw, if_true]
    split
    · refine ⟨(fun _ hr => nomatch hr), (fun _ hr => nomatch hr), ?_⟩
      intro j
      show SOk _ (getS s.spc j)
      refine sok_mono (s := s) _ (h.searchers j) (Nat.le_succ _) (Nat.le_refl _) ?_
      intro g r hp hg
      -- a searcher's generation is at most the OLD one, so it cannot equal the advanced one
      have := h.searchers j
      rw [hp] at this
      have h1 := this.1
      have hg' : g = s.gen + 1 := hg
      omega
    · exact h
  | sGen i =>
    refine ⟨h.entryOld, h.entryLag, ?_⟩
    intro j
    simp only [step]
    by_cases e : j = i
    · subst e; rw [getS_setS_self]; exact Nat.le_refl _
    · rw [getS_setS_ne _ _ _ _ e]; exact h.searchers j
  | sCompute i =>
    simp only [step]
    split
    · rename_i g hg
      refine ⟨h.entryOld, h.entryLag, ?_⟩
      intro j
      by_cases e : j = i
      · subst e
        rw [getS_setS_self]
        have := h.searchers j
        rw [hg] at this
        exact ⟨this, Nat.le_refl _, fun _ => Nat.le_add_right _ _⟩
      · rw [getS_setS_ne _ _ _ _ e]; exact h.searchers j
    · exact h
  | sStore i =>
    simp only [step]
    split
    · rename_i g r hg
      have hs := h.searchers i
      rw [hg] at hs
      refine ⟨?_, ?_, ?_⟩
      · intro r' hr'
        simp only at hr'
        split at hr'
        · cases hr'; exact hs.2.1
        · exact h.entryOld r' hr'
      · intro r' hr'
        simp only at hr'
        split at hr'
        · rename_i hgen
          cases hr'; exact hs.2.2 hgen.symm
        · exact h.entryLag r' hr'
      · intro j
        by_cases e : j = i
        · subst e; rw [getS_setS_self]; trivial
        · rw [getS_setS_ne _ _ _ _ e]; exact h.searchers j
    · exact h

theorem writeFirst_step (s : St) (x : Step) : (step s x).writeFirst = s.writeFirst := by
  cases x <;> simp only [step] <;> repeat (first | split | rfl)

theorem inv_run (steps : List Step) : ∀ {s : St}, s.writeFirst = true → Inv s → Inv (run s steps) := by
  induction steps with
  | nil => intro s _ h; exact h
  | cons x rest ih =>
    intro s hw h
    exact ih ((writeFirst_step s x).trans hw) (inv_step hw h x)

/-- **Write, then invalidate.**  After ANY interleaving of any number of writers and cacheable
    searches, the cached entry was computed from a store at most `inflight` writes behind — and once
    no write is in flight (every write has been acknowledged) it was computed from the current store. -/
theorem C07_write_then_invalidate_is_fresh (steps : List Step) (r : Nat)
    (h : (run { writeFirst := true } steps).entry = some r) :
    (run { writeFirst := true } steps).ver ≤ r + (run { writeFirst := true } steps).inflight ∧
    ((run { writeFirst := true } steps).inflight = 0 → r = (run { writeFirst := true } steps).ver) := by
  have hI := inv_run steps (s := { writeFirst := true }) rfl inv_init
  have h1 := hI.entryLag r h
  have h2 := hI.entryOld r h
  exact ⟨h1, fun h0 => by omega⟩

/-- **Invalidate, then write** (seeded change C07-3): a search between the two steps stores the
    pre-write result under the already-advanced generation; nothing removes it: no write in flight,
    store at version 1, cached entry computed from version 0. -/
theorem C07_invalidate_then_write_goes_stale :
    let s := run { writeFirst := false } [.wInval 0, .sGen 1, .sCompute 1, .sStore 1, .wWrite 0]
    s.entry = some 0 ∧ s.ver = 1 ∧ s.inflight = 0 := by decide

/-- non-vacuity: with the right order the same interleaving leaves a fresh entry or none; and a
    search entirely after the write caches the current version -/
example :
    (run { writeFirst := true } [.wWrite 0, .sGen 1, .sCompute 1, .sStore 1, .wInval 0]).entry = none ∧
    (run { writeFirst := true } [.wWrite 0, .wInval 0, .sGen 1, .sCompute 1, .sStore 1]).entry = some 1 := by decide

end KyroModel.C07.Conc
