/-
C19, first use of a tenant — concurrent first requests of one tenant at one instant (no refill).

A caller that finds no bucket in the read-locked fast path goes to the slow path under the write
lock.  `orInsert = true`: the slow path creates the bucket only if it is STILL absent
(`entry().or_insert_with`, the current code) and consumes from the one bucket of the map;
`orInsert = false`: it builds its own full bucket, consumes from it and stores it over whatever is
there (seeded change C19-3).  Steps of different callers interleave freely.

* `C19_first_use_one_bucket`: with `orInsert`, after ANY interleaving of any number of callers the
  admissions never exceed the burst (admitted + tokens left = burst once the bucket exists);
* `C19_first_use_private_buckets_exceed_burst`: without it, two racing first callers of a burst-1
  tenant are both admitted.

Tie: `./check C19` explores concurrent first requests on the real `RateLimiter` under the
controlled scheduler and a frozen virtual clock (window oracle).
-/
namespace KyroModel.C19.FirstUse

structure St where
  burst : Nat
  orInsert : Bool
  bucket : Option Nat := none     -- tokens left in the bucket stored in the map
  admitted : Nat := 0
  deriving Repr

inductive Step
  | fast (i : Nat)      -- bucket present: consume from it; absent: nothing (the caller goes on to `slow`)
  | slow (i : Nat)      -- under the write lock
  deriving DecidableEq, Repr

def consume (s : St) (tokens : Nat) : St :=
  if 0 < tokens then { s with bucket := some (tokens - 1), admitted := s.admitted + 1 }
  else { s with bucket := some tokens }

def step (s : St) : Step → St
  | .fast _ =>
    match s.bucket with
    | some t => consume s t
    | none => s
  | .slow _ =>
    if s.orInsert then
      match s.bucket with
      | some t => consume s t
      | none => consume s s.burst
    else consume s s.burst        -- a private full bucket, stored over the map entry

def run (s : St) (steps : List Step) : St := steps.foldl step s

def Inv (s : St) : Prop :=
  match s.bucket with
  | none => s.admitted = 0
  | some t => s.admitted + t = s.burst

theorem consume_inv (s : St) (t : Nat) (h : s.admitted + t = s.burst) : Inv (consume s t) := by
  unfold consume
  split
  · simp only [Inv]; omega
  · simp only [Inv]; exact h

theorem inv_step (s : St) (ho : s.orInsert = true) (h : Inv s) (x : Step) : Inv (step s x) := by
  cases x with
  | fast i =>
    simp only [step]
    cases hb : s.bucket with
    | none => simpa [Inv, hb] using h
    | some t =>
      simp only
      apply consume_inv
      simpa [Inv, hb] using h
  | slow i =>
    simp only [step, ho, if_true]
    cases hb : s.bucket with
    | none =>
      simp only
      apply consume_inv
      have : s.admitted = 0 := by simpa [Inv, hb] using h
      omega
    | some t =>
      simp only
      apply consume_inv
      simpa [Inv, hb] using h

theorem step_keeps (s : St) (x : Step) : (step s x).orInsert = s.orInsert ∧ (step s x).burst = s.burst := by
  cases x <;> simp only [step, consume] <;> repeat (first | split | exact ⟨rfl, rfl⟩)

theorem inv_run (steps : List Step) : ∀ (s : St), s.orInsert = true → Inv s →
    Inv (run s steps) ∧ (run s steps).burst = s.burst := by
  induction steps with
  | nil => intro s _ h; exact ⟨h, rfl⟩
  | cons x rest ih =>
    intro s ho h
    obtain ⟨k1, k2⟩ := step_keeps s x
    obtain ⟨r1, r2⟩ := ih (step s x) (k1.trans ho) (inv_step s ho h x)
    exact ⟨r1, r2.trans k2⟩

/-- **One bucket per tenant**: whatever the interleaving of first requests, never more admissions
    than the burst. -/
theorem C19_first_use_one_bucket (burst : Nat) (steps : List Step) :
    (run { burst := burst, orInsert := true } steps).admitted ≤ burst := by
  obtain ⟨h, hb⟩ := inv_run steps { burst := burst, orInsert := true } rfl rfl
  unfold Inv at h
  have hb' : (run { burst := burst, orInsert := true } steps).burst = burst := hb
  split at h
  · omega
  · omega

/-- **Private buckets** (seeded change C19-3): two first callers of a burst-1 tenant both miss the
    fast path, both build a full bucket: two admissions at one instant. -/
theorem C19_first_use_private_buckets_exceed_burst :
    (run { burst := 1, orInsert := false } [.fast 0, .fast 1, .slow 0, .slow 1]).admitted = 2 := by decide

example : (run { burst := 1, orInsert := true } [.fast 0, .fast 1, .slow 0, .slow 1]).admitted = 1 := by decide

end KyroModel.C19.FirstUse
