/-
C05 — Per-document operations are linearizable under concurrency.

Property statements only.  The concurrent executions themselves are explored on the REAL code by
the controlled scheduler (`./check C05`: every distinct history is checked against the
per-document register specification); what is proved here is the argument that makes those
histories linearizable, and where it stops:

* `C05_read_linearises_at_the_check`: a copy (cached or mirrored) that passes the coherence check
  against the canonical store AT SOME INSTANT is that instant's canonical vector — the check is
  the read's linearisation point (injective digest, as in C04);
* `C05_instants_order_respects_real_time`: operations that each take effect at one instant inside
  their own invocation–response interval are totally ordered by those instants in a way that
  respects real-time order — for any number of operations;
* `C05_two_observation_read_tears`: a read assembled from TWO observations (vector at one
  instant, metadata at another) can return a pair that is no state of the document — the defect
  found in `get_document_with_metadata` / `bulk_query` (fixed: the metadata is now read together
  with the token of its vector);
* `C05_paired_by_token`: the repaired pairing — a mirrored vector is combined with metadata only
  when it carries the token read together with that metadata — returns a pair that WAS the
  document's state at the metadata instant.
-/
import KyroModel.Theorems.C04

namespace KyroModel.C05
open KyroModel

section
variable {D : Type} [DecidableEq D] (digest : Vec → D)

/-- **The coherence check is the linearisation point of a read**: whatever copy is being held and
    wherever it came from, if it passes the check against the canonical store `cold` (the store
    as it is at the instant of the check), the value returned is that store's vector. -/
theorem C05_read_linearises_at_the_check (hinj : Function.Injective digest) (cold : Cold) (id : Nat)
    (v : Vec) (t : Token D) (h : canonicalState digest cold id v t = .matched) :
    (alookup id cold).map (·.vec) = some v := by
  obtain ⟨d, h1, h2⟩ := C04.C04_canonical_check_sound digest hinj cold id v t h
  simp [h1, h2]

/-- **The repaired pairing** (fix of the torn read): the metadata `md` was read from the store
    `coldAtMd` together with the token `tm` of the document's vector; a mirrored copy `(v, t)` is
    paired with it only if `t = tm` (and the copy is self-consistent).  Then `(v, md)` is exactly
    the document as it was in `coldAtMd` — one state, one write. -/
theorem C05_paired_by_token (hinj : Function.Injective digest) (coldAtMd : Cold) (id : Nat)
    (d : ColdDoc) (hd : alookup id coldAtMd = some d) (v : Vec) (t : Token D)
    (htok : t = coldToken digest d) (hself : digest v = t.dig) :
    (v, d.md) = (d.vec, d.md) := by
  have : digest v = digest d.vec := by rw [hself, htok]; rfl
  rw [hinj this]

end

/-- operation `k` was invoked at `inv k`, responded at `ret k`, and took effect at the instant
    `pt k` inside that interval -/
structure Timed (n : Nat) where
  inv : Fin n → Nat
  ret : Fin n → Nat
  pt : Fin n → Nat
  inside : ∀ k, inv k ≤ pt k ∧ pt k ≤ ret k

/-- **Ordering operations by their instants respects real time**: if `a` responded before `b` was
    invoked, `a`'s instant precedes `b`'s.  (So the sequence of instants is a linearisation order;
    with `C05_read_linearises_at_the_check` each read returns the register's value at its place in
    that order.) -/
theorem C05_instants_order_respects_real_time {n : Nat} (h : Timed n) (a b : Fin n)
    (hrt : h.ret a < h.inv b) : h.pt a < h.pt b := by
  have ha := (h.inside a).2
  have hb := (h.inside b).1
  omega

/-! ### a read made of two observations -/

/-- the document's successive states under a history of whole-document writes (vector, metadata) -/
def statesOf (init : Nat × Nat) (writes : List (Nat × Nat)) : List (Nat × Nat) := init :: writes

/-- a read that takes the vector at one position of the state sequence and the metadata at
    another (the old `get_document_with_metadata`: metadata first, vector later) -/
def twoObservationRead (states : List (Nat × Nat)) (iVec iMeta : Nat) : Option (Nat × Nat) :=
  match states[iVec]?, states[iMeta]? with
  | some a, some b => some (a.1, b.2)
  | _, _ => none

/-- **It tears**: document (3,3), overwritten with (5,5) between the two observations: the read
    returns (5,3), which is no state the document ever had. -/
theorem C05_two_observation_read_tears :
    let states := statesOf (3, 3) [(5, 5)]
    twoObservationRead states 1 0 = some (5, 3) ∧ (5, 3) ∉ states := by decide

/-- a one-observation read returns a state of the document, always -/
theorem C05_one_observation_read_is_a_state (states : List (Nat × Nat)) (i : Nat) (r : Nat × Nat)
    (h : twoObservationRead states i i = some r) : r ∈ states := by
  unfold twoObservationRead at h
  cases hs : states[i]? with
  | none => simp [hs] at h
  | some a =>
    simp only [hs, Option.some.injEq] at h
    rw [← h]
    exact List.mem_of_getElem? hs

end KyroModel.C05
