/-
C10 — Tenants are isolated end to end.

Property statements only.  Model: `Server/Tenant.lean` (the tenant layer of kyrodb_server.rs over the
abstract document map).  Tie: `./check C10` drives the REAL `kyrodb_server` binary over gRPC / HTTP
and compares every answer with this model; independently of the model it replays every history with
the other tenants' requests removed and compares what each tenant observes.

* `C10_reserved_never_shown`, `C10_reserved_not_settable`: server-owned keys are stripped from every
  answer and overwritten on every write;
* `C10_point_read_is_own`: a point read answers from the caller's own id range and only when the
  stored tenant index is the caller's; `C10_namespace_selector`: a namespace selector never matches
  a document of another namespace;
* `C10_write_frame_insert/_delete/_update/_batchDeleteIds/_batchDeleteFilter/_bulkInsert/_bulkLoad`: a write / delete /
  update / batch delete (ids or any filter) / BulkInsert stream of tenant B leaves every read of a tenant A with another
  index unchanged (found / not-found included);
* `C10_noninterference_with_filter_deletes` / `_from_start`: the same with `BatchDelete` by ANY filter in the histories, on
  reachable states (invariant `Inv` of C14: unique ids, documents stored in their tenant's id range);
* `C10_noninterference` / `_from_start`: over whole histories of the id-addressed RPCs, what a tenant observes equals what
  it observes with every other tenant's requests removed (unwinding: `Lemmas/TenantNI.lean`);
* `C10_filter_blind_to_reserved`, `C10_reserved_filter_refused_search/_batchDelete`: a client filter naming a
  server-owned key is refused; any other filter gives the same verdict on the stored and on the public metadata;
* `C10_search_sound`: every search result is a document of the caller (id range, stored index,
  namespace), public metadata only;
* `C10_search_isolated_partial`: when the engine is asked for at least as many candidates as there
  are documents, a search answers exactly as it would on a server holding only the caller's
  documents — and `C10_search_count_leak`: WITHOUT that hypothesis the full statement is false: the
  result count of tenant A changes with what tenant B stores (k-NN first over all tenants, tenant
  check afterwards).  Known finding KF-C10-shared-index-post-filter.
-/
import KyroModel.Lemmas.TenantInv
import KyroModel.Lemmas.TenantNI
import KyroModel.Lemmas.TenantFilterNI

namespace KyroModel.C10
open KyroModel KyroModel.Srv

/-! ### server-owned keys -/

theorem C10_reserved_never_shown (m : Meta) : ∀ p ∈ strip m, reserved p.1 = false := by
  intro p hp
  simp only [strip, List.mem_filter] at hp
  simpa using hp.2

/-- whatever the client sent under the reserved names, a write stores the SERVER's tenant index -/
theorem C10_reserved_not_settable (t : Tn) (m : Meta) (ns : String) :
    mget (stamp t m ns) kTenantIdx = some t.idxStr := by
  unfold stamp
  simp only
  split
  · exact mget_set_self _ _ _
  · rw [mget_set_ne _ _ _ _ kIdx_ne_ns]
    exact mget_set_self _ _ _

/-- and the namespace of the REQUEST (none when the request names none) -/
theorem C10_namespace_not_settable (t : Tn) (m : Meta) (ns : String) (h : ns ≠ "") :
    mget (stamp t m ns) kNamespace = some ns := by
  unfold stamp
  have : (ns == "") = false := by simpa using h
  simp only [this]
  exact mget_set_self _ _ _

/-! ### point reads -/

/-- a point read answers only from the caller's own id range, only when the stored tenant index is
    the caller's, and with public metadata only -/
theorem C10_point_read_is_own (s : S) (t : Tn) (lid : Nat) (ns : String) (v : List Nat) (m : Meta)
    (h : readDoc s t lid ns = some (v, m)) :
    ∃ g d, gid t lid = some g ∧ alookup g s.docs = some d ∧ mget d.md kTenantIdx = some t.idxStr ∧
      v = d.vec ∧ m = strip d.md := by
  unfold readDoc at h
  split at h
  · cases h
  · rename_i g hg
    split at h
    · cases h
    · rename_i d hd
      split at h
      · rename_i hv
        simp only [Option.some.injEq, Prod.mk.injEq] at h
        refine ⟨g, d, hg, hd, ?_, h.1.symm, h.2.symm⟩
        simp only [visible, Bool.and_eq_true, beq_iff_eq] at hv
        exact hv.1
      · cases h

/-- a namespace selector never matches a document of another namespace -/
theorem C10_namespace_selector (s : S) (t : Tn) (lid : Nat) (ns : String) (hns : ns ≠ "")
    (r : List Nat × Meta) (h : readDoc s t lid ns = some r) :
    ∃ g d, gid t lid = some g ∧ alookup g s.docs = some d ∧ nsOf d.md = ns := by
  unfold readDoc at h
  split at h
  · cases h
  · rename_i g hg
    split at h
    · cases h
    · rename_i d hd
      split at h
      · rename_i hv
        refine ⟨g, d, hg, hd, ?_⟩
        simp only [visible, Bool.and_eq_true, Bool.or_eq_true, beq_iff_eq] at hv
        rcases hv.2 with h1 | h1
        · exact (hns h1).elim
        · exact h1
      · cases h

/-! ### frame: another tenant's writes -/

theorem gid_ne (a b : Tn) (hab : a.idx ≠ b.idx) (la lb ga gb : Nat) (ha : gid a la = some ga)
    (hb : gid b lb = some gb) : ga ≠ gb := by
  intro e
  have h1 := gid_div a la ga ha
  have h2 := gid_div b lb gb hb
  rw [e] at h1
  exact hab (h1.symm.trans h2)

/-- reads of A depend only on the document stored under A's own global id -/
theorem readDoc_congr (s s' : S) (a : Tn) (lid : Nat) (ns : String)
    (h : ∀ g, gid a lid = some g → alookup g s'.docs = alookup g s.docs) :
    readDoc s' a lid ns = readDoc s a lid ns := by
  unfold readDoc
  split
  · rfl
  · rename_i g hg
    rw [h g hg]

theorem alookup_aset_other {α : Type} (k j : Nat) (v : α) (l : List (Nat × α)) (h : j ≠ k) :
    alookup j (aset k v l) = alookup j l := alookup_aset_ne k j v l h

theorem engineInsert_docs (s : S) (g : Nat) (v : List Nat) (m : Meta) (j : Nat) (h : j ≠ g) :
    alookup j (engineInsert s g v m).1.docs = alookup j s.docs := by
  unfold engineInsert
  split
  · exact alookup_aset_other g j _ _ h
  · rfl

theorem setCount_docs (s : S) (t : Tn) (n : Nat) : (setCount s t n).docs = s.docs := rfl
theorem setUsage_docs (s : S) (t : Tn) (u : Usage) : (setUsage s t u).docs = s.docs := rfl
theorem noteInserts_docs (s : S) (t : Tn) (n : Nat) : (noteInserts s t n).docs = s.docs := by
  unfold noteInserts; split <;> rfl
theorem noteDeletes_docs (s : S) (t : Tn) (n : Nat) : (noteDeletes s t n).docs = s.docs := by
  unfold noteDeletes; split <;> rfl
theorem decCount_docs (s : S) (t : Tn) (n : Nat) : (decCount s t n).docs = s.docs := by
  unfold decCount; split <;> rfl

theorem insertCore_docs (s : S) (t : Tn) (g : Nat) (v : List Nat) (m : Meta) (ns : String) (j : Nat)
    (h : j ≠ g) : alookup j (Srv.insertCore s t g v m ns).1.docs = alookup j s.docs := by
  unfold Srv.insertCore
  split
  · have := engineInsert_docs s g v (stamp t m ns) j h
    split <;> rename_i he <;> rw [he] at this <;> exact this
  · split
    · rfl
    · have := engineInsert_docs (setCount s t (count s t + 1)) g v (stamp t m ns) j h
      split <;> rename_i he <;> rw [he] at this
      · rw [noteInserts_docs]; exact this
      · rw [decCount_docs]; exact this

/-- **Insert of B never changes a read of A** (overwrite attempts on colliding local ids included) -/
theorem C10_write_frame_insert (s : S) (a b : Tn) (hab : a.idx ≠ b.idx) (lb : Nat) (v : List Nat)
    (m : Meta) (nsb : String) (la : Nat) (ns : String) :
    readDoc (Srv.insert s b lb v m nsb).1 a la ns = readDoc s a la ns := by
  apply readDoc_congr
  intro g hg
  unfold Srv.insert
  split
  · rfl
  · split
    · rfl
    · rename_i gb hgb
      exact insertCore_docs s b gb v m nsb g (gid_ne a b hab la lb g gb hg hgb)

/-- **Delete of B never changes a read of A** -/
theorem C10_write_frame_delete (s : S) (a b : Tn) (hab : a.idx ≠ b.idx) (lb : Nat) (nsb : String)
    (la : Nat) (ns : String) :
    readDoc (Srv.delete s b lb nsb).1 a la ns = readDoc s a la ns := by
  apply readDoc_congr
  intro g hg
  unfold Srv.delete
  split
  · rfl
  · split
    · rfl
    · rename_i gb hgb
      split
      · rfl
      · split
        · rfl
        · rw [noteDeletes_docs, decCount_docs]
          exact alookup_aerase_ne gb g _ (gid_ne a b hab la lb g gb hg hgb)

/-- **UpdateMetadata of B never changes a read of A** -/
theorem C10_write_frame_update (s : S) (a b : Tn) (hab : a.idx ≠ b.idx) (lb : Nat) (m : Meta)
    (mg : Bool) (nsb : String) (la : Nat) (ns : String) :
    readDoc (Srv.updateMeta s b lb m mg nsb).1 a la ns = readDoc s a la ns := by
  apply readDoc_congr
  intro g hg
  unfold Srv.updateMeta
  split
  · rfl
  · split
    · rfl
    · rename_i gb hgb
      split
      · rfl
      · split
        · rfl
        · exact alookup_aset_other gb g _ _ (gid_ne a b hab la lb g gb hg hgb)

/-! ### frame: batch operations of another tenant -/

theorem deleteMany_docs (s : S) (gs : List Nat) (j : Nat) (h : j ∉ gs) :
    alookup j (deleteMany s gs).1.docs = alookup j s.docs := by
  induction gs generalizing s with
  | nil => rfl
  | cons g rest ih =>
    simp only [List.mem_cons, not_or] at h
    unfold deleteMany
    split
    · simp only
      rw [ih _ h.2]
      exact alookup_aerase_ne g j _ h.1
    · exact ih s h.2

/-- **BatchDelete by ids of B never changes a read of A** -/
theorem C10_write_frame_batchDeleteIds (s : S) (a b : Tn) (hab : a.idx ≠ b.idx) (lids : List Nat)
    (nsb : String) (la : Nat) (ns : String) :
    readDoc (Srv.batchDeleteIds s b lids nsb).1 a la ns = readDoc s a la ns := by
  apply readDoc_congr
  intro g hg
  unfold Srv.batchDeleteIds
  split
  · rfl
  · simp only
    rw [noteDeletes_docs, decCount_docs]
    apply deleteMany_docs
    intro hm
    simp only [List.mem_filter, List.mem_filterMap] at hm
    obtain ⟨⟨l, _, hl⟩, _⟩ := hm
    exact gid_ne a b hab la l g g hg hl rfl

/-- **BatchDelete by filter of B never changes a read of A** (unique global ids; the two tenants'
    index texts differ): whatever the filter — NOT / OR forms, reserved keys — it is evaluated under
    the conjunction with B's own index, and a document A can read carries A's index. -/
theorem C10_write_frame_batchDeleteFilter (parse : String → Option Nat) (s : S) (a b : Tn)
    (hab : a.idxStr ≠ b.idxStr) (hk : Keys s.docs) (f : Filter) (nsb : String) (la : Nat) (ns : String) :
    readDoc (Srv.batchDeleteFilter parse s b f nsb).1 a la ns = readDoc s a la ns := by
  unfold Srv.batchDeleteFilter
  split
  · rfl
  simp only
  unfold readDoc
  split
  · rfl
  · rename_i g hg
    rw [noteDeletes_docs, decCount_docs]
    by_cases hm : g ∈ (s.docs.filter fun p => visible b nsb p.2.md && matchesF parse f p.2.md).map (·.1)
    · -- the document under g is B's: A could not read it before, and cannot after
      obtain ⟨p, hp, hpg⟩ := List.mem_map.mp hm
      simp only [List.mem_filter, Bool.and_eq_true] at hp
      have hl : alookup g s.docs = some p.2 := by
        have : ∀ (l : List (Nat × Doc)), Keys l → p ∈ l → alookup p.1 l = some p.2 := by
          intro l
          induction l with
          | nil => intro _ h; cases h
          | cons q rest ih =>
            obtain ⟨k, v⟩ := q
            intro hk hm
            unfold Keys at hk
            rw [List.map_cons, List.nodup_cons] at hk
            rcases List.mem_cons.mp hm with e | hm
            · rw [e]; simp
            · have : k ≠ p.1 := fun e => hk.1 (e ▸ List.mem_map.mpr ⟨p, hm, rfl⟩)
              simp only [alookup_cons, this, if_false]
              exact ih hk.2 hm
        rw [← hpg]; exact this _ hk hp.1
      have hvb : mget p.2.md kTenantIdx = some b.idxStr := by
        have := hp.2.1
        simp only [visible, Bool.and_eq_true, beq_iff_eq] at this
        exact this.1
      have hva : visible a ns p.2.md = false := by
        simp only [visible, hvb, Bool.and_eq_false_iff, beq_eq_false_iff_ne, ne_eq, Option.some.injEq]
        exact Or.inl (fun e => hab e.symm)
      rw [hl]
      simp only [hva]
      -- after the delete: whatever is (not) stored under g, A does not see B's document
      cases hafter : alookup g (deleteMany s _).1.docs with
      | none => rfl
      | some d =>
        -- nothing can be stored under g any more
        exfalso
        have : ∀ (gs : List Nat) (s : S), g ∈ gs → alookup g (deleteMany s gs).1.docs = none := by
          intro gs
          induction gs with
          | nil => intro _ h; cases h
          | cons x rest ih =>
            intro s hx
            unfold deleteMany
            by_cases e : x = g
            · subst e
              split
              · simp only
                by_cases hr : x ∈ rest
                · exact ih _ hr
                · rw [deleteMany_docs _ _ _ hr]; exact alookup_aerase_self x _
              · rename_i hn
                by_cases hr : x ∈ rest
                · exact ih _ hr
                · rw [deleteMany_docs _ _ _ hr]
                  simpa using hn
            · have hr : g ∈ rest := by
                rcases List.mem_cons.mp hx with h | h
                · exact (e h.symm).elim
                · exact h
              split
              · exact ih _ hr
              · exact ih _ hr
        rw [this _ s hm] at hafter
        cases hafter
    · rw [deleteMany_docs _ _ _ hm]

theorem loadAll_docs (s : S) (B : List (Nat × List Nat × Meta)) (j : Nat) (h : j ∉ B.map (·.1)) :
    alookup j (loadAll s B).1.docs = alookup j s.docs := by
  induction B generalizing s with
  | nil => rfl
  | cons b rest ih =>
    obtain ⟨g, v, m⟩ := b
    simp only [List.map_cons, List.mem_cons, not_or] at h
    unfold loadAll
    have he := engineInsert_docs s g v m j h.1
    split
    · rename_i s' hs'
      rw [hs'] at he
      simp only
      rw [ih _ h.2]; exact he
    · rename_i s' hs'
      rw [hs'] at he
      simp only
      rw [ih _ h.2]; exact he

/-- **BulkLoadHnsw of B never changes a read of A** -/
theorem C10_write_frame_bulkLoad (s : S) (a b : Tn) (hab : a.idx ≠ b.idx) (items : List Item)
    (la : Nat) (ns : String) : readDoc (Srv.bulkLoad s b items).1 a la ns = readDoc s a la ns := by
  apply readDoc_congr
  intro g hg
  unfold Srv.bulkLoad
  simp only
  split
  · rfl
  split
  · rfl
  rw [noteInserts_docs, decCount_docs, loadAll_docs]
  · split <;> rfl
  · intro hm
    obtain ⟨x, hx, hxg⟩ := List.mem_map.mp hm
    obtain ⟨it, hit, rfl⟩ := List.mem_map.mp hx
    simp only [List.mem_filter, Bool.and_eq_true] at hit
    obtain ⟨gb, hgb⟩ := Option.isSome_iff_exists.mp hit.2.2
    simp only [hgb, Option.getD_some] at hxg
    exact gid_ne a b hab la it.lid g gb hg hgb hxg.symm

/-- **BulkInsert of B never changes a read of A** -/
theorem C10_write_frame_bulkInsert (s : S) (a b : Tn) (hab : a.idx ≠ b.idx) (items : List Item)
    (la : Nat) (ns : String) : readDoc (Srv.bulkInsert s b items).1 a la ns = readDoc s a la ns := by
  induction items generalizing s with
  | nil => rfl
  | cons it rest ih =>
    unfold Srv.bulkInsert
    simp only
    have h1 := C10_write_frame_insert s a b hab it.lid it.vec it.md it.ns la ns
    have h2 := ih (Srv.insert s b it.lid it.vec it.md it.ns).1
    split <;> simp only <;> rw [h2, h1]

/-! ### client filters -/

/-- **Client filters cannot see the server-owned keys**: a filter that reaches the evaluation names
    none of them (one that does is refused), and such a filter gives the same verdict on the stored
    metadata as on the public metadata the client can read back. -/
theorem C10_filter_blind_to_reserved (parse : String → Option Nat) (f : Filter) (md : Meta)
    (h : mentionsReserved f = false) : matchesF parse f (strip md) = matchesF parse f md :=
  matchesF_strip parse f md h

theorem C10_reserved_filter_refused_search (parse : String → Option Nat) (s : S) (t : Tn) (rank : List Nat)
    (k : Nat) (ns : String) (f : Filter) (h : mentionsReserved f = true) :
    ∃ e, search parse s t rank k ns (some f) = .error e := by
  unfold search
  split
  · exact ⟨_, rfl⟩
  · simp [h]

theorem C10_reserved_filter_refused_batchDelete (parse : String → Option Nat) (s : S) (t : Tn) (f : Filter)
    (ns : String) (h : mentionsReserved f = true) :
    Srv.batchDeleteFilter parse s t f ns = (s, .error .invalidArgument) := by
  simp [Srv.batchDeleteFilter, h]

/-! ### non-interference over whole histories (id-addressed RPCs) -/

/-- who issued which request -/
abbrev Hist := List (Tn × Req)

/-- the answers tenant `a` receives while the history runs -/
def observed_by (a : Tn) (s : S) : Hist → List Resp
  | [] => []
  | (t, r) :: rest =>
    if t.idx = a.idx then (handle s t r).2 :: observed_by a (handle s t r).1 rest
    else observed_by a (handle s t r).1 rest

/-- the same history with every other tenant's requests removed -/
def purge (a : Tn) (h : Hist) : Hist := h.filter fun p => p.1.idx == a.idx

/-- **Non-interference** (Insert, Delete, UpdateMetadata, Query, BulkQuery, BatchDelete by ids — any
    mix, any length, colliding local ids, spoofed keys, any namespaces; BulkInsert and BulkLoadHnsw streams too): what tenant `a` observes in a
    history shared with any other tenants is exactly what it observes when their requests are removed
    — found / not-found answers, vectors, metadata, error codes, quota refusals and deleted counts
    included.  By unwinding: `handle_view` (output consistency + step consistency on the A-view),
    `handle_respects` (local respect).  BatchDelete by filter: `C10_noninterference_with_filter_deletes`.
    Search, BulkSearch, FlushHotTier and /usage are not in `Req`: see `C10_search_count_leak` and the replay oracle. -/
theorem C10_noninterference (a : Tn) (h : Hist) (hkey : ∀ p ∈ h, p.1.idx = a.idx → p.1 = a) :
    ∀ (s1 s2 : S), ViewEq a s1 s2 → observed_by a s1 h = observed_by a s2 (purge a h) := by
  induction h with
  | nil => intro _ _ _; rfl
  | cons p rest ih =>
    obtain ⟨t, r⟩ := p
    intro s1 s2 hv
    have hrest : ∀ q ∈ rest, q.1.idx = a.idx → q.1 = a := fun q hq => hkey q (List.mem_cons_of_mem _ hq)
    by_cases ht : t.idx = a.idx
    · have hta : t = a := hkey (t, r) (List.mem_cons_self ..) ht
      subst hta
      obtain ⟨e1, e2⟩ := handle_view hv r
      simp only [observed_by, purge, List.filter_cons, beq_self_eq_true, if_true]
      rw [e1]
      congr 1
      exact ih hrest _ _ e2
    · have hne : a.idx ≠ t.idx := fun e => ht e.symm
      have hb : (t.idx == a.idx) = false := by simpa using ht
      simp only [observed_by, ht, if_false, purge, List.filter_cons, hb, Bool.false_eq_true]
      exact ih hrest _ _ ((handle_respects hne s1 r).symm.trans hv)

/-- from the empty server -/
theorem C10_noninterference_from_start (a : Tn) (h : Hist) (dim : Nat)
    (hkey : ∀ p ∈ h, p.1.idx = a.idx → p.1 = a) :
    observed_by a { dim := dim } h = observed_by a { dim := dim } (purge a h) :=
  C10_noninterference a h hkey _ _ (ViewEq.refl a _)

/-! ### non-interference with `BatchDelete` by filter (reachable states) -/

abbrev HistF := List (Tn × ReqF)

def observed_byF (parse : String → Option Nat) (a : Tn) (s : S) : HistF → List Resp
  | [] => []
  | (t, r) :: rest =>
    if t.idx = a.idx then (handleF parse s t r).2 :: observed_byF parse a (handleF parse s t r).1 rest
    else observed_byF parse a (handleF parse s t r).1 rest

def purgeF (a : Tn) (h : HistF) : HistF := h.filter fun p => p.1.idx == a.idx

/-- **Non-interference including `BatchDelete` by ANY filter** (AND / OR / NOT / ranges / IN, any
    nesting; filters naming a server-owned key are refused): a filter delete walks the whole shared
    document list, so this holds on states that satisfy the invariant `Inv` (unique ids, every
    document in the id range of the tenant whose index it carries) — which every reachable state
    does (`C14_sequential`) and which both runs preserve (`handleF_inv`).  What tenant `a` observes
    — deleted counts of its filter deletes included — is what it observes with every other configured
    tenant's requests removed, and no filter of another tenant removes or changes a document of `a`. -/
theorem C10_noninterference_with_filter_deletes (parse : String → Option Nat) {ts : List Tn} (hts : Tenants ts)
    {a : Tn} (ha : a ∈ ts) (h : HistF) (hmem : ∀ p ∈ h, p.1 ∈ ts) :
    ∀ (s1 s2 : S), Inv ts s1 → Inv ts s2 → ViewEq a s1 s2 →
      observed_byF parse a s1 h = observed_byF parse a s2 (purgeF a h) := by
  induction h with
  | nil => intro _ _ _ _ _; rfl
  | cons p rest ih =>
    obtain ⟨t, r⟩ := p
    intro s1 s2 h1 h2 hv
    have htm : t ∈ ts := hmem (t, r) (List.mem_cons_self ..)
    have hrest : ∀ q ∈ rest, q.1 ∈ ts := fun q hq => hmem q (List.mem_cons_of_mem _ hq)
    by_cases ht : t.idx = a.idx
    · have hta : t = a := hts t htm a ha (Or.inl ht)
      subst hta
      obtain ⟨e1, e2⟩ := handleF_view parse hts htm h1 h2 hv r
      simp only [observed_byF, purgeF, List.filter_cons, beq_self_eq_true, if_true]
      rw [e1]
      congr 1
      exact ih hrest _ _ (handleF_inv parse hts h1 htm r) (handleF_inv parse hts h2 htm r) e2
    · have hne : a.idx ≠ t.idx := fun e => ht e.symm
      have hb : (t.idx == a.idx) = false := by simpa using ht
      simp only [observed_byF, ht, if_false, purgeF, List.filter_cons, hb, Bool.false_eq_true]
      exact ih hrest _ _ (handleF_inv parse hts h1 htm r) h2
        ((handleF_respects parse hts htm hne h1 r).symm.trans hv)

/-- from the empty server, for configured tenants -/
theorem C10_noninterference_with_filter_deletes_from_start (parse : String → Option Nat) {ts : List Tn}
    (hts : Tenants ts) {a : Tn} (ha : a ∈ ts) (h : HistF) (hmem : ∀ p ∈ h, p.1 ∈ ts) (dim : Nat) :
    observed_byF parse a { dim := dim } h = observed_byF parse a { dim := dim } (purgeF a h) :=
  C10_noninterference_with_filter_deletes parse hts ha h hmem _ _ (C14.C14_init dim) (C14.C14_init dim)
    (ViewEq.refl a _)

/-! ### search -/

/-- **Every search result is the caller's**: own id range, stored index the caller's, the requested
    namespace, public metadata only — never another tenant's id, vector or metadata. -/
theorem C10_search_sound (parse : String → Option Nat) (s : S) (t : Tn) (rank : List Nat) (k : Nat)
    (ns : String) (f : Option Filter) (total : Nat) (res : List (Nat × Meta))
    (h : search parse s t rank k ns f = .ok (total, res)) (r : Nat × Meta) (hr : r ∈ res) :
    ∃ g d, g ∈ rank ∧ ownsGid t g = true ∧ alookup g s.docs = some d ∧ visible t ns d.md = true ∧
      r = (localOf g, strip d.md) := by
  unfold search at h
  split at h
  · cases h
  · rename_i plan _
    split at h
    · cases h
    simp only [Except.ok.injEq, Prod.mk.injEq] at h
    rw [← h.2] at hr
    have hm := List.mem_of_mem_take hr
    obtain ⟨g, hg, hp⟩ := List.mem_filterMap.mp hm
    refine ⟨g, ?_⟩
    unfold passes at hp
    split at hp
    · cases hp
    · rename_i hown
      split at hp
      · cases hp
      · rename_i d hd
        split at hp
        · cases hp
        · rename_i hv
          split at hp
          · cases hp
          · split at hp
            · cases hp
            · simp only [Option.some.injEq] at hp
              exact ⟨d, List.mem_of_mem_take hg, by simpa using hown, hd, by simpa using hv, hp.symm⟩

theorem filterMap_filter_of_none {α β : Type} (l : List α) (p : α → Bool) (f : α → Option β)
    (h : ∀ x, p x = false → f x = none) : (l.filter p).filterMap f = l.filterMap f := by
  induction l with
  | nil => rfl
  | cons x rest ih =>
    by_cases hp : p x = true
    · simp [List.filter_cons, hp, List.filterMap_cons, ih]
    · have hp' : p x = false := by simpa using hp
      simp [List.filter_cons, hp', List.filterMap_cons, h x hp', ih]

/-- **Search isolation, partial**: when the candidate window covers every document of every tenant
    (`rank.length ≤ searchK`), a search answers exactly as on a server that holds only the caller's
    documents.  (Missing for the full statement: the window is cut BEFORE the tenant check.) -/
theorem C10_search_isolated_partial (parse : String → Option Nat) (s : S) (t : Tn) (rank : List Nat)
    (k : Nat) (ns : String) (f : Option Filter)
    (hwin : ∀ plan, validateSearch s.dim true k 0 (ns != "") f = .ok plan → rank.length ≤ plan.searchK) :
    search parse s t rank k ns f = searchAlone parse s t rank k ns f := by
  unfold searchAlone search
  split
  · rfl
  · rename_i plan hp
    split
    · rfl
    have h1 : rank.take plan.searchK = rank := List.take_of_length_le (hwin plan hp)
    have h2 : (rank.filter (ownsGid t)).take plan.searchK = rank.filter (ownsGid t) :=
      List.take_of_length_le (Nat.le_trans (List.length_filter_le _ _) (hwin plan hp))
    rw [h1, h2, filterMap_filter_of_none rank (ownsGid t) (passes parse s t ns f)]
    intro g hg
    simp [passes, hg]

def tA : Tn := ⟨"7461", 0, "30", 10⟩
def tB : Tn := ⟨"7462", 1, "31", 10⟩
def docA : Doc := ⟨[0], [(kTenantId, "7461"), (kTenantIdx, "30")]⟩
def docB : Doc := ⟨[0], [(kTenantId, "7462"), (kTenantIdx, "31")]⟩

/-- what a client counts: (total_found, ids returned) -/
def observed (r : Except Err (Nat × List (Nat × Meta))) : Option (Nat × List Nat) :=
  r.toOption.map fun x => (x.1, x.2.map (·.1))

/-- **The full isolation statement is false for search** (of the model, and — replayed by
    `./check C10` — of the server): tenant A holds document 1; a k = 1 search returns it while A is
    alone, and returns NOTHING once tenant B stores a nearer vector: A's result count depends on
    B's data.  The k nearest are taken over all tenants, the tenant check runs afterwards. -/
theorem C10_search_count_leak :
    observed (search (fun _ => none) { dim := 1, docs := [(1, docA)] } tA [1] 1 "" none) = some (1, [1]) ∧
    observed (search (fun _ => none) { dim := 1, docs := [(1, docA), (limit32 + 1, docB)] } tA
      [limit32 + 1, 1] 1 "" none) = some (0, []) := by decide

/-- non-vacuity of the frame theorems: B really writes under the colliding local id, A still reads
    its own document -/
example : (Srv.insert { dim := 1 } tB 1 [5] [] "").2.toOption = some () ∧
    (readDoc (Srv.insert { dim := 1, docs := [(1, docA)] } tB 1 [5] [] "").1 tA 1 "").map (·.1) = some [0] := by
  decide

def sAB : S := { dim := 1, docs := [(1, docA), (limit32 + 1, docB)], counts := [(0, 1), (1, 1)] }

/-- non-vacuity: tenant B's NOT-filter (which matches every document that lacks the key) deletes
    B's own document and leaves A's; A then still reads its document -/
example :
    (Srv.batchDeleteFilter (fun _ => none) sAB tB (.not (some (.exact "colour" "red"))) "").2.toOption = some 1 ∧
    ((readDoc (handleF (fun _ => none) sAB tB (.bdFilter (.not (some (.exact "colour" "red"))) "")).1 tA 1 "").map (·.1))
      = some [0] := by
  decide

end KyroModel.C10
