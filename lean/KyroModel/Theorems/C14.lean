/-
C14 — Tenant vector quotas are exact.

Property statements only.  Model: `Server/Tenant.lean`; invariant and preservation lemmas:
`Lemmas/TenantInv.lean`.  Tie: `./check C14` drives the real `kyrodb_server` binary: after write
histories near the limit it measures the count through admission (fresh inserts until
RESOURCE_EXHAUSTED), the live documents through a BulkQuery census, and `/usage`.

`Inv ts s`: unique global ids, every stored document lies in the id range of the tenant whose index it
carries, for every configured tenant the count used for admission equals its live documents, and
the count never exceeds the limit.

* `C14_*_exact`: every write path preserves `Inv` — insert / overwrite (engine refusal = failed
  write included), delete (absent ids, foreign namespaces), metadata update (cannot move a document
  to another tenant), batch delete by ids (duplicates, absent ids) and by filter, BulkInsert streams,
  the quota probe, and the start-up recount;
* `C14_sequential`: after ANY sequence of these operations by any configured tenants, from the empty
  server;
* `C14_never_over_limit`, `C14_not_refused_below_limit`: the consequences the property names.
* `C14_bulkLoad_exact`: BulkLoadHnsw's reserve / release arithmetic (duplicates inside the batch,
  rejected items, overwrites of existing ids);
* concurrent RPCs: the handlers' model here is sequential; `Theorems/C14Conc.lean` carries the step-level
  protocol around one id (`C14_unlocked_delete_drifts`: the pre-fix schedule; `C14_locked_schedules_exact`:
  with the quota lock held across each whole operation every schedule keeps count = live); the real
  handlers' schedules are explored by `./check C14`.
-/
import KyroModel.Lemmas.TenantBulk
import KyroModel.Theorems.C14Conc

namespace KyroModel.C14
open KyroModel KyroModel.Srv

variable {ts : List Tn}

theorem C14_init (dim : Nat) : Inv ts { dim := dim } where
  keys := List.nodup_nil
  owned := fun _ h => nomatch h
  exact := fun _ _ => rfl
  bounded := fun _ _ => Nat.zero_le _

theorem insertCore_exact (hts : Tenants ts) {s : S} (hi : Inv ts s) {t : Tn} (ht : t ∈ ts) {g : Nat}
    (hg : g / limit32 = t.idx) (v : List Nat) (m : Meta) (ns : String) :
    Inv ts (Srv.insertCore s t g v m ns).1 := by
  have hstamp : matchT t ⟨v, stamp t m ns⟩ = true := by simp [matchT, stamp_idx]
  by_cases hv : v.length = s.dim
  · by_cases hs : (alookup g s.docs).isSome = true
    · -- overwrite: the count does not move
      have : (Srv.insertCore s t g v m ns).1 = { s with docs := aset g ⟨v, stamp t m ns⟩ s.docs } := by
        simp [Srv.insertCore, engineInsert, hv, hs]
      rw [this]
      exact inv_store hts hi ht hg _ hstamp _ rfl (by simp [hs, count]) (fun _ _ _ => rfl) (hi.bounded t ht)
    · by_cases hq : t.maxv ≤ count s t
      · have : (Srv.insertCore s t g v m ns).1 = s := by simp [Srv.insertCore, hs, hq]
        rw [this]; exact hi
      · have : (Srv.insertCore s t g v m ns).1 =
            noteInserts { setCount s t (count s t + 1) with docs := aset g ⟨v, stamp t m ns⟩ s.docs } t 1 := by
          simp [Srv.insertCore, engineInsert, hv, hs, hq, setCount]
        rw [this]
        refine inv_store hts hi ht hg _ hstamp _ (by rw [docs_noteInserts]) ?_ ?_ ?_
        · rw [count_noteInserts]
          simp [hs, count, setCount, aset]
        · intro t' ht' hne
          rw [count_noteInserts]
          exact count_setCount_ne s t t' _ (idx_ne hts ht' ht hne)
        · rw [count_noteInserts]
          have : count ({ setCount s t (count s t + 1) with docs := aset g ⟨v, stamp t m ns⟩ s.docs }) t = count s t + 1 := by
            simp [count, setCount, aset]
          rw [this]; omega
  · -- the engine refuses the write: nothing is stored, a reservation is given back
    by_cases hs : (alookup g s.docs).isSome = true
    · have : (Srv.insertCore s t g v m ns).1 = s := by simp [Srv.insertCore, engineInsert, hv, hs]
      rw [this]; exact hi
    · by_cases hq : t.maxv ≤ count s t
      · have : (Srv.insertCore s t g v m ns).1 = s := by simp [Srv.insertCore, hs, hq]
        rw [this]; exact hi
      · have : (Srv.insertCore s t g v m ns).1 = decCount (setCount s t (count s t + 1)) t 1 := by
          simp [Srv.insertCore, engineInsert, hv, hs, hq, setCount]
        rw [this]
        apply inv_same hi (by rw [docs_decCount]; rfl)
        intro t'
        by_cases he : t'.idx = t.idx
        · have e1 : ∀ (x : S), count x t' = count x t := by intro x; unfold count; rw [he]
          rw [e1, count_decCount_self, count_setCount_self, e1]; omega
        · rw [count_decCount_ne _ _ _ _ he, count_setCount_ne _ _ _ _ he]

/-- **Insert / overwrite / refused insert** -/
theorem C14_insert_exact (hts : Tenants ts) {s : S} (hi : Inv ts s) {t : Tn} (ht : t ∈ ts) (lid : Nat)
    (v : List Nat) (m : Meta) (ns : String) : Inv ts (Srv.insert s t lid v m ns).1 := by
  unfold Srv.insert
  split
  · exact hi
  · split
    · exact hi
    · rename_i g hg
      exact insertCore_exact hts hi ht (gid_div t lid g hg) v m ns

theorem visible_matches {t : Tn} {ns : String} {d : Doc} (h : visible t ns d.md = true) : matchT t d = true := by
  simp only [visible, Bool.and_eq_true] at h
  exact h.1

/-- **Delete** (absent ids, foreign namespaces: nothing moves) -/
theorem C14_delete_exact (hts : Tenants ts) {s : S} (hi : Inv ts s) {t : Tn} (ht : t ∈ ts) (lid : Nat)
    (ns : String) : Inv ts (Srv.delete s t lid ns).1 := by
  unfold Srv.delete
  split
  · exact hi
  · split
    · exact hi
    · rename_i g hg
      split
      · exact hi
      · rename_i d hd
        split
        · exact hi
        · rename_i hv
          have hm : matchT t d = true := visible_matches (by simpa using hv)
          refine inv_remove hts hi ht hd hm _ (by rw [docs_noteDeletes, docs_decCount]) ?_ ?_
          · rw [count_noteDeletes, count_decCount_self]; rfl
          · intro t' ht' hne
            rw [count_noteDeletes]
            exact count_decCount_ne _ _ _ _ (idx_ne hts ht' ht hne)

/-- **Metadata update**: the stored tenant index survives merge and replace, so the document stays
    counted for the same tenant -/
theorem C14_update_exact (hts : Tenants ts) {s : S} (hi : Inv ts s) {t : Tn} (ht : t ∈ ts) (lid : Nat)
    (m : Meta) (mg : Bool) (ns : String) : Inv ts (Srv.updateMeta s t lid m mg ns).1 := by
  unfold Srv.updateMeta
  split
  · exact hi
  · split
    · exact hi
    · rename_i g hg
      split
      · exact hi
      · rename_i d hd
        split
        · exact hi
        · rename_i hv
          have hm : matchT t d = true := visible_matches (by simpa using hv)
          have hx : mget d.md kTenantIdx = some t.idxStr := by simpa [matchT] using hm
          refine inv_store hts hi ht (gid_div t lid g hg) _ ?_ _ rfl ?_ (fun _ _ _ => rfl) (hi.bounded t ht)
          · simp only [matchT, beq_iff_eq]
            exact update_keeps_idx d.md m mg t.idxStr hx
          · simp [hd, count]

/-- `engine.batch_delete` over ids whose documents (if present) all carry `t`'s index -/
theorem deleteMany_exact (hts : Tenants ts) {t : Tn} (ht : t ∈ ts) (gs : List Nat) (s : S)
    (hdocs : ∀ g ∈ gs, ∀ d, alookup g s.docs = some d → matchT t d = true) :
    ∀ (_ : Keys s.docs ∧ (∀ p ∈ s.docs, ∃ t ∈ ts, p.1 / limit32 = t.idx ∧ matchT t p.2 = true)),
      let r := deleteMany s gs
      Keys r.1.docs ∧ (∀ p ∈ r.1.docs, p ∈ s.docs) ∧
      cnt t s.docs = r.2 + cnt t r.1.docs ∧ (∀ t' ∈ ts, t' ≠ t → cnt t' r.1.docs = cnt t' s.docs) ∧
      r.1.counts = s.counts := by
  induction gs generalizing s with
  | nil => intro hi; exact ⟨hi.1, fun _ h => h, by simp [deleteMany], fun _ _ _ => rfl, rfl⟩
  | cons g rest ih =>
    intro hi
    unfold deleteMany
    split
    · rename_i hs
      obtain ⟨d, hd⟩ := Option.isSome_iff_exists.mp hs
      have hm := hdocs g (List.mem_cons_self ..) d hd
      have hrec := ih { s with docs := aerase g s.docs }
        (fun g' hg' d' hd' => by
          by_cases e : g' = g
          · subst e; rw [alookup_aerase_self] at hd'; cases hd'
          · rw [alookup_aerase_ne g g' _ e] at hd'
            exact hdocs g' (List.mem_cons_of_mem _ hg') d' hd')
        ⟨keys_aerase g _ hi.1, fun p hp => hi.2 p (mem_aerase g _ p hp)⟩
      simp only at hrec ⊢
      obtain ⟨h1, h2, h3, h4, h5⟩ := hrec
      refine ⟨h1, fun p hp => mem_aerase g _ p (h2 p hp), ?_, ?_, h5⟩
      · rw [cnt_aerase t g s.docs d hi.1 hd, h3]
        simp [hm, b2n]; omega
      · intro t' ht' hne
        rw [h4 t' ht' hne, cnt_aerase t' g s.docs d hi.1 hd]
        simp [matchT_other hts ht ht' d hm (fun e => hne e.symm), b2n]
    · exact ih s (fun g' hg' => hdocs g' (List.mem_cons_of_mem _ hg')) hi

theorem inv_after_deleteMany (hts : Tenants ts) {s : S} (hi : Inv ts s) {t : Tn} (ht : t ∈ ts) (gs : List Nat)
    (hdocs : ∀ g ∈ gs, ∀ d, alookup g s.docs = some d → matchT t d = true) :
    Inv ts (noteDeletes (decCount (deleteMany s gs).1 t (deleteMany s gs).2) t (deleteMany s gs).2) := by
  obtain ⟨h1, h2, h3, h4, h5⟩ := deleteMany_exact hts ht gs s hdocs ⟨hi.keys, hi.owned⟩
  have hcount : ∀ t', count (deleteMany s gs).1 t' = count s t' := by
    intro t'; unfold count; rw [h5]
  refine ⟨?_, ?_, ?_, ?_⟩
  · rw [docs_noteDeletes, docs_decCount]; exact h1
  · intro p hp
    rw [docs_noteDeletes, docs_decCount] at hp
    exact hi.owned p (h2 p hp)
  · intro t' ht'
    rw [count_noteDeletes, docs_noteDeletes, docs_decCount]
    by_cases he : t' = t
    · subst he
      rw [count_decCount_self, hcount, hi.exact t' ht', h3]; omega
    · rw [count_decCount_ne _ _ _ _ (idx_ne hts ht' ht he), hcount, hi.exact t' ht', h4 t' ht' he]
  · intro t' ht'
    rw [count_noteDeletes]
    by_cases he : t' = t
    · subst he
      rw [count_decCount_self, hcount]
      exact Nat.le_trans (Nat.sub_le _ _) (hi.bounded t' ht')
    · rw [count_decCount_ne _ _ _ _ (idx_ne hts ht' ht he), hcount]; exact hi.bounded t' ht'

/-- **Batch delete by ids** (duplicates, absent ids, other namespaces) -/
theorem C14_batchDeleteIds_exact (hts : Tenants ts) {s : S} (hi : Inv ts s) {t : Tn} (ht : t ∈ ts)
    (lids : List Nat) (ns : String) : Inv ts (Srv.batchDeleteIds s t lids ns).1 := by
  unfold Srv.batchDeleteIds
  split
  · exact hi
  · simp only
    apply inv_after_deleteMany hts hi ht
    intro g hg d hd
    simp only [List.mem_filter] at hg
    have := hg.2
    unfold visibleAt at this
    rw [hd] at this
    exact visible_matches this

/-- **Batch delete by filter** -/
theorem C14_batchDeleteFilter_exact (parse : String → Option Nat) (hts : Tenants ts) {s : S} (hi : Inv ts s)
    {t : Tn} (ht : t ∈ ts) (f : Filter) (ns : String) : Inv ts (Srv.batchDeleteFilter parse s t f ns).1 := by
  unfold Srv.batchDeleteFilter
  split
  · exact hi
  simp only
  apply inv_after_deleteMany hts hi ht
  intro g hg d hd
  obtain ⟨p, hp, hpg⟩ := List.mem_map.mp hg
  simp only [List.mem_filter, Bool.and_eq_true] at hp
  -- the binding found under `g` is the one that passed the filter (unique ids)
  have : alookup g s.docs = some p.2 := by
    have hk := hi.keys
    have : ∀ (l : List (Nat × Doc)), Keys l → p ∈ l → alookup p.1 l = some p.2 := by
      intro l
      induction l with
      | nil => intro _ h; cases h
      | cons q rest ih =>
        obtain ⟨k, v⟩ := q
        intro hk hm
        unfold Keys at hk
        rw [List.map_cons, List.nodup_cons] at hk
        rcases List.mem_cons.mp hm with e | hm
        · rw [e]; simp
        · have : k ≠ p.1 := fun e => hk.1 (e ▸ List.mem_map.mpr ⟨p, hm, rfl⟩)
          simp only [alookup_cons, this, if_false]
          exact ih hk.2 hm
    rw [← hpg]; exact this _ hk hp.1
  rw [this] at hd
  cases hd
  exact visible_matches hp.2.1

/-- **BulkInsert stream**: item by item -/
theorem C14_bulkInsert_exact (hts : Tenants ts) {s : S} (hi : Inv ts s) {t : Tn} (ht : t ∈ ts)
    (items : List Item) : Inv ts (Srv.bulkInsert s t items).1 := by
  induction items generalizing s with
  | nil => exact hi
  | cons it rest ih =>
    unfold Srv.bulkInsert
    simp only
    have h1 := C14_insert_exact hts hi ht it.lid it.vec it.md it.ns
    have h2 := ih h1
    split <;> exact h2

/-- **BulkLoadHnsw**: validation drops items, the new ids (duplicates counted once) are reserved in
    one step or the whole call is refused, engine-refused items store nothing, and the unused part of
    the reservation is released: count = live again (`Lemmas/TenantBulk.lean`). -/
theorem C14_bulkLoad_exact (hts : Tenants ts) {s : S} (hi : Inv ts s) {t : Tn} (ht : t ∈ ts)
    (items : List Item) : Inv ts (Srv.bulkLoad s t items).1 :=
  bulkLoad_inv hts hi ht items

theorem C14_probe_exact {s : S} (hi : Inv ts s) (t : Tn) : Inv ts (probe s t) := by
  unfold probe
  simp only
  split
  · exact hi
  · exact inv_same hi rfl (fun _ => rfl)

/-- **Start-up recount**: the count of every configured tenant is recomputed from the stored index -/
theorem C14_restart_exact (hts : Tenants ts) {s : S} (hi : Inv ts s) : Inv ts (restart s ts) := by
  have hcount : ∀ t ∈ ts, count (restart s ts) t = cnt t s.docs := by
    intro t ht
    unfold count restart
    simp only
    have : ∀ (l : List Tn), (∀ a ∈ l, a ∈ ts) → t ∈ l →
        alookup t.idx (l.map fun t => (t.idx, live s t)) = some (live s t) := by
      intro l
      induction l with
      | nil => intro _ h; cases h
      | cons a rest ih =>
        intro hsub hm
        by_cases e : a.idx = t.idx
        · have : a = t := hts a (hsub a (List.mem_cons_self ..)) t ht (Or.inl e)
          subst this
          simp
        · simp only [List.map_cons, alookup_cons, e, if_false]
          rcases List.mem_cons.mp hm with h | h
          · exact (e (by rw [h])).elim
          · exact ih (fun a ha => hsub a (List.mem_cons_of_mem _ ha)) h
    rw [this ts (fun _ h => h) ht]
    rfl
  refine ⟨hi.keys, hi.owned, hcount, ?_⟩
  intro t ht
  rw [hcount t ht, ← hi.exact t ht]
  exact hi.bounded t ht

/-- every modelled operation of a configured tenant preserves the invariant -/
theorem C14_step_exact (parse : String → Option Nat) (hts : Tenants ts) {s : S} (hi : Inv ts s) (op : Op)
    (hop : ∀ t, op.tenant = some t → t ∈ ts) : Inv ts (step parse ts s op) := by
  cases op with
  | insert t lid v m ns => exact C14_insert_exact hts hi (hop t rfl) lid v m ns
  | delete t lid ns => exact C14_delete_exact hts hi (hop t rfl) lid ns
  | update t lid m mg ns => exact C14_update_exact hts hi (hop t rfl) lid m mg ns
  | bdIds t lids ns => exact C14_batchDeleteIds_exact hts hi (hop t rfl) lids ns
  | bdFilter t f ns => exact C14_batchDeleteFilter_exact parse hts hi (hop t rfl) f ns
  | bulkInsert t items => exact C14_bulkInsert_exact hts hi (hop t rfl) items
  | bulkLoad t items => exact C14_bulkLoad_exact hts hi (hop t rfl) items
  | probe t => exact C14_probe_exact hi t
  | restart => exact C14_restart_exact hts hi

/-- **C14, sequential histories**: after ANY sequence of inserts, overwrites, refused writes, deletes,
    metadata updates, batch deletes (ids / filter), BulkInsert streams, BulkLoadHnsw batches and
    restarts by any configured tenants, the count used for admission equals the live documents of
    every tenant.  (Concurrent RPCs are outside this sequential model: `./check C14` explores them on
    the real handlers.) -/
theorem C14_sequential (parse : String → Option Nat) (hts : Tenants ts) (dim : Nat) (ops : List Op)
    (hops : ∀ op ∈ ops, ∀ t, op.tenant = some t → t ∈ ts) :
    Inv ts (ops.foldl (step parse ts) { dim := dim }) := by
  suffices h : ∀ (s : S), Inv ts s → Inv ts (ops.foldl (step parse ts) s) from h _ (C14_init dim)
  induction ops with
  | nil => exact fun _ h => h
  | cons op rest ih =>
    intro s hi
    exact ih (fun o ho => hops o (List.mem_cons_of_mem _ ho)) _
      (C14_step_exact parse hts hi op (hops op (List.mem_cons_self ..)))

/-- a tenant never holds more live documents than its limit -/
theorem C14_never_over_limit {s : S} (hi : Inv ts s) {t : Tn} (ht : t ∈ ts) : live s t ≤ t.maxv := by
  rw [live_eq_cnt, ← hi.exact t ht]; exact hi.bounded t ht

/-- and is never refused while below it: a valid insert of a NEW id by a tenant whose live
    documents are below its limit is not answered RESOURCE_EXHAUSTED -/
theorem C14_not_refused_below_limit {s : S} (hi : Inv ts s) {t : Tn} (ht : t ∈ ts) (lid : Nat) (v : List Nat)
    (m : Meta) (ns : String) (hbelow : live s t < t.maxv) :
    (Srv.insert s t lid v m ns).2 ≠ .error .resourceExhausted := by
  have hc : ¬ t.maxv ≤ count s t := by rw [hi.exact t ht, ← live_eq_cnt]; omega
  unfold Srv.insert
  split
  · simp
  · split
    · simp
    · rename_i g _
      by_cases hv : v.length = s.dim <;> by_cases hs : (alookup g s.docs).isSome = true <;>
        simp [Srv.insertCore, engineInsert, hv, hs, hc, setCount]

/-- non-vacuity: two tenants with colliding local ids; B fills its limit of 1, is refused a second
    id, and a delete gives the slot back -/
def tA : Tn := ⟨"7461", 0, "30", 2⟩
def tB : Tn := ⟨"7462", 1, "31", 1⟩
example : Tenants [tA, tB] := by
  intro a ha b hb h
  simp only [List.mem_cons, List.mem_nil_iff, or_false] at ha hb
  rcases ha with rfl | rfl <;> rcases hb with rfl | rfl <;> first | rfl | (revert h; decide)

example :
    let s1 := (Srv.insert { dim := 1 } tB 1 [5] [] "").1
    let s2 := (Srv.insert s1 tA 1 [6] [] "").1
    count s2 tB = 1 ∧ live s2 tB = 1 ∧ count s2 tA = 1 ∧
    (Srv.insert s2 tB 2 [7] [] "").2.toOption = none ∧
    count (Srv.delete s2 tB 1 "").1 tB = 0 ∧ live (Srv.delete s2 tB 1 "").1 tB = 0 := by decide

end KyroModel.C14
