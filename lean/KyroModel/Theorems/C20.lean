/-
C20 — Caches and the recent-write tier stay within their configured bounds.

Property statements only; helper lemmas live in `KyroModel/Lemmas`.
Model: `KyroModel/Tiered/Model.lean` (tied to engine/src/{vector_cache,lru_index,hot_tier,
tiered_engine,cache_strategy}.rs by the `tiered` correspondence run of `./check C20`) and
`KyroModel/Tiered/QueryCache.lean` (tied to query_hash_cache.rs by the `qcache` run).
-/
import KyroModel.Lemmas.TieredClosure
import KyroModel.Lemmas.HotBound
import KyroModel.Lemmas.QCacheBound

namespace KyroModel.C20
open KyroModel

section
variable {D : Type} [DecidableEq D] (digest : Vec → D)

theorem l1Closed_inv : L1Closed (fun l : L1a D => l.Inv) :=
  ⟨fun l id h => L1a.inv_get l id h, fun l id e h => L1a.inv_insert l id e h,
   fun l id h => L1a.inv_invalidate l id h⟩

theorem l1Closed_caps (c : Nat × Nat × StratKind) : L1Closed (fun l : L1a D => l.caps = c) :=
  ⟨fun l id h => by simp [h], fun l id e h => by simp [h], fun l id h => by simp [h]⟩

/-- **Document cache bound, every reachable state.**  For every strategy kind, capacity and
    *every* operation sequence — including adversarial plants into the cache and the hot tier,
    every admission decision, every acceptance verdict — the document cache holds at most
    `cap` entries per `VectorCache` (`cap = 0` behaves as `cap = 1`).  The A/B splitter owns
    two caches of `cap` entries each (see `C20_ab_splitter_holds_twice_cap`). -/
theorem C20_doc_cache_bound (kind : StratKind) (cap hard soft dim : Nat) (ops : List (TOp D)) :
    (applyOps digest (TState.init D kind cap hard soft dim) ops).l1a.size
      ≤ (if kind == .ab then 2 * max cap 1 else max cap 1) := by
  have hinv : (applyOps digest (TState.init D kind cap hard soft dim) ops).l1a.Inv :=
    closed_applyOps digest l1Closed_inv _ ops
      ⟨⟨by simp [TState.init, AKeysNodup, akeys], by simp [TState.init]⟩,
       ⟨by simp [TState.init, AKeysNodup, akeys], by simp [TState.init]⟩⟩
  have hcaps : (applyOps digest (TState.init D kind cap hard soft dim) ops).l1a.caps = (cap, cap, kind) :=
    closed_applyOps digest (l1Closed_caps (cap, cap, kind)) _ ops rfl
  have := L1a.size_le_of_inv _ hinv
  simp only [L1a.caps, Prod.mk.injEq] at hcaps
  obtain ⟨ha, hb, hk⟩ := hcaps
  rw [ha, hb, hk] at this
  split at this <;> split <;> simp_all <;> omega

/-- Single-cache strategies (LRU, learned, learned+semantic): at most `cap` entries, `cap ≥ 1`. -/
theorem C20_doc_cache_bound_single (kind : StratKind) (hk : kind ≠ .ab) (cap hard soft dim : Nat)
    (hcap : 1 ≤ cap) (ops : List (TOp D)) :
    (applyOps digest (TState.init D kind cap hard soft dim) ops).l1a.size ≤ cap := by
  have := C20_doc_cache_bound digest kind cap hard soft dim ops
  have hk' : (kind == StratKind.ab) = false := by cases kind <;> simp_all
  rw [hk'] at this
  simp at this
  omega

/-- **Recent-write tier bound.**  For every sequence of engine operations (reads, writes,
    drains, audits, cache plants — everything except a direct plant into the hot tier, which
    bypasses the engine), with `hard ≥ 1`, the hot tier holds at most `hard` documents after
    every operation; in particular whenever an `insert` returns, successfully or not. -/
theorem C20_hot_tier_bound (kind : StratKind) (cap hard soft dim : Nat) (hhard : 1 ≤ hard)
    (ops : List (TOp D)) (hops : ∀ op ∈ ops, op.isEngineOp = true) :
    (applyOps digest (TState.init D kind cap hard soft dim) ops).hot.length ≤ hard := by
  suffices h : ∀ (s : TState D), s.cfg.hard = hard → s.hot.length ≤ s.cfg.hard →
      (applyOps digest s ops).hot.length ≤ hard by
    exact h _ rfl (by simp [TState.init])
  intro s hcfg hb
  unfold applyOps
  induction ops generalizing s with
  | nil => simpa [hcfg] using hb
  | cons op rest ih =>
    rw [List.foldl_cons]
    have hop := hops op (List.mem_cons_self ..)
    have h1 := hotBound_applyOp digest s op hop (by omega) hb
    apply ih
    · intro o ho; exact hops o (List.mem_cons_of_mem _ ho)
    · rw [h1.2]; exact hcfg
    · exact h1.1

/-- **No double counting.**  In every reachable state each `VectorCache` holds at most one entry
    per document id, so the bounds above count distinct cached documents (an implementation that
    kept within `cap` entries by letting one id occupy several slots, or that exceeded `cap`
    distinct documents by some other accounting, is excluded by this together with the bound). -/
theorem C20_doc_cache_ids_unique (kind : StratKind) (cap hard soft dim : Nat) (ops : List (TOp D)) :
    AKeysNodup (applyOps digest (TState.init D kind cap hard soft dim) ops).l1a.a.entries ∧
    AKeysNodup (applyOps digest (TState.init D kind cap hard soft dim) ops).l1a.b.entries := by
  have hinv : (applyOps digest (TState.init D kind cap hard soft dim) ops).l1a.Inv :=
    closed_applyOps digest l1Closed_inv _ ops
      ⟨⟨by simp [TState.init, AKeysNodup, akeys], by simp [TState.init]⟩,
       ⟨by simp [TState.init, AKeysNodup, akeys], by simp [TState.init]⟩⟩
  exact ⟨hinv.1.1, hinv.2.1⟩

end

/-! ### Witnesses: the hypotheses are satisfiable and the bounds are tight -/

/-- capacity 1, three inserts + reads: the bound `1` is reached, not exceeded -/
example :
    (applyOps (D := Vec) id (TState.init Vec .lru 1 2 100 2)
      [.insert 1 [1, 2] [] true, .query 1 true, .insert 2 [3, 4] [] true, .query 2 true,
       .query 1 true]).l1a.size = 1 := by decide

/-- hard limit 2: the third insert drains first, the tier ends with one entry -/
example :
    (applyOps (D := Vec) id (TState.init Vec .lru 1 2 100 2)
      [.insert 1 [1, 2] [] true, .insert 2 [3, 4] [] true, .insert 3 [5, 6] [] true]).hot.length = 1 := by
  decide

/-- **A/B splitter.**  The full statement "the document cache never holds more than its
    configured capacity" is *false* for the A/B strategy as the server builds it (both arms are
    created with the whole `cache.capacity`): with capacity 1, two reads of ids of different
    parity leave two cached documents.  Replayed on the implementation on every run
    (known finding KF-C20-ab-double-capacity). -/
theorem C20_ab_splitter_holds_twice_cap :
    (applyOps (D := Vec) id (TState.init Vec .ab 1 8 100 2)
      [.insert 1 [1, 2] [] true, .insert 2 [3, 4] [] true, .query 1 true, .query 2 true]).l1a.size = 2 := by
  decide

/-! ### Query-result cache -/

/-- **Query-result cache bound.**  For every capacity and every sequence of cache operations
    (conditional stores with any generation / k / scope / results, lookups with any similarity
    oracle, per-document and per-insert invalidations, clears) the cache holds at most
    `max cap 1` entries and its keys are unique. -/
theorem C20_query_cache_bound (cap : Nat) (ops : List QOp) :
    ((QCache.init cap).applyOps ops).entries.length ≤ max cap 1 := by
  have h := QCache.inv_applyOps (QCache.init cap) ops (QCache.inv_init cap)
  have h2 := h.1.2
  rw [h.2] at h2
  exact h2

/-- one entry per (query hash, k, scope) key in every reachable state: the bound counts distinct
    cached queries -/
theorem C20_query_cache_keys_unique (cap : Nat) (ops : List QOp) :
    (QCache.keys ((QCache.init cap).applyOps ops).entries).Nodup :=
  (QCache.inv_applyOps (QCache.init cap) ops (QCache.inv_init cap)).1.1

end KyroModel.C20
