/-
C17 — Unchecked memory access in the SIMD kernels and packed graph storage stays in bounds.

Property statements only.  Both imported model files are REGENERATED from /repo's current
`simd.rs` / `ann_backend.rs` on every run:

* `Simd.Generated` holds one theorem per raw-pointer vector load of every `unsafe fn` kernel,
  each for EVERY slice length (so also every length that is not a multiple of the SIMD width);
  they are proved where they are generated (`by omega`), and this file only certifies that the
  translator understood every access it saw.
* `Packed.Generated` holds the index arithmetic of `PackedLevel0` and of the visited bitset as
  definitions; the bounds theorems over them are below.

Not modelled (partial): that every dense id handed to an `_unchecked` accessor is below the
node count is a graph-closure invariant of HNSW construction; the translator only lints that
each neighbour id read from a record is compared against `node_count` before use
(`C17_neighbour_ids_guarded`), and the fenced-allocator run exercises the rest.
-/
import KyroModel.Simd.Generated
import KyroModel.Simd.PackedGenerated

namespace KyroModel.C17
open KyroModel.Packed

/-- the SIMD translator resolved every raw access it found (fails closed otherwise) -/
theorem C17_simd_translation_complete : KyroModel.Simd.translatorProblems = [] := by decide

/-- the packed-layout translator resolved every expression it needed -/
theorem C17_packed_translation_complete : KyroModel.Packed.translatorProblems = [] := by decide

/-- a record is wide enough for its count word, its neighbour slots and its vector -/
theorem C17_record_fits (cap dimension : Nat) :
    vectorOffsetWords cap + dimension ≤ recordWords cap dimension := by
  unfold recordWords divCeil alignWords
  omega

theorem recordWords_pos (cap dimension : Nat) : 0 < recordWords cap dimension := by
  have := C17_record_fits cap dimension
  unfold vectorOffsetWords at this
  omega

/-- `data.len()` after `n` calls of `push_node` on an empty store -/
def dataLenAfter (rw : Nat) : Nat → Nat
  | 0 => 0
  | n + 1 => dataLenAfter rw n + pushGrowth rw

theorem dataLenAfter_eq (rw n : Nat) : dataLenAfter rw n = n * rw := by
  induction n with
  | zero => simp [dataLenAfter]
  | succ n ih => simp [dataLenAfter, ih, pushGrowth, Nat.add_mul]

/-- `len()` reports exactly the number of pushed nodes -/
theorem C17_len_exact (cap dimension n : Nat) :
    nodeLen (dataLenAfter (recordWords cap dimension) n) (recordWords cap dimension) = n := by
  rw [dataLenAfter_eq]
  unfold nodeLen
  exact Nat.mul_div_cancel n (recordWords_pos cap dimension)

private theorem record_end (rw n dense : Nat) (h : dense < n) : dense * rw + rw ≤ n * rw := by
  have : (dense + 1) * rw ≤ n * rw := Nat.mul_le_mul_right rw h
  rw [Nat.add_mul, Nat.one_mul] at this
  exact this

/-- the slice built by `vector_at_unchecked` lies inside `data`, for every dimension, every
neighbour capacity and every number of stored nodes -/
theorem C17_vector_in_bounds (cap dimension n dense : Nat) (h : dense < n) :
    vectorStart (recordWords cap dimension) (vectorOffsetWords cap) dense + vectorLen dimension
      ≤ dataLenAfter (recordWords cap dimension) n := by
  rw [dataLenAfter_eq]
  have h1 := C17_record_fits cap dimension
  have h2 := record_end (recordWords cap dimension) n dense h
  unfold vectorStart vectorLen
  omega

/-- the word read by `neighbor_unchecked` lies inside the record's neighbour slots: inside
`data`, and before the vector payload -/
theorem C17_neighbor_in_bounds (cap dimension n dense idx : Nat) (h : dense < n) (hi : idx < cap) :
    neighborIdx (recordWords cap dimension) dense idx < dataLenAfter (recordWords cap dimension) n ∧
    neighborIdx (recordWords cap dimension) dense idx
      < vectorStart (recordWords cap dimension) (vectorOffsetWords cap) dense := by
  rw [dataLenAfter_eq]
  have h1 := C17_record_fits cap dimension
  have h2 := record_end (recordWords cap dimension) n dense h
  unfold neighborIdx vectorStart
  unfold vectorOffsetWords at *
  omega

/-- the word read by `count_unchecked` lies inside `data` -/
theorem C17_count_in_bounds (cap dimension n dense : Nat) (h : dense < n) :
    countIdx (recordWords cap dimension) dense < dataLenAfter (recordWords cap dimension) n := by
  rw [dataLenAfter_eq]
  have h1 := recordWords_pos cap dimension
  have h2 := record_end (recordWords cap dimension) n dense h
  unfold countIdx
  omega

/-- the bitset word touched by `mark_if_unvisited_unchecked` exists once `prepare` ran -/
theorem C17_visited_in_bounds (nodeCount dense : Nat) (h : dense < nodeCount) :
    visitedWord dense < requiredWords nodeCount := by
  unfold visitedWord requiredWords
  rw [Nat.shiftRight_eq_div_pow]
  omega

/-- lint result: every neighbour id read out of a record is compared with `node_count` before an
unchecked access uses it -/
theorem C17_neighbour_ids_guarded : unguardedNeighbourSites = [] := by decide

/-- lint result: the index of every `neighbor_unchecked(d, E)` call is bounded by the record's own
neighbour count (`for E in 0..neighbor_count` / `if E < neighbor_count`, the count read with
`count_unchecked` from the same record or handed down by such a caller) -/
theorem C17_neighbour_indices_guarded : unguardedIndexSites = [] := by decide

/-- … and an index below the record's count (which `set_neighbors` clamps to `cap`) reads a slot of
that record, never the vector payload, the padding or the next record -/
theorem C17_guarded_index_in_bounds (cap dimension n dense idx count : Nat) (h : dense < n)
    (hcount : count ≤ cap) (hi : idx < count) :
    neighborIdx (recordWords cap dimension) dense idx < dataLenAfter (recordWords cap dimension) n :=
  (C17_neighbor_in_bounds cap dimension n dense idx h (Nat.lt_of_lt_of_le hi hcount)).1

/-- why the look-ahead needs its guard: with the neighbour list full (count = cap), dimension 1 and a
record without padding (cap + 2 words, e.g. M = 7: cap = 14), the slot two past the last neighbour
of the LAST record is the first word outside `data` -/
theorem C17_unguarded_lookahead_leaves_data :
    recordWords 14 1 = 16 ∧ neighborIdx (recordWords 14 1) 2 (13 + 2) = dataLenAfter (recordWords 14 1) 3 := by
  decide

/-- lint result: every raw-pointer `.add(` in ann_backend.rs is one of the two with a bounds theorem
(`vector_at_unchecked`: `C17_vector_in_bounds`; `record_ptr`: `C17_record_ptr_in_bounds`).  Pointer
arithmetic past the allocation is undefined even when the pointer is only handed to a prefetch. -/
theorem C17_pointer_arithmetic_bounded : unboundedPointerAddSites = [] := by decide

/-- `record_ptr` of a stored node points inside `data` -/
theorem C17_record_ptr_in_bounds (cap dimension n dense : Nat) (h : dense < n) :
    recordPtrStart (recordWords cap dimension) dense < dataLenAfter (recordWords cap dimension) n := by
  rw [dataLenAfter_eq]
  have h1 := recordWords_pos cap dimension
  have h2 := record_end (recordWords cap dimension) n dense h
  unfold recordPtrStart
  omega

/-- why a fixed look-ahead of cache lines from `record_ptr` needs wrapping arithmetic: a one-line
record (dimension 1, M = 7: 16 words = 64 bytes) at the end of `data` has nothing behind it, so
record start + 2 cache lines (32 words) lies beyond one-past-the-end -/
theorem C17_prefetch_lines_leave_allocation :
    recordPtrStart (recordWords 14 1) 2 + 32 > dataLenAfter (recordWords 14 1) 3 := by decide

/-- non-vacuity: a real configuration (M0 = 32, dimension 13, three nodes) -/
example : vectorStart (recordWords 32 13) (vectorOffsetWords 32) 2 + vectorLen 13
    ≤ dataLenAfter (recordWords 32 13) 3 := C17_vector_in_bounds 32 13 3 2 (by omega)
example : recordWords 32 13 = 48 := by decide

end KyroModel.C17
