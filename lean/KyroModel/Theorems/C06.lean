import KyroModel.Tiered.Knn
namespace KyroModel.C06
end KyroModel.C06
