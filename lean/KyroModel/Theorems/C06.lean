/-
C06 — Search results are sound and reflect acknowledged recent writes.

Property statements only.  Model: `Tiered/Knn.lean`.  What each tier returns for the query — the
exhaustive scan of the recent-write tier (top 2k) and the ANN tier's answer — is universally
quantified: the theorems hold whatever the heuristic graph search returns.  Tie: `./check C06`
asks the real tiers for exactly those lists, the real engine for its answer, and compares.

* `C06_at_most_k`, `C06_distinct`, `C06_sorted`: at most k distinct documents in non-decreasing
  distance order;
* `C06_every_result_is_a_tier_answer`: every returned (document, distance) pair is the recent-write
  tier's candidate for that document, or — only when that tier has none for it — the ANN tier's;
* `C06_results_exist`: every returned document exists now (recent-write candidates are checked
  against the canonical token; the ANN tier answers with live documents only — hypothesis `hcold`,
  the tombstone filter of `HnswBackend::knn_search`, exercised by the run);
* `C06_stale_mirror_never_served`: a candidate whose mirror does not match the canonical token
  (overwritten or deleted since) is never served from the recent-write tier;
* `C06_recent_write_present`: a document of the recent-write tier whose mirror is canonical is in
  the result unless the result already holds k documents none of which is farther than it —
  over the tier's WHOLE content, however many stale mirrors rank in front of it (the widening scan
  `hot_knn_canonical`; `C06_cut_before_filter_loses_recent_write` is the pre-fix counterexample).
-/
import KyroModel.Lemmas.Knn

namespace KyroModel.C06
open KyroModel KyroModel.Knn

theorem C06_at_most_k (hot cold : List Cand) (k : Nat) : (mergeKnn hot cold k).length ≤ k := by
  simp [mergeKnn, List.length_take]
  omega

theorem C06_distinct (hot cold : List Cand) (k : Nat) :
    ((mergeKnn hot cold k).map (·.id)).Nodup := by
  have hp := (perm_sortCands (dedup hot cold)).map (·.id)
  have hn : ((sortCands (dedup hot cold)).map (·.id)).Nodup := hp.nodup_iff.mpr (dedup_nodup hot cold)
  simp only [mergeKnn, List.map_take]
  exact hn.sublist (List.take_sublist _ _)

theorem C06_sorted (hot cold : List Cand) (k : Nat) :
    (mergeKnn hot cold k).Pairwise (fun a b => a.key ≤ b.key) := by
  have hs : Sorted (sortCands (dedup hot cold)) := sorted_sortCands _
  have : ((sortCands (dedup hot cold)).take k).Pairwise (fun a b => le a b = true) :=
    hs.sublist (List.take_sublist _ _)
  exact this.imp (fun h => le_key h)

theorem mem_merge (hot cold : List Cand) (k : Nat) (x : Cand) (hx : x ∈ mergeKnn hot cold k) :
    x ∈ dedup hot cold :=
  (perm_sortCands _).mem_iff.mp (List.mem_of_mem_take hx)

/-- hot first: a returned pair is the recent-write tier's, or the ANN tier's for a document the
    recent-write tier did not answer for -/
theorem C06_every_result_is_a_tier_answer (hot cold : List Cand) (k : Nat) (x : Cand)
    (hx : x ∈ mergeKnn hot cold k) : x ∈ hot ∨ (x ∈ cold ∧ x.id ∉ hot.map (·.id)) := by
  have hd := mem_merge hot cold k x hx
  rw [dedup_eq] at hd
  rcases coldFold_sub cold (hotFold hot) x hd with h | ⟨hc, hn⟩
  · exact Or.inl (hotFold_sub hot x h)
  · refine Or.inr ⟨hc, ?_⟩
    intro hm
    obtain ⟨c, hc', hid⟩ := List.mem_map.mp hm
    -- some entry with this id survives the hot fold, so `hasId` would have been true
    have : hasId (hotFold hot) x.id = true := by
      have key : ∀ (l acc : List Cand), (x.id ∈ l.map (·.id) ∨ x.id ∈ acc.map (·.id)) →
          x.id ∈ (l.foldl (fun acc c => c :: acc.filter (·.id != c.id)) acc).map (·.id) := by
        intro l
        induction l with
        | nil =>
          intro acc h
          rcases h with h | h
          · cases h
          · exact h
        | cons y ys ih =>
          intro acc h
          simp only [List.foldl_cons]
          apply ih
          by_cases hy : y.id = x.id
          · exact Or.inr (by simp [hy])
          · rcases h with h | h
            · simp only [List.map_cons, List.mem_cons] at h
              rcases h with h | h
              · exact (hy h.symm).elim
              · exact Or.inl h
            · right
              obtain ⟨z, hz, hzid⟩ := List.mem_map.mp h
              refine List.mem_map.mpr ⟨z, List.mem_cons_of_mem _ (List.mem_filter.mpr ⟨hz, ?_⟩), hzid⟩
              simp only [bne_iff_ne, ne_eq]
              rw [hzid]
              exact fun e => hy e.symm
      exact (hasId_iff _ _).mpr (key hot [] (Or.inl hm))
    rw [this] at hn
    cases hn

/-! ### on the engine state -/

theorem filterHot_cold {D : Type} [DecidableEq D] (digest : Vec → D) (s : TState D) (hot : List Cand) :
    (filterHot digest s hot).1.cold = s.cold := by
  induction hot generalizing s with
  | nil => rfl
  | cons c rest ih =>
    simp only [filterHot]
    split
    · exact ih s
    · split
      · exact ih s
      · rw [ih]; rfl
      · rw [ih]; rfl
      · exact ih s

/-- every candidate the coherence filter keeps was offered by the recent-write tier, exists in
    the canonical store, and its mirror carries the canonical token -/
theorem filterHot_kept {D : Type} [DecidableEq D] (digest : Vec → D) (s : TState D)
    (hot : List Cand) (c : Cand) (hc : c ∈ (filterHot digest s hot).2) :
    c ∈ hot ∧ (alookup c.id s.cold).isSome := by
  induction hot generalizing s with
  | nil => simp [filterHot] at hc
  | cons x rest ih =>
    simp only [filterHot] at hc
    split at hc
    · exact ⟨List.mem_cons_of_mem _ (ih s hc).1, (ih s hc).2⟩
    · rename_i h hh
      split at hc
      · rename_i hm
        rcases List.mem_cons.mp hc with rfl | hc'
        · refine ⟨List.mem_cons_self .., ?_⟩
          unfold canonicalState at hm
          cases hl : alookup c.id s.cold with
          | none => simp [hl] at hm
          | some d => simp
        · exact ⟨List.mem_cons_of_mem _ (ih s hc').1, (ih s hc').2⟩
      · have := ih (discardHot s x.id) hc
        exact ⟨List.mem_cons_of_mem _ this.1, by simpa [discardHot] using this.2⟩
      · have := ih (discardHot s x.id) hc
        exact ⟨List.mem_cons_of_mem _ this.1, by simpa [discardHot] using this.2⟩
      · exact ⟨List.mem_cons_of_mem _ (ih s hc).1, (ih s hc).2⟩

/-- one pass of the filter: a stale candidate at the head is not kept -/
theorem filterHot_drops_stale {D : Type} [DecidableEq D] (digest : Vec → D) (s : TState D)
    (c : Cand) (rest : List Cand) (h : HotDoc D)
    (hh : alookup c.id s.hot = some h)
    (hstale : canonicalState digest s.cold c.id h.vec h.tok ≠ .matched)
    (hnodup : c.id ∉ rest.map (·.id)) :
    c.id ∉ ((filterHot digest s (c :: rest)).2).map (·.id) := by
  intro hm
  obtain ⟨x, hx, hid⟩ := List.mem_map.mp hm
  simp only [filterHot, hh] at hx
  cases hcs : canonicalState digest s.cold c.id h.vec h.tok with
  | matched => exact hstale hcs
  | tokenMismatch =>
    simp only [hcs] at hx
    exact hnodup (List.mem_map.mpr ⟨x, (filterHot_kept digest _ rest x hx).1, hid⟩)
  | localCorruption =>
    simp only [hcs] at hx
    exact hnodup (List.mem_map.mpr ⟨x, (filterHot_kept digest _ rest x hx).1, hid⟩)
  | missing =>
    simp only [hcs] at hx
    exact hnodup (List.mem_map.mpr ⟨x, (filterHot_kept digest _ rest x hx).1, hid⟩)

/-- merge: a candidate handed to the merge (distinct ids) is in the result, or the result already
    holds k documents none of which is farther than it -/
theorem merge_keeps_candidate (hot cold : List Cand) (k : Nat) (hnd : NodupIds hot) (h : Cand)
    (hh : h ∈ hot) :
    h ∈ mergeKnn hot cold k ∨
      ((mergeKnn hot cold k).length = k ∧ ∀ r ∈ mergeKnn hot cold k, r.key ≤ h.key) := by
  have hd : h ∈ dedup hot cold := by
    rw [dedup_eq]
    exact coldFold_mono cold _ h (hotFold_keeps hot hnd h hh)
  have hs : h ∈ sortCands (dedup hot cold) := (perm_sortCands _).mem_iff.mpr hd
  by_cases hin : h ∈ (sortCands (dedup hot cold)).take k
  · exact Or.inl hin
  · obtain ⟨hl, hall⟩ := take_keeps_closest _ (sorted_sortCands _) k h hs hin
    exact Or.inr ⟨hl, fun r hr => le_key (hall r hr)⟩

/-! ### the widening scan of the recent-write tier -/

/-- whatever the widening returns passed the canonical check -/
theorem widen_sub (fuel : Nat) (all : List (Cand × V)) (fetch limit : Nat) (x : Cand)
    (hx : x ∈ (widenF fuel all fetch limit).2) : x ∈ canon all := by
  induction fuel generalizing all fetch with
  | zero => simp [widenF] at hx
  | succ fuel ih =>
    rw [widenF] at hx
    split at hx
    · have := List.mem_of_mem_take hx
      rw [canon_split all fetch]
      exact List.mem_append_left _ this
    · have := ih _ _ hx
      rwa [canon_append, canon_keepLive, ← canon_split] at this

theorem mem_canon {all : List (Cand × V)} {x : Cand} : x ∈ canon all ↔ (x, V.matched) ∈ all := by
  simp only [canon, List.mem_map, List.mem_filter]
  constructor
  · rintro ⟨⟨c, v⟩, ⟨hm, hv⟩, rfl⟩
    have : v = V.matched := by simpa using hv
    subst this
    exact hm
  · intro h
    exact ⟨(x, V.matched), ⟨h, by simp⟩, rfl⟩

theorem canon_sublist (all : List (Cand × V)) : (canon all).Sublist (all.map (·.1)) := by
  simp only [canon]
  exact (List.filter_sublist).map _

/-- **An acknowledged recent write is not missing** (full strength: over the WHOLE content of the
    recent-write tier, stale mirrors included).  `all` = every document of the tier in scan order
    (ascending distance, distinct ids) with the verdict of the canonical check.  A document whose
    mirror is canonical is in the result, or the result already holds k documents none of which is
    farther than it — however many stale mirrors rank in front of it, and for EVERY answer `cold`
    of the ANN tier. -/
theorem C06_recent_write_present (all : List (Cand × V)) (cold : List Cand) (k : Nat)
    (hnd : NodupIds (all.map (·.1)))
    (hsorted : (all.map (·.1)).Pairwise (fun a b => a.key ≤ b.key))
    (h : Cand) (hh : (h, V.matched) ∈ all) :
    h ∈ mergeKnn (widenF (all.length + 1) all (2 * k) (2 * k)).2 cold k ∨
      ((mergeKnn (widenF (all.length + 1) all (2 * k) (2 * k)).2 cold k).length = k ∧
        ∀ r ∈ mergeKnn (widenF (all.length + 1) all (2 * k) (2 * k)).2 cold k, r.key ≤ h.key) := by
  cases k with
  | zero => right; simp [mergeKnn]
  | succ k =>
  rw [widenF_spec all.length all _ _ (Nat.le_refl _) (by omega)]
  have hsub := canon_sublist all
  have hcn : NodupIds (canon all) := by
    unfold NodupIds at *
    exact hnd.sublist (hsub.map _)
  have hcs : (canon all).Pairwise (fun a b => a.key ≤ b.key) := hsorted.sublist hsub
  have hhc : h ∈ canon all := mem_canon.mpr hh
  have hn' : NodupIds ((canon all).take (2 * (k + 1))) := by
    unfold NodupIds at *
    exact hcn.sublist ((List.take_sublist _ _).map _)
  by_cases hin : h ∈ (canon all).take (2 * (k + 1))
  · exact merge_keeps_candidate _ cold _ hn' h hin
  · right
    -- h lies beyond the cut: the cut is full and everything in it is no farther than h
    have hsplit : canon all = (canon all).take (2 * (k + 1)) ++ (canon all).drop (2 * (k + 1)) :=
      (List.take_append_drop _ _).symm
    have hd : h ∈ (canon all).drop (2 * (k + 1)) := by
      rw [hsplit] at hhc
      rcases List.mem_append.mp hhc with h' | h'
      · exact (hin h').elim
      · exact h'
    have hlen : 2 * (k + 1) ≤ (canon all).length := by
      apply Classical.byContradiction
      intro hc
      have : (canon all).drop (2 * (k + 1)) = [] := List.drop_eq_nil_of_le (by omega)
      rw [this] at hd
      cases hd
    have hle : ∀ r ∈ (canon all).take (2 * (k + 1)), r.key ≤ h.key := by
      intro r hr
      rw [hsplit, List.pairwise_append] at hcs
      exact hcs.2.2 r hr h hd
    have hcount := length_le_countP ((canon all).take (2 * (k + 1)))
      (sortCands (dedup ((canon all).take (2 * (k + 1))) cold))
      (fun c => decide (c.key ≤ h.key)) (nodup_of_nodupIds _ hn') (fun a ha => by
        refine ⟨?_, by simpa using hle a ha⟩
        apply (perm_sortCands _).mem_iff.mpr
        rw [dedup_eq]
        exact coldFold_mono cold _ a (hotFold_keeps _ hn' a ha))
    rw [List.length_take, Nat.min_eq_left hlen] at hcount
    exact take_le_of_countP _ (sorted_sortCands _) h.key (k + 1) (by omega)

/-- **The defect this theorem excludes** (pre-fix code: cut the scan to 2k, filter afterwards): two
    stale mirrors in front displace the canonical recent write of document 3 from a k = 1 search
    although nothing else is returned; the widening scan returns it. -/
theorem C06_cut_before_filter_loses_recent_write :
    let all : List (Cand × V) := [(⟨1, 1, 10⟩, .stale), (⟨2, 2, 20⟩, .stale), (⟨3, 3, 30⟩, .matched)]
    mergeKnn (cutThenFilter all 2) [] 1 = [] ∧
      mergeKnn (widenF (all.length + 1) all 2 2).2 [] 1 = [⟨3, 3, 30⟩] := by decide

/-! ### on the engine state -/

theorem verdict_matched {D : Type} [DecidableEq D] (digest : Vec → D) (s : TState D) (c : Cand)
    (h : verdict digest s c = .matched) : (alookup c.id s.cold).isSome := by
  unfold verdict at h
  split at h
  · cases h
  · rename_i hd _
    split at h
    · rename_i hm
      unfold canonicalState at hm
      split at hm
      · cases hm
      · rename_i hl
        rw [hl]; rfl
    all_goals cases h

theorem mem_annotate {D : Type} [DecidableEq D] (digest : Vec → D) (s : TState D)
    (scan : List Cand) (x : Cand) (v : V) (h : (x, v) ∈ annotate digest s scan) :
    x ∈ scan ∧ v = verdict digest s x := by
  simp only [annotate, List.mem_map] at h
  obtain ⟨c, hc, he⟩ := h
  cases he
  exact ⟨hc, rfl⟩

/-- **Every returned document exists now.** -/
theorem C06_results_exist {D : Type} [DecidableEq D] (digest : Vec → D) (s : TState D)
    (scan cold : List Cand) (k : Nat) (hcold : ∀ c ∈ cold, (alookup c.id s.cold).isSome)
    (x : Cand) (hx : x ∈ (knnStep digest s scan cold k).2) : (alookup x.id s.cold).isSome := by
  rcases C06_every_result_is_a_tier_answer _ _ _ x hx with h | ⟨h, _⟩
  · have := mem_canon.mp (widen_sub _ _ _ _ x h)
    obtain ⟨_, hv⟩ := mem_annotate digest s scan x _ this
    exact verdict_matched digest s x hv.symm
  · exact hcold x h

/-- **A stale mirror is never served**: a document of the recent-write tier whose mirror does not
    match the canonical token and payload — overwritten past the mirror, or deleted — is not among
    the recent-write candidates handed to the merge, wherever it ranks in the scan. -/
theorem C06_stale_mirror_never_served {D : Type} [DecidableEq D] (digest : Vec → D) (s : TState D)
    (scan : List Cand) (k : Nat) (hnd : NodupIds scan) (c : Cand) (hc : c ∈ scan)
    (hstale : verdict digest s c ≠ .matched) :
    c.id ∉ ((widenF ((annotate digest s scan).length + 1) (annotate digest s scan) (2 * k) (2 * k)).2).map (·.id) := by
  intro hm
  obtain ⟨x, hx, hid⟩ := List.mem_map.mp hm
  have := mem_canon.mp (widen_sub _ _ _ _ x hx)
  obtain ⟨hxs, hv⟩ := mem_annotate digest s scan x _ this
  have : x = c := eq_of_id_eq scan hnd hxs hc hid
  subst this
  exact hstale hv.symm

/-- non-vacuity: a stale hot copy of document 1 is dropped, the fresh hot copy of document 2 beats
    the ANN tier's value for it, document 3 comes from the ANN tier, k = 2 cuts the farthest -/
example :
    mergeKnn [⟨2, 5, 50⟩] [⟨2, 6, 60⟩, ⟨3, 4, 40⟩, ⟨1, 9, 90⟩] 2 = [⟨3, 4, 40⟩, ⟨2, 5, 50⟩] := by decide

end KyroModel.C06
