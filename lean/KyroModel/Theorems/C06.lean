/-
C06 — Search results are sound and reflect acknowledged recent writes.

Property statements only.  Model: `Tiered/Knn.lean`.  What each tier returns for the query — the
exhaustive scan of the recent-write tier (top 2k) and the ANN tier's answer — is universally
quantified: the theorems hold whatever the heuristic graph search returns.  Tie: `./check C06`
asks the real tiers for exactly those lists, the real engine for its answer, and compares.

* `C06_at_most_k`, `C06_distinct`, `C06_sorted`: at most k distinct documents in non-decreasing
  distance order;
* `C06_every_result_is_a_tier_answer`: every returned (document, distance) pair is the recent-write
  tier's candidate for that document, or — only when that tier has none for it — the ANN tier's;
* `C06_results_exist`: every returned document exists now (recent-write candidates are checked
  against the canonical token; the ANN tier answers with live documents only — hypothesis `hcold`,
  the tombstone filter of `HnswBackend::knn_search`, exercised by the run);
* `C06_stale_mirror_never_served`: a candidate whose mirror does not match the canonical token
  (overwritten or deleted since) is never served from the recent-write tier;
* `C06_recent_write_present`: a coherent recent-write candidate is in the result unless the
  result already holds k documents none of which is farther than it.
-/
import KyroModel.Lemmas.Knn

namespace KyroModel.C06
open KyroModel KyroModel.Knn

theorem C06_at_most_k (hot cold : List Cand) (k : Nat) : (mergeKnn hot cold k).length ≤ k := by
  simp [mergeKnn, List.length_take]
  omega

theorem C06_distinct (hot cold : List Cand) (k : Nat) :
    ((mergeKnn hot cold k).map (·.id)).Nodup := by
  have hp := (perm_sortCands (dedup hot cold)).map (·.id)
  have hn : ((sortCands (dedup hot cold)).map (·.id)).Nodup := hp.nodup_iff.mpr (dedup_nodup hot cold)
  simp only [mergeKnn, List.map_take]
  exact hn.sublist (List.take_sublist _ _)

theorem C06_sorted (hot cold : List Cand) (k : Nat) :
    (mergeKnn hot cold k).Pairwise (fun a b => a.key ≤ b.key) := by
  have hs : Sorted (sortCands (dedup hot cold)) := sorted_sortCands _
  have : ((sortCands (dedup hot cold)).take k).Pairwise (fun a b => le a b = true) :=
    hs.sublist (List.take_sublist _ _)
  exact this.imp (fun h => le_key h)

theorem mem_merge (hot cold : List Cand) (k : Nat) (x : Cand) (hx : x ∈ mergeKnn hot cold k) :
    x ∈ dedup hot cold :=
  (perm_sortCands _).mem_iff.mp (List.mem_of_mem_take hx)

/-- hot first: a returned pair is the recent-write tier's, or the ANN tier's for a document the
    recent-write tier did not answer for -/
theorem C06_every_result_is_a_tier_answer (hot cold : List Cand) (k : Nat) (x : Cand)
    (hx : x ∈ mergeKnn hot cold k) : x ∈ hot ∨ (x ∈ cold ∧ x.id ∉ hot.map (·.id)) := by
  have hd := mem_merge hot cold k x hx
  rw [dedup_eq] at hd
  rcases coldFold_sub cold (hotFold hot) x hd with h | ⟨hc, hn⟩
  · exact Or.inl (hotFold_sub hot x h)
  · refine Or.inr ⟨hc, ?_⟩
    intro hm
    obtain ⟨c, hc', hid⟩ := List.mem_map.mp hm
    -- some entry with this id survives the hot fold, so `hasId` would have been true
    have : hasId (hotFold hot) x.id = true := by
      have key : ∀ (l acc : List Cand), (x.id ∈ l.map (·.id) ∨ x.id ∈ acc.map (·.id)) →
          x.id ∈ (l.foldl (fun acc c => c :: acc.filter (·.id != c.id)) acc).map (·.id) := by
        intro l
        induction l with
        | nil =>
          intro acc h
          rcases h with h | h
          · cases h
          · exact h
        | cons y ys ih =>
          intro acc h
          simp only [List.foldl_cons]
          apply ih
          by_cases hy : y.id = x.id
          · exact Or.inr (by simp [hy])
          · rcases h with h | h
            · simp only [List.map_cons, List.mem_cons] at h
              rcases h with h | h
              · exact (hy h.symm).elim
              · exact Or.inl h
            · right
              obtain ⟨z, hz, hzid⟩ := List.mem_map.mp h
              refine List.mem_map.mpr ⟨z, List.mem_cons_of_mem _ (List.mem_filter.mpr ⟨hz, ?_⟩), hzid⟩
              simp only [bne_iff_ne, ne_eq]
              rw [hzid]
              exact fun e => hy e.symm
      exact (hasId_iff _ _).mpr (key hot [] (Or.inl hm))
    rw [this] at hn
    cases hn

/-! ### on the engine state -/

theorem filterHot_cold {D : Type} [DecidableEq D] (digest : Vec → D) (s : TState D) (hot : List Cand) :
    (filterHot digest s hot).1.cold = s.cold := by
  induction hot generalizing s with
  | nil => rfl
  | cons c rest ih =>
    simp only [filterHot]
    split
    · exact ih s
    · split
      · exact ih s
      · rw [ih]; rfl
      · rw [ih]; rfl
      · exact ih s

/-- every candidate the coherence filter keeps was offered by the recent-write tier, exists in
    the canonical store, and its mirror carries the canonical token -/
theorem filterHot_kept {D : Type} [DecidableEq D] (digest : Vec → D) (s : TState D)
    (hot : List Cand) (c : Cand) (hc : c ∈ (filterHot digest s hot).2) :
    c ∈ hot ∧ (alookup c.id s.cold).isSome := by
  induction hot generalizing s with
  | nil => simp [filterHot] at hc
  | cons x rest ih =>
    simp only [filterHot] at hc
    split at hc
    · exact ⟨List.mem_cons_of_mem _ (ih s hc).1, (ih s hc).2⟩
    · rename_i h hh
      split at hc
      · rename_i hm
        rcases List.mem_cons.mp hc with rfl | hc'
        · refine ⟨List.mem_cons_self .., ?_⟩
          unfold canonicalState at hm
          cases hl : alookup c.id s.cold with
          | none => simp [hl] at hm
          | some d => simp
        · exact ⟨List.mem_cons_of_mem _ (ih s hc').1, (ih s hc').2⟩
      · have := ih (discardHot s x.id) hc
        exact ⟨List.mem_cons_of_mem _ this.1, by simpa [discardHot] using this.2⟩
      · have := ih (discardHot s x.id) hc
        exact ⟨List.mem_cons_of_mem _ this.1, by simpa [discardHot] using this.2⟩
      · exact ⟨List.mem_cons_of_mem _ (ih s hc).1, (ih s hc).2⟩

/-- **Every returned document exists now**, whatever the tiers answered, provided the ANN tier
    answers with live documents (its tombstone filter). -/
theorem C06_results_exist {D : Type} [DecidableEq D] (digest : Vec → D) (s : TState D)
    (hot cold : List Cand) (k : Nat) (hcold : ∀ c ∈ cold, (alookup c.id s.cold).isSome)
    (x : Cand) (hx : x ∈ (knnStep digest s hot cold k).2) : (alookup x.id s.cold).isSome := by
  rcases C06_every_result_is_a_tier_answer _ _ _ x hx with h | ⟨h, _⟩
  · exact (filterHot_kept digest s hot x h).2
  · exact hcold x h

/-- **A stale mirror is never served**: a recent-write candidate whose mirror does not match the
    canonical token and payload at the time it is examined — the document was overwritten past
    the mirror, or deleted — is not kept (head position: the state is the current one). -/
theorem C06_stale_mirror_never_served {D : Type} [DecidableEq D] (digest : Vec → D) (s : TState D)
    (c : Cand) (rest : List Cand) (h : HotDoc D)
    (hh : alookup c.id s.hot = some h)
    (hstale : canonicalState digest s.cold c.id h.vec h.tok ≠ .matched)
    (hnodup : c.id ∉ rest.map (·.id)) :
    c.id ∉ ((filterHot digest s (c :: rest)).2).map (·.id) := by
  intro hm
  obtain ⟨x, hx, hid⟩ := List.mem_map.mp hm
  simp only [filterHot, hh] at hx
  cases hcs : canonicalState digest s.cold c.id h.vec h.tok with
  | matched => exact hstale hcs
  | tokenMismatch =>
    simp only [hcs] at hx
    exact hnodup (List.mem_map.mpr ⟨x, (filterHot_kept digest _ rest x hx).1, hid⟩)
  | localCorruption =>
    simp only [hcs] at hx
    exact hnodup (List.mem_map.mpr ⟨x, (filterHot_kept digest _ rest x hx).1, hid⟩)
  | missing =>
    simp only [hcs] at hx
    exact hnodup (List.mem_map.mpr ⟨x, (filterHot_kept digest _ rest x hx).1, hid⟩)

/-- **An acknowledged recent write is not missing**: a candidate of the recent-write tier that
    passed the coherence filter (distinct ids, as a scan of a map yields) is in the result, or
    the result already holds k documents none of which is farther than it — it is never left out
    while strictly closer than the k-th returned document.  Holds for EVERY answer of the ANN tier. -/
theorem C06_recent_write_present (hot cold : List Cand) (k : Nat) (hnd : NodupIds hot) (h : Cand)
    (hh : h ∈ hot) :
    h ∈ mergeKnn hot cold k ∨
      ((mergeKnn hot cold k).length = k ∧ ∀ r ∈ mergeKnn hot cold k, r.key ≤ h.key) := by
  have hd : h ∈ dedup hot cold := by
    rw [dedup_eq]
    exact coldFold_mono cold _ h (hotFold_keeps hot hnd h hh)
  have hs : h ∈ sortCands (dedup hot cold) := (perm_sortCands _).mem_iff.mpr hd
  by_cases hin : h ∈ (sortCands (dedup hot cold)).take k
  · exact Or.inl hin
  · obtain ⟨hl, hall⟩ := take_keeps_closest _ (sorted_sortCands _) k h hs hin
    exact Or.inr ⟨hl, fun r hr => le_key (hall r hr)⟩

/-- non-vacuity: a stale hot copy of document 1 is dropped, the fresh hot copy of document 2 beats
    the ANN tier's value for it, document 3 comes from the ANN tier, k = 2 cuts the farthest -/
example :
    mergeKnn [⟨2, 5, 50⟩] [⟨2, 6, 60⟩, ⟨3, 4, 40⟩, ⟨1, 9, 90⟩] 2 = [⟨3, 4, 40⟩, ⟨2, 5, 50⟩] := by decide

end KyroModel.C06
