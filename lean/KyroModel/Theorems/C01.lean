/-
C01 — Acknowledged writes survive a crash at any instant and restart always succeeds.

Property statements only.  Model: `KyroModel/Persist/{Model,Ops}.lean`; tie: the `persist`
correspondence run of `./check C01` materialises, from the FS-shim effect log of the real
backend, the directory at EVERY effect boundary (and torn prefixes of frame writes) of every
operation of generated histories, runs the real strict `recover` on it and compares with the
model's prediction for the corresponding action prefix.

Scope of the proof: the **process-kill** failure model at the granularity of logical actions
(whole frames, atomic MANIFEST / snapshot publication).  That a torn frame is invisible to the
reader and that tmp+fsync+rename+dir-fsync is atomic are byte/OS-level facts validated by the
crash enumeration, not proved here.  Power loss (fsync-every-write) is validated by the same
enumeration over synced-prefix states.  The periodic-fsync clause has its own protocol model and
theorems in `Theorems/C01Periodic.lean` (three defects on that path were repaired in the code:
be0c955, c353f41).
-/
import KyroModel.Lemmas.PersistHistory
import KyroModel.Lemmas.PowerLoss
import KyroModel.Theorems.C01Periodic

namespace KyroModel.C01
open KyroModel

/-- **Every kill point of every operation after every history.**  Let the engine have executed
    any history, and let it be killed after any prefix (`take k`, any `k`) of the actions of the
    next operation — an insert, overwrite, delete, metadata update, manual snapshot, automatic
    snapshot, rotation, segment compaction, or a *restart* (so a crash during start-up is
    covered).  Then strict recovery of the directory succeeds and yields exactly the documents
    acknowledged before the operation, or those plus the operation in flight.  (Batch deletes:
    `C01_kill_point_batch_partial`.) -/
theorem C01_kill_point (cfg : PCfg) (ops : List POp) (hv : ∀ op ∈ ops, op.valid) (op : POp)
    (hop : op.valid) (hnb : op.isBatch = false) (k : Nat) :
    ∃ r mx, recover ((pRun cfg ops).2.applyAll
        ((pStep (pRun cfg ops).1 (pRun cfg ops).2 op).2.1.take k)) = .ok (r, mx) ∧
      (MapEq r (pRun cfg ops).1.store.docs ∨
       MapEq r (pStep (pRun cfg ops).1 (pRun cfg ops).2 op).1.store.docs) := by
  have h := einv_pRun cfg ops hv
  generalize (pRun cfg ops).1 = e at *
  generalize (pRun cfg ops).2 = d at *
  have key : AllPrefixes (fun d' => Rec d' e.store.docs ∨ Rec d' (pStep e d op).1.store.docs) d
      (pStep e d op).2.1 := by
    cases op with
    | insert id v m acc fl fd => exact (pInsert_spec e d id v m acc fl fd h hop).2.1
    | delete id fl => exact (pDelete_spec e d id fl h).2.1
    | batchDelete ids fl => simp [POp.isBatch] at hnb
    | update id md fl => exact (pUpdate_spec e d id md fl h).2.1
    | snapshot => exact allPrefixes_mono (fun _ hd => Or.inl hd) _ _ (pSnapshot_spec e d h).2.1
    | restart =>
      obtain ⟨e', as, hr, _, _, hp⟩ := pRestart_spec e d h
      simp only [pStep, hr]
      exact allPrefixes_mono (fun _ hd => Or.inl hd) _ _ hp
    | ioFailed n =>
      simp only [pStep, AllPrefixes]
      exact Or.inl ⟨_, h.dinv⟩
  rcases allPrefixes_take d _ key k with hk | hk
  · obtain ⟨r, mx, h1, h2⟩ := recover_of_Rec _ _ hk
    exact ⟨r, mx, h1, Or.inl h2⟩
  · obtain ⟨r, mx, h1, h2⟩ := recover_of_Rec _ _ hk
    exact ⟨r, mx, h1, Or.inr h2⟩

/-- **Power loss (fsync-every-write).**  A power failure may additionally undo directory changes
    that were not yet synced — the creation of a file, the removal of a file.  The protocol only
    ever leaves such changes pending for files the MANIFEST does not (yet / any longer) reference
    (a new segment or snapshot is created before the MANIFEST that names it is published with a
    directory sync; a compacted segment or retired snapshot is removed after the MANIFEST that
    drops it).  So a power-loss directory `d'` is a kill-point directory up to unreferenced files
    (`SameReferenced`), and recovers exactly as the kill point does.  That real power-loss
    directories have this shape is what `./check C01` validates: for every directory the FS-shim's
    power-loss model can produce, the referenced view (MANIFEST + listed segments + pointed
    snapshot) must be the view of some action prefix of the model. -/
theorem C01_power_loss_point (cfg : PCfg) (ops : List POp) (hv : ∀ op ∈ ops, op.valid) (op : POp)
    (hop : op.valid) (hnb : op.isBatch = false) (k : Nat) (d' : Disk)
    (hd : SameReferenced ((pRun cfg ops).2.applyAll ((pStep (pRun cfg ops).1 (pRun cfg ops).2 op).2.1.take k)) d') :
    ∃ r mx, recover d' = .ok (r, mx) ∧
      (MapEq r (pRun cfg ops).1.store.docs ∨
       MapEq r (pStep (pRun cfg ops).1 (pRun cfg ops).2 op).1.store.docs) := by
  have h := einv_pRun cfg ops hv
  generalize (pRun cfg ops).1 = e at *
  generalize (pRun cfg ops).2 = d at *
  have key : AllPrefixes (fun d' => Rec d' e.store.docs ∨ Rec d' (pStep e d op).1.store.docs) d
      (pStep e d op).2.1 := by
    cases op with
    | insert id v m acc fl fd => exact (pInsert_spec e d id v m acc fl fd h hop).2.1
    | delete id fl => exact (pDelete_spec e d id fl h).2.1
    | batchDelete ids fl => simp [POp.isBatch] at hnb
    | update id md fl => exact (pUpdate_spec e d id md fl h).2.1
    | snapshot => exact allPrefixes_mono (fun _ hd => Or.inl hd) _ _ (pSnapshot_spec e d h).2.1
    | restart =>
      obtain ⟨e', as, hr, _, _, hp⟩ := pRestart_spec e d h
      simp only [pStep, hr]
      exact allPrefixes_mono (fun _ hd => Or.inl hd) _ _ hp
    | ioFailed n =>
      simp only [pStep, AllPrefixes]
      exact Or.inl ⟨_, h.dinv⟩
  rcases allPrefixes_take d _ key k with hk | hk
  · obtain ⟨r, mx, h1, h2⟩ := recover_of_Rec _ _ (hk.of_sameReferenced hd)
    exact ⟨r, mx, h1, Or.inl h2⟩
  · obtain ⟨r, mx, h1, h2⟩ := recover_of_Rec _ _ (hk.of_sameReferenced hd)
    exact ⟨r, mx, h1, Or.inr h2⟩

/-- non-vacuity of `SameReferenced`: an orphan segment the MANIFEST does not list changes nothing -/
example : SameReferenced
    { manifest := some ⟨none, none, [0]⟩, snaps := [], wals := [(0, {entries := []})] }
    { manifest := some ⟨none, none, [0]⟩, snaps := [], wals := [(7, {entries := []}), (0, {entries := []})] } := by
  refine ⟨rfl, ?_⟩
  intro m hm
  cases hm
  refine ⟨?_, fun n hn => nomatch hn⟩
  intro n hn
  simp only [List.mem_singleton] at hn
  subst hn
  rfl

/-- the full statement for batch deletes, kept visible: every kill point recovers to the state
    before or after the whole batch -/
def BatchAtomicStatement : Prop :=
  ∀ (cfg : PCfg) (ops : List POp), (∀ op ∈ ops, op.valid) → ∀ (ids : List Nat) (fl k : Nat),
    ∃ r mx, recover ((pRun cfg ops).2.applyAll
        ((pBatchDelete (pRun cfg ops).1 (pRun cfg ops).2 ids fl).2.1.take k)) = .ok (r, mx) ∧
      (MapEq r (pRun cfg ops).1.store.docs ∨
       MapEq r (pBatchDelete (pRun cfg ops).1 (pRun cfg ops).2 ids fl).1.store.docs)

/-- **Batch delete, partial.**  Restart always succeeds, and the recovered documents are the
    acknowledged ones with a *prefix* of the batch's (live) ids removed — the batch is logged one
    frame per id, so it is not atomic with respect to a kill.  Known finding
    KF-C01-batch-delete-not-atomic; `C01_batch_not_atomic_witness` refutes the full statement. -/
theorem C01_kill_point_batch_partial (cfg : PCfg) (ops : List POp) (hv : ∀ op ∈ ops, op.valid)
    (ids : List Nat) (fl k : Nat) :
    ∃ r mx j, recover ((pRun cfg ops).2.applyAll
        ((pBatchDelete (pRun cfg ops).1 (pRun cfg ops).2 ids fl).2.1.take k)) = .ok (r, mx) ∧
      MapEq r (eraseAll (pRun cfg ops).1.store.docs
        ((ids.filter fun id => (pRun cfg ops).1.store.has id).take j)) := by
  have h := einv_pRun cfg ops hv
  obtain ⟨j, hj⟩ := allPrefixes_take _ _ (pBatchDelete_spec _ _ ids fl h).2.1 k
  obtain ⟨r, mx, h1, h2⟩ := recover_of_Rec _ _ hj
  exact ⟨r, mx, j, h1, h2⟩

def recIds (d : Disk) (ids : List Nat) : Option (List Bool) :=
  match recover d with
  | .ok (docs, _) => some (ids.map fun id => (alookup id docs).isSome)
  | .error _ => none

/-- two documents, `batch_delete [1, 2]`, kill after the first frame: document 1 is gone,
    document 2 is still there — neither the state before nor the state after the batch -/
theorem C01_batch_not_atomic_witness :
    let ops : List POp := [.insert 1 [10] [] .yes 60 52, .insert 2 [20] [] .yes 60 52]
    let e := (pRun ⟨0, 0, 10⟩ ops).1
    let d := (pRun ⟨0, 0, 10⟩ ops).2
    recIds (d.applyAll ((pBatchDelete e d [1, 2] 52).2.1.take 1)) [1, 2] = some [false, true] := by
  decide

/-- the hypotheses of `C01_kill_point` are met by a non-trivial history and operation: kill
    inside the automatic snapshot + segment compaction triggered by the third insert -/
example :
    let ops : List POp := [.insert 1 [10] [] .yes 60 52, .insert 2 [20] [] .yes 60 52]
    let e := (pRun ⟨3, 100, 10⟩ ops).1
    let d := (pRun ⟨3, 100, 10⟩ ops).2
    ((pStep e d (.insert 1 [11] [] .yes 60 52)).2.1.length,
     (List.range 6).map fun k =>
       recIds (d.applyAll ((pStep e d (.insert 1 [11] [] .yes 60 52)).2.1.take k)) [1, 2])
      = (5, List.replicate 6 (some [true, true])) := by decide

end KyroModel.C01
