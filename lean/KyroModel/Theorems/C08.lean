/-
C08 — No interleaving of concurrent API calls can deadlock.

Property statements only.  `Conc/LockSystem.lean` is the abstract lock system (mutexes,
reader/writer locks with writer preference, upgradable reads and upgrades) the controlled
scheduler implements around the real locks; `Conc/LockGraphGenerated.lean` is REGENERATED on every
run from the lock nesting that scheduler observes while it drives every pair of API operations of
the catalogue (and random schedules of triples) through the current engine code.

* `no_deadlock_of_ranked` (LockSystem): for ANY number of threads and locks, a state in which
  every waiting thread holds only locks ranked strictly below the one it requests is not a
  deadlock;
* `edges_ranked`, `no_reentrancy` (generated): the observed nesting admits such a rank — the
  nesting graph is acyclic and nothing re-enters a lock;
* `C08_no_deadlock`: hence no state whose nesting stays within the observed edges is a deadlock.

What this does not cover (partial): nesting the exploration never exercised (the catalogue and
its warm-up are the coverage), blocking that is not a parking_lot lock (none in the sync API, by
reading), and async paths of the server binary.
-/
import KyroModel.Conc.LockSystem
import KyroModel.Conc.LockGraphGenerated

namespace KyroModel.C08
open KyroModel.Conc

/-- every (held, requested) pair of a waiting thread is one of the observed nesting edges; an
    upgrade is requested on a lock held as an upgradable read -/
def WithinObserved (t : Th) : Prop :=
  match t.want with
  | none => True
  | some (l, .up) => holdsMode t l .ug = true ∧ ∀ p ∈ t.held, p.1 ≠ l → (p.1, l) ∈ Generated.edges
  | some (l, _) => ∀ p ∈ t.held, (p.1, l) ∈ Generated.edges

theorem ranked_of_withinObserved (t : Th) (h : WithinObserved t) : RankedTh Generated.rank t := by
  unfold WithinObserved at h
  unfold RankedTh
  cases hw : t.want with
  | none => trivial
  | some p =>
    obtain ⟨l, r⟩ := p
    rw [hw] at h
    cases r with
    | sh => exact fun p hp => Generated.edges_ranked _ (h p hp)
    | ex => exact fun p hp => Generated.edges_ranked _ (h p hp)
    | ug => exact fun p hp => Generated.edges_ranked _ (h p hp)
    | up => exact ⟨h.1, fun p hp hne => Generated.edges_ranked _ (h.2 p hp hne)⟩

/-- **No deadlock**: any state — any number of threads — whose lock nesting stays within what the
    current code was observed to do is not a deadlock. -/
theorem C08_no_deadlock (ths : List Th) (h : ∀ t ∈ ths, WithinObserved t) (hwf : Wf ths) :
    ¬ Deadlock ths :=
  no_deadlock_of_ranked Generated.rank ths (fun t ht => ranked_of_withinObserved t (h t ht)) hwf

/-- the observed graph is acyclic and nothing re-enters a lock it holds -/
theorem C08_nesting_acyclic : Generated.onCycle = [] ∧ Generated.reentrant = [] := by
  constructor <;> decide

/-- the classic inversion IS a deadlock in this model (so the theorem is not vacuous): thread 0
    holds lock 8 and wants lock 0, thread 1 holds lock 0 and wants lock 8 -/
example : Deadlock [⟨[(8, .ex)], some (0, .sh)⟩, ⟨[(0, .ex)], some (8, .ex)⟩] := by
  refine ⟨⟨_, List.mem_cons_self .., by decide⟩, ?_⟩
  intro i t hi hunf
  match i, hi with
  | 0, hi => simp at hi; subst hi; exact ⟨by decide, by decide⟩
  | 1, hi => simp at hi; subst hi; exact ⟨by decide, by decide⟩
  | n + 2, hi => simp at hi

end KyroModel.C08
