/-
C11 — Metadata filters select exactly the matching documents.

Property statements only.  Models: `KyroModel/Store/{Filter,DocStore}.lean`, tied to
engine/src/{metadata_filter,hnsw_backend}.rs by the `store` correspondence run of `./check C11`
(real `ids_for_metadata_filter` vs real `scan(matches)` vs the model, on every filter).
-/
import KyroModel.Lemmas.StoreInv
import KyroModel.Lemmas.FilteredDelete


namespace KyroModel.C11
open KyroModel DocStore

/-- **The ordered index key is strictly monotone** for IEEE `<` and collapses exactly IEEE `==`
    (all non-NaN bit patterns, ±0, ±inf included): a `BTreeMap` range scan over the keys equals
    the float comparison of the reference semantics. -/
theorem C11_orderedKey_strictMono (a b : Nat) (ha : a < 2 ^ 64) (hb : b < 2 ^ 64) :
    (f64lt a b = true ↔ orderedKey a < orderedKey b) ∧
    (f64eq a b = true ↔ orderedKey a = orderedKey b) :=
  ⟨orderedKey_lt a b ha hb, orderedKey_eq a b ha hb⟩

/-- **The key never leaves 64 bits** (for every input, in range or not): the unbounded-`Nat`
    arithmetic of the model (`+ 2^63`, `2^64 − 1 − b`) stays inside what the code's `u64` bit
    operations (`bits ^ sign-mask`, `!bits`) can represent, so no wrap-around is hidden by modelling
    `u64` as `Nat`; and the two half-ranges do not overlap: non-negative floats map to
    `[2^63, 2^64)`, negative ones to `[0, 2^63)`. -/
theorem C11_orderedKey_fits (a : Nat) :
    orderedKey a < 2 ^ 64 ∧
    ((if a % 2 ^ 63 = 0 then 0 else a % 2 ^ 64) / 2 ^ 63 = 0 ↔ 2 ^ 63 ≤ orderedKey a) := by
  unfold orderedKey
  simp only [beq_iff_eq]
  split <;> split <;> omega

section
variable (parse : String → Option Nat) (hp : ∀ s x, parse s = some x → x < 2 ^ 64)
include hp

/-- **Index evaluation is exact for every filter tree** — exact / in-list / range with any
    bound string (numeric, NaN, ±inf, non-numeric, empty) / and / or / not, nested to any depth,
    all empty forms — in every index state satisfying the store invariant. -/
theorem C11_compile_correct (s : DocStore) (hs : SI parse s) (f : Filter) (b : List Nat)
    (hc : compile parse s.idx f = some b) (i : Nat) :
    i ∈ b ↔ liveAt s.slots i = true ∧ matchesF parse f (mdAt s.slots i) = true :=
  compile_correct parse hp s.idx (viewOf s.slots) hs.idx (uniq_mdAt s.slots hs.uniq) f b hc i

/-- **The selected id set is exactly the set of live documents whose current metadata satisfies
    the reference semantics** — on the compiled path and on the scan fallback alike. -/
theorem C11_ids_exact (s : DocStore) (hs : SI parse s) (f : Filter) (id : Nat) :
    id ∈ s.idsForFilter parse f ↔
      ∃ sl ∈ s.slots, sl.ext = some id ∧ matchesF parse f sl.md = true := by
  unfold idsForFilter
  split
  · rename_i b hc
    have hcc := C11_compile_correct parse hp s hs f b hc
    simp only [List.mem_filterMap, List.mem_eraseDups, List.mem_mergeSort, List.mem_filter,
      List.contains_eq_mem, decide_eq_true_eq]
    constructor
    · rintro ⟨i, ⟨hib, _⟩, hext⟩
      have := (hcc i).mp hib
      cases hg : s.slots[i]? with
      | none => rw [hg] at hext; cases hext
      | some sl =>
        rw [hg] at hext
        refine ⟨sl, List.mem_of_getElem? hg, by simpa using hext, ?_⟩
        have h2 := this.2
        unfold mdAt at h2; rw [hg] at h2; simpa using h2
    · rintro ⟨sl, hsl, hext, hm⟩
      obtain ⟨i, hi, rfl⟩ := List.getElem_of_mem hsl
      have hg : s.slots[i]? = some s.slots[i] := List.getElem?_eq_getElem hi
      have hlive : liveAt s.slots i = true := by unfold liveAt; rw [hg]; simp [hext]
      have hmd : mdAt s.slots i = s.slots[i].md := by unfold mdAt; rw [hg]; rfl
      refine ⟨i, ⟨(hcc i).mpr ⟨hlive, by rw [hmd]; exact hm⟩, ?_⟩, by rw [hg]; simpa using hext⟩
      exact (hs.idx.alive i).mpr hlive
  · simp only [scan, List.mem_filterMap]
    constructor
    · rintro ⟨sl, hsl, h⟩
      split at h
      · rename_i id' hext
        split at h
        · rename_i hm
          simp only [Option.some.injEq] at h; subst h
          exact ⟨sl, hsl, hext, hm⟩
        · cases h
      · cases h
    · rintro ⟨sl, hsl, hext, hm⟩
      exact ⟨sl, hsl, by simp [hext, hm]⟩

omit hp in
/-- the reference scan, for comparison: same set -/
theorem C11_scan_exact (s : DocStore) (f : Filter) (id : Nat) :
    id ∈ s.scan (matchesF parse f) ↔
      ∃ sl ∈ s.slots, sl.ext = some id ∧ matchesF parse f sl.md = true := by
  simp only [scan, List.mem_filterMap]
  constructor
  · rintro ⟨sl, hsl, h⟩
    split at h
    · rename_i id' hext
      split at h
      · rename_i hm
        simp only [Option.some.injEq] at h; subst h
        exact ⟨sl, hsl, hext, hm⟩
      · cases h
    · cases h
  · rintro ⟨sl, hsl, hext, hm⟩
    exact ⟨sl, hsl, by simp [hext, hm]⟩

end

/-! ### every reachable store -/

inductive SOp where
  | insert (id : Nat) (v : List Nat) (m : MetaMap)
  | delete (id : Nat)
  | batchDelete (ids : List Nat)
  | updateMeta (id : Nat) (m : MetaMap)
  | compact

def SOp.wf : SOp → Prop
  | .insert _ _ m => UniqueKeys m
  | .updateMeta _ m => UniqueKeys m
  | _ => True

section
variable (parse : String → Option Nat)

def applySOp (s : DocStore) : SOp → DocStore
  | .insert id v m => (s.insert parse id v m).1
  | .delete id => (s.delete parse id).1
  | .batchDelete ids => (s.batchDelete parse ids).1
  | .updateMeta id m => (s.updateMeta parse id m).1
  | .compact => s.compact parse

/-- **The store invariant holds in every reachable state**: after any sequence of inserts,
    overwrites, metadata replacements (merges arrive already merged), deletes, batch deletes
    with duplicates, index-full compactions and explicit tombstone compactions — and, because
    recovery rebuilds the store by the same insert path from an empty store, after recovery. -/
theorem C11_reachable (cap : Nat) (ops : List SOp) (hw : ∀ op ∈ ops, op.wf) :
    SI parse (ops.foldl (applySOp parse) (DocStore.empty cap)) := by
  suffices h : ∀ s, SI parse s → SI parse (ops.foldl (applySOp parse) s) from
    h _ (si_empty parse cap)
  induction ops with
  | nil => intro s h; exact h
  | cons op rest ih =>
    intro s h
    rw [List.foldl_cons]
    apply ih (fun o ho => hw o (List.mem_cons_of_mem _ ho))
    have hop := hw op (List.mem_cons_self ..)
    cases op with
    | insert id v m => exact si_insert parse s id v m h hop
    | delete id => exact si_delete parse s id h
    | batchDelete ids => exact si_batchDelete parse s ids h
    | updateMeta id m => exact si_updateMeta parse s id m h hop
    | compact => exact si_compact parse s h

end

/-! ### engine level -/

/-- **A filtered batch delete removes exactly the matching documents** (tiered engine,
    `batch_delete_by_metadata_filter`): afterwards a document is gone iff it was live and its
    *canonical* metadata satisfied the filter; every other document is untouched — whatever the
    recent-write mirror holds (stale metadata after a bulk load included), in every state where
    mirrored documents are canonical (invariant of all engine histories, `C04_history`) .
    Holds for the repaired code (fix: re-check hot candidates against canonical metadata);
    before the repair the mirror's stale metadata selected non-matching documents — see
    known_findings.json `fixed` and corpus/C11/stale_mirror_filtered_delete.ops. -/
theorem C11_filtered_delete_exact {D : Type} [DecidableEq D] (parse : String → Option Nat)
    (s : TState D) (f : Filter) (hs : HotSubCold s) (hn : AKeysNodup s.cold) (j : Nat) :
    alookup j (deleteByFilter parse s f).1.cold =
      match alookup j s.cold with
      | some d => if matchesF parse f d.md then none else some d
      | none => none :=
  deleteByFilter_exact parse s f hs hn j

/-! ### Witness -/

/-- a reachable store, a nested filter with a numeric range, a NOT and an empty OR: the index
    path and the scan select the same slots / documents -/
example :
    let parse : String → Option Nat := fun s =>
      if s == "1" then some 0x3FF0000000000000 else if s == "2" then some 0x4000000000000000 else none
    let s := [SOp.insert 1 [0] [("a", "1")], .insert 2 [0] [("a", "2")], .insert 3 [0] [("a", "x")],
              .insert 1 [0] [("a", "2"), ("b", "1")], .delete 3].foldl (applySOp parse) (DocStore.empty 10)
    let f := Filter.and [.range "a" (some (.gte "2")), .not (some (.or []))]
    (compile parse s.idx f, s.scan (matchesF parse f)) = (some [1, 3], [2, 1]) := by decide

end KyroModel.C11
