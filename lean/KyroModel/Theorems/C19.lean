/-
C19 — Rate limits bound admitted traffic.

Property statements only.  Model: `KyroModel/Server/RateLimit.lean` (exact arithmetic), tied to
engine/src/rate_limiter.rs by the `ratelimit` correspondence run of `./check C19`: the real
`RateLimiter` runs under a virtual monotonic clock (in-binary interposition of `clock_gettime`),
so model and implementation see the same timestamps.
* first use of a tenant under concurrency: `Theorems/C19FirstUse.lean` (`C19_first_use_one_bucket`,
  `C19_first_use_private_buckets_exceed_burst`).
-/
import KyroModel.Lemmas.RateLimit
import KyroModel.Theorems.C19FirstUse

namespace KyroModel.C19
open KyroModel Bucket

/-- consume at each clock reading in turn; returns the bucket and the number admitted -/
def consumeAll (G : Nat) (b : Bucket) : List Nat → Bucket × Nat
  | [] => (b, 0)
  | t :: ts =>
    let r := b.tryConsume G t
    let rest := consumeAll G r.1 ts
    (rest.1, (if r.2 then 1 else 0) + rest.2)

/-- readings of a monotone clock, none before the bucket's last refill -/
def Monotone (last : Nat) : List Nat → Prop
  | [] => True
  | t :: ts => last ≤ t ∧ Monotone t ts

theorem consumeAll_rel (G : Nat) (b : Bucket) (ts : List Nat) (hc : b.tokens ≤ b.cap * G)
    (hm : Monotone b.last ts) : Rel G b (consumeAll G b ts).1 (consumeAll G b ts).2 := by
  induction ts generalizing b with
  | nil => exact Rel.refl G b hc
  | cons t rest ih =>
    simp only [consumeAll]
    have h1 := rel_tryConsume G b t hc hm.1
    have hlast : (b.tryConsume G t).1.last = t := by
      unfold tryConsume; split <;> exact refill_last G b t hm.1
    have h2 := ih (b.tryConsume G t).1 h1.capped (by rw [hlast]; exact hm.2)
    exact Rel.trans h1 h2

/-- **Token-bucket bound, any call pattern.**  From any bucket state, over any sequence of
    `try_consume` calls at the readings of a monotone clock, `admitted ≤ tokens_at_start +
    rate·elapsed ≤ burst + rate·elapsed` (in exact arithmetic; `G` units per token). -/
theorem C19_bucket_bound (G : Nat) (b : Bucket) (ts : List Nat) (hc : b.tokens ≤ b.cap * G)
    (hm : Monotone b.last ts) :
    (consumeAll G b ts).2 * G ≤ b.cap * G + ((consumeAll G b ts).1.last - b.last) * b.rate := by
  have h := consumeAll_rel G b ts hc hm
  have := h.conserve
  omega

/-- **…over any window of a longer history**: counting from the first call `t₁` of the window
    (whatever happened before — the state is any capped bucket), the calls at `t₁ ≤ t₂ ≤ … ≤ tₙ`
    admit at most `burst + rate·(tₙ − t₁)` requests. -/
theorem C19_window_bound (G : Nat) (b : Bucket) (t1 : Nat) (ts : List Nat)
    (hc : b.tokens ≤ b.cap * G) (hm : Monotone b.last (t1 :: ts)) :
    (consumeAll G b (t1 :: ts)).2 * G ≤
      b.cap * G + ((consumeAll G b (t1 :: ts)).1.last - t1) * b.rate := by
  -- the first call refills up to t₁; from there the conservation law applies with a full cap
  have hr := rel_refill G b t1 hc hm.1
  have hl := refill_last G b t1 hm.1
  have hidem : (b.refill G t1).tryConsume G t1 = b.tryConsume G t1 := by
    unfold tryConsume
    rw [refill_idem G b t1 hm.1]
  have hsame : consumeAll G (b.refill G t1) (t1 :: ts) = consumeAll G b (t1 :: ts) := by
    simp only [consumeAll, hidem]
  have h := consumeAll_rel G (b.refill G t1) (t1 :: ts) hr.capped (by rw [hl]; exact ⟨Nat.le_refl _, hm.2⟩)
  rw [hsame] at h
  have hcv := h.conserve
  have hcap := hr.capped
  rw [hl] at hcv
  have : (b.refill G t1).rate = b.rate := hr.rate
  have hcap2 : (b.refill G t1).cap = b.cap := hr.cap
  rw [this] at hcv
  rw [hcap2] at hcap
  omega

/-- **The global limit under every interleaving.**  The global bucket is only ever touched by
    `try_consume` under its mutex and is never refunded; the clock is read inside the critical
    section, so whatever the interleaving of callers the bucket sees one sequence of calls at
    monotone readings — `C19_bucket_bound` / `C19_window_bound` apply verbatim. -/
theorem C19_global_all_schedules (G : Nat) (g : Bucket) (lockOrder : List Nat)
    (hc : g.tokens ≤ g.cap * G) (hm : Monotone g.last lockOrder) :
    (consumeAll G g lockOrder).2 * G ≤ g.cap * G + ((consumeAll G g lockOrder).1.last - g.last) * g.rate :=
  C19_bucket_bound G g lockOrder hc hm

/-- **A refusal by the global limit does not consume the tenant's budget**: after the refund
    the tenant bucket holds exactly what the refill alone would have given it. -/
theorem C19_refund_restores (G : Nat) (b : Bucket) (now : Nat) (hc : b.tokens ≤ b.cap * G)
    (hnow : b.last ≤ now) (hok : (b.tryConsume G now).2 = true) :
    ((b.tryConsume G now).1.refundOne G).tokens = (b.refill G now).tokens := by
  have hr := rel_refill G b now hc hnow
  unfold tryConsume at hok ⊢
  split at hok
  · rename_i hge
    simp only [hge, ↓reduceIte, refundOne]
    have := hr.capped
    rw [Nat.min_def]
    split <;> omega
  · cases hok

/-- one `check_limit` call moves the tenant's bucket along the conservation law, counting the
    call only if it was admitted (a refunded consume counts 0) -/
theorem checkLimit_tenant_rel (G : Nat) (r : RateLimiter) (t qps cNew cT cG : Nat) (b : Bucket)
    (hb : r.lookup t = some b) (hc : b.tokens ≤ b.cap * G) (hnow : b.last ≤ cT) :
    ∃ b', (r.checkLimit G t qps cNew cT cG).1.lookup t = some b' ∧
      Rel G b b' (if (r.checkLimit G t qps cNew cT cG).2.1 then 1 else 0) := by
  have hlk : ∀ (r' : RateLimiter) (x : Bucket), (r'.setTenant t x).lookup t = some x := by
    intro r' x; simp [RateLimiter.lookup, RateLimiter.setTenant]
  have hlk2 : ∀ (r' : RateLimiter) (x : Bucket) (g : Option Bucket),
      ({ (r'.setTenant t x) with global := g } : RateLimiter).lookup t = some x := by
    intro r' x g; simp [RateLimiter.lookup, RateLimiter.setTenant]
  have h1 := rel_tryConsume G b cT hc hnow
  unfold RateLimiter.checkLimit
  simp only [hb]
  cases hok : (b.tryConsume G cT).2 with
  | false =>
    rw [hok] at h1
    simp only [Bool.not_false, ↓reduceIte]
    exact ⟨_, hlk _ _, by simpa using h1⟩
  | true =>
    rw [hok] at h1
    simp only [Bool.not_true, Bool.false_eq_true, ↓reduceIte]
    cases hg : r.global with
    | none => exact ⟨_, hlk _ _, by simpa using h1⟩
    | some g =>
      simp only
      split
      · exact ⟨_, hlk2 _ _ _, by simpa using h1⟩
      · refine ⟨_, hlk2 _ _ _, ?_⟩
        simp only [Bool.false_eq_true, ↓reduceIte]
        exact rel_refund G b _ 0 (by simpa using h1)

/-- **A tenant with a token is not refused while the global budget has one.** -/
theorem C19_no_spurious_refusal (G : Nat) (r : RateLimiter) (t qps cNew cT cG : Nat)
    (b g : Bucket) (hb : r.lookup t = some b) (hg : r.global = some g)
    (ht : (b.refill G cT).tokens ≥ G) (hgt : (g.refill G cG).tokens ≥ G) :
    (r.checkLimit G t qps cNew cT cG).2.1 = true := by
  have h1 : (b.tryConsume G cT).2 = true := by
    unfold tryConsume; rw [if_pos ht]
  have h2 : (g.tryConsume G cG).2 = true := by
    unfold tryConsume; rw [if_pos hgt]
  unfold RateLimiter.checkLimit
  simp [hb, hg, h1, h2]

/-- **The budget comes back**: whatever the bucket's state (empty included), once the clock has
    advanced far enough for the refill to be worth one request (`(now − last) · rate ≥ G`, e.g. one
    second at any rate ≥ 1) the next call is admitted — the limiter throttles, it does not lock a
    tenant out.  (`cap ≥ 1`: the configuration validator refuses a zero rate.) -/
theorem C19_admitted_after_wait (G : Nat) (b : Bucket) (now : Nat) (hcap : 1 ≤ b.cap)
    (hlast : b.last < now) (hwait : G ≤ (now - b.last) * b.rate) :
    (b.tryConsume G now).2 = true := by
  have hcapG : G ≤ b.cap * G := Nat.le_mul_of_pos_left G hcap
  have ht : (b.refill G now).tokens ≥ G := by
    unfold refill
    rw [if_pos hlast]
    exact Nat.le_min.mpr ⟨hcapG, Nat.le_trans hwait (Nat.le_add_left _ _)⟩
  unfold tryConsume; rw [if_pos ht]

/-- the hypotheses are satisfiable: an empty bucket of rate 5, one tick later (G = 1000 ms) -/
example : ((⟨5, 5, 0, 10⟩ : Bucket).tryConsume 1000 210).2 = true := by decide

/-! ### the tenant bucket under every interleaving -/

/-- one whole `check_limit` as the tenant bucket sees it now that it stays locked until the global
    outcome is known (fix 78e4fe2): consume, and hand the token back when the global bucket refuses
    (`globalOk = false`) — one atomic step of the bucket -/
def tenantCall (G : Nat) (b : Bucket) (now : Nat) (globalOk : Bool) : Bucket × Bool :=
  if (b.tryConsume G now).2 then
    if globalOk then ((b.tryConsume G now).1, true) else ((b.tryConsume G now).1.refundOne G, false)
  else ((b.tryConsume G now).1, false)

def tenantCalls (G : Nat) (b : Bucket) : List (Nat × Bool) → Bucket × Nat
  | [] => (b, 0)
  | (t, g) :: rest =>
    ((tenantCalls G (tenantCall G b t g).1 rest).1,
      (if (tenantCall G b t g).2 then 1 else 0) + (tenantCalls G (tenantCall G b t g).1 rest).2)

theorem rel_tenantCall (G : Nat) (b : Bucket) (now : Nat) (g : Bool) (hc : b.tokens ≤ b.cap * G)
    (hnow : b.last ≤ now) :
    Rel G b (tenantCall G b now g).1 (if (tenantCall G b now g).2 then 1 else 0) := by
  have h1 := rel_tryConsume G b now hc hnow
  unfold tenantCall
  cases hok : (b.tryConsume G now).2 with
  | false => rw [hok] at h1; simpa using h1
  | true =>
    rw [hok] at h1
    cases g with
    | true => simpa using h1
    | false =>
      simp only [↓reduceIte, Bool.false_eq_true]
      exact rel_refund G b _ 0 (by simpa using h1)

theorem tenantCall_last (G : Nat) (b : Bucket) (now : Nat) (g : Bool) (hnow : b.last ≤ now) :
    (tenantCall G b now g).1.last = now := by
  have hl : (b.tryConsume G now).1.last = now := by
    unfold tryConsume; split <;> exact refill_last G b now hnow
  unfold tenantCall
  split
  · split
    · exact hl
    · simpa [refundOne] using hl
  · exact hl

theorem tenantCalls_rel (G : Nat) (b : Bucket) (evs : List (Nat × Bool)) (hc : b.tokens ≤ b.cap * G)
    (hm : Monotone b.last (evs.map (·.1))) : Rel G b (tenantCalls G b evs).1 (tenantCalls G b evs).2 := by
  induction evs generalizing b with
  | nil => exact Rel.refl G b hc
  | cons e rest ih =>
    obtain ⟨t, g⟩ := e
    simp only [List.map_cons, Monotone] at hm
    simp only [tenantCalls]
    have h1 := rel_tenantCall G b t g hc hm.1
    have h2 := ih (tenantCall G b t g).1 h1.capped (by rw [tenantCall_last G b t g hm.1]; exact hm.2)
    exact Rel.trans h1 h2

/-- **The tenant bound under every interleaving** (after fix 78e4fe2).  The tenant bucket stays
    locked from the consume to the possible refund, and the clock is read inside, so whatever the
    interleaving of callers — and whatever the global bucket answers to each (`globalOk` arbitrary) —
    the bucket sees one sequence of atomic calls at monotone readings and
    `admitted ≤ burst + rate·elapsed`. -/
theorem C19_tenant_all_schedules (G : Nat) (b : Bucket) (evs : List (Nat × Bool))
    (hc : b.tokens ≤ b.cap * G) (hm : Monotone b.last (evs.map (·.1))) :
    (tenantCalls G b evs).2 * G ≤ b.cap * G + ((tenantCalls G b evs).1.last - b.last) * b.rate := by
  have := (tenantCalls_rel G b evs hc hm).conserve
  omega

/-- the PRE-FIX protocol on one tenant bucket: a caller whose global attempt failed released the
    bucket between its consume (`stalled t`) and its refund (`refund`); other callers (`call t`,
    global willing) ran in between -/
inductive Ev | stalled (t : Nat) | call (t : Nat) | refund
deriving DecidableEq

def runPre (G : Nat) (b : Bucket) : List Ev → Bucket × List Nat      -- the clock readings of ADMITTED calls
  | [] => (b, [])
  | .stalled t :: rest => runPre G (b.tryConsume G t).1 rest
  | .call t :: rest =>
    ((runPre G (b.tryConsume G t).1 rest).1,
      (if (b.tryConsume G t).2 then [t] else []) ++ (runPre G (b.tryConsume G t).1 rest).2)
  | .refund :: rest => runPre G (b.refundOne G) rest

/-- **The defect the fix removes** (found by the scheduler exploration of `./check C19`): rate 1/s,
    burst 1; a stalled caller holds the bucket's token from t = 0, the bucket refills, a call at
    t = 1 s is admitted, the late refund arrives, a second call at t = 1 s is admitted too — two
    admissions in an interval of length zero where the bound is the burst, 1. -/
theorem C19_prefix_refund_window :
    (runPre 1000 ⟨1, 1, 1000, 0⟩ [.stalled 0, .call 1000, .refund, .call 1000]).2 = [1000, 1000] := by decide

/-! ### non-vacuity -/
example : (consumeAll 1000 (Bucket.new 1000 2 0) [0, 0, 0, 500, 500, 1000]).2 = 4 := by decide
example : Monotone 0 [0, 0, 0, 500, 500, 1000] := by simp [Monotone]

end KyroModel.C19
