/-
C19 — Rate limits bound admitted traffic.

Property statements only.  Model: `KyroModel/Server/RateLimit.lean` (exact arithmetic), tied to
engine/src/rate_limiter.rs by the `ratelimit` correspondence run of `./check C19`: the real
`RateLimiter` runs under a virtual monotonic clock (in-binary interposition of `clock_gettime`),
so model and implementation see the same timestamps.
-/
import KyroModel.Lemmas.RateLimit

namespace KyroModel.C19
open KyroModel Bucket

/-- consume at each clock reading in turn; returns the bucket and the number admitted -/
def consumeAll (G : Nat) (b : Bucket) : List Nat → Bucket × Nat
  | [] => (b, 0)
  | t :: ts =>
    let r := b.tryConsume G t
    let rest := consumeAll G r.1 ts
    (rest.1, (if r.2 then 1 else 0) + rest.2)

/-- readings of a monotone clock, none before the bucket's last refill -/
def Monotone (last : Nat) : List Nat → Prop
  | [] => True
  | t :: ts => last ≤ t ∧ Monotone t ts

theorem consumeAll_rel (G : Nat) (b : Bucket) (ts : List Nat) (hc : b.tokens ≤ b.cap * G)
    (hm : Monotone b.last ts) : Rel G b (consumeAll G b ts).1 (consumeAll G b ts).2 := by
  induction ts generalizing b with
  | nil => exact Rel.refl G b hc
  | cons t rest ih =>
    simp only [consumeAll]
    have h1 := rel_tryConsume G b t hc hm.1
    have hlast : (b.tryConsume G t).1.last = t := by
      unfold tryConsume; split <;> exact refill_last G b t hm.1
    have h2 := ih (b.tryConsume G t).1 h1.capped (by rw [hlast]; exact hm.2)
    exact Rel.trans h1 h2

/-- **Token-bucket bound, any call pattern.**  From any bucket state, over any sequence of
    `try_consume` calls at the readings of a monotone clock, `admitted ≤ tokens_at_start +
    rate·elapsed ≤ burst + rate·elapsed` (in exact arithmetic; `G` units per token). -/
theorem C19_bucket_bound (G : Nat) (b : Bucket) (ts : List Nat) (hc : b.tokens ≤ b.cap * G)
    (hm : Monotone b.last ts) :
    (consumeAll G b ts).2 * G ≤ b.cap * G + ((consumeAll G b ts).1.last - b.last) * b.rate := by
  have h := consumeAll_rel G b ts hc hm
  have := h.conserve
  omega

/-- **…over any window of a longer history**: counting from the first call `t₁` of the window
    (whatever happened before — the state is any capped bucket), the calls at `t₁ ≤ t₂ ≤ … ≤ tₙ`
    admit at most `burst + rate·(tₙ − t₁)` requests. -/
theorem C19_window_bound (G : Nat) (b : Bucket) (t1 : Nat) (ts : List Nat)
    (hc : b.tokens ≤ b.cap * G) (hm : Monotone b.last (t1 :: ts)) :
    (consumeAll G b (t1 :: ts)).2 * G ≤
      b.cap * G + ((consumeAll G b (t1 :: ts)).1.last - t1) * b.rate := by
  -- the first call refills up to t₁; from there the conservation law applies with a full cap
  have hr := rel_refill G b t1 hc hm.1
  have hl := refill_last G b t1 hm.1
  have hidem : (b.refill G t1).tryConsume G t1 = b.tryConsume G t1 := by
    unfold tryConsume
    rw [refill_idem G b t1 hm.1]
  have hsame : consumeAll G (b.refill G t1) (t1 :: ts) = consumeAll G b (t1 :: ts) := by
    simp only [consumeAll, hidem]
  have h := consumeAll_rel G (b.refill G t1) (t1 :: ts) hr.capped (by rw [hl]; exact ⟨Nat.le_refl _, hm.2⟩)
  rw [hsame] at h
  have hcv := h.conserve
  have hcap := hr.capped
  rw [hl] at hcv
  have : (b.refill G t1).rate = b.rate := hr.rate
  have hcap2 : (b.refill G t1).cap = b.cap := hr.cap
  rw [this] at hcv
  rw [hcap2] at hcap
  omega

/-- **The global limit under every interleaving.**  The global bucket is only ever touched by
    `try_consume` under its mutex and is never refunded; the clock is read inside the critical
    section, so whatever the interleaving of callers the bucket sees one sequence of calls at
    monotone readings — `C19_bucket_bound` / `C19_window_bound` apply verbatim. -/
theorem C19_global_all_schedules (G : Nat) (g : Bucket) (lockOrder : List Nat)
    (hc : g.tokens ≤ g.cap * G) (hm : Monotone g.last lockOrder) :
    (consumeAll G g lockOrder).2 * G ≤ g.cap * G + ((consumeAll G g lockOrder).1.last - g.last) * g.rate :=
  C19_bucket_bound G g lockOrder hc hm

/-- **A refusal by the global limit does not consume the tenant's budget**: after the refund
    the tenant bucket holds exactly what the refill alone would have given it. -/
theorem C19_refund_restores (G : Nat) (b : Bucket) (now : Nat) (hc : b.tokens ≤ b.cap * G)
    (hnow : b.last ≤ now) (hok : (b.tryConsume G now).2 = true) :
    ((b.tryConsume G now).1.refundOne G).tokens = (b.refill G now).tokens := by
  have hr := rel_refill G b now hc hnow
  unfold tryConsume at hok ⊢
  split at hok
  · rename_i hge
    simp only [hge, ↓reduceIte, refundOne]
    have := hr.capped
    rw [Nat.min_def]
    split <;> omega
  · cases hok

/-- one `check_limit` call moves the tenant's bucket along the conservation law, counting the
    call only if it was admitted (a refunded consume counts 0) -/
theorem checkLimit_tenant_rel (G : Nat) (r : RateLimiter) (t qps cNew cT cG : Nat) (b : Bucket)
    (hb : r.lookup t = some b) (hc : b.tokens ≤ b.cap * G) (hnow : b.last ≤ cT) :
    ∃ b', (r.checkLimit G t qps cNew cT cG).1.lookup t = some b' ∧
      Rel G b b' (if (r.checkLimit G t qps cNew cT cG).2.1 then 1 else 0) := by
  have hlk : ∀ (r' : RateLimiter) (x : Bucket), (r'.setTenant t x).lookup t = some x := by
    intro r' x; simp [RateLimiter.lookup, RateLimiter.setTenant]
  have hlk2 : ∀ (r' : RateLimiter) (x : Bucket) (g : Option Bucket),
      ({ (r'.setTenant t x) with global := g } : RateLimiter).lookup t = some x := by
    intro r' x g; simp [RateLimiter.lookup, RateLimiter.setTenant]
  have h1 := rel_tryConsume G b cT hc hnow
  unfold RateLimiter.checkLimit
  simp only [hb]
  cases hok : (b.tryConsume G cT).2 with
  | false =>
    rw [hok] at h1
    simp only [Bool.not_false, ↓reduceIte]
    exact ⟨_, hlk _ _, by simpa using h1⟩
  | true =>
    rw [hok] at h1
    simp only [Bool.not_true, Bool.false_eq_true, ↓reduceIte]
    cases hg : r.global with
    | none => exact ⟨_, hlk _ _, by simpa using h1⟩
    | some g =>
      simp only
      split
      · exact ⟨_, hlk2 _ _ _, by simpa using h1⟩
      · refine ⟨_, hlk2 _ _ _, ?_⟩
        simp only [Bool.false_eq_true, ↓reduceIte]
        exact rel_refund G b _ 0 (by simpa using h1)

/-- **A tenant with a token is not refused while the global budget has one.** -/
theorem C19_no_spurious_refusal (G : Nat) (r : RateLimiter) (t qps cNew cT cG : Nat)
    (b g : Bucket) (hb : r.lookup t = some b) (hg : r.global = some g)
    (ht : (b.refill G cT).tokens ≥ G) (hgt : (g.refill G cG).tokens ≥ G) :
    (r.checkLimit G t qps cNew cT cG).2.1 = true := by
  have h1 : (b.tryConsume G cT).2 = true := by
    unfold tryConsume; rw [if_pos ht]
  have h2 : (g.tryConsume G cG).2 = true := by
    unfold tryConsume; rw [if_pos hgt]
  unfold RateLimiter.checkLimit
  simp [hb, hg, h1, h2]

/-- the full per-tenant statement under concurrency, kept visible.  It is NOT a theorem of the
    faithful model: between "global refused" and "refund" another caller can drain the refilled
    bucket, so a window can see `burst + rate·Δ + (#callers stalled before their refund)`
    admissions.  Known finding KF-C19-refund-window (replayed by the scheduler check). -/
def TenantAllSchedulesStatement : Prop :=
  ∀ (G : Nat) (b : Bucket) (events : List (Nat × Bool)),   -- (clock reading, is-refund)
    b.tokens ≤ b.cap * G →
    (events.foldl (fun (acc : Bucket × Nat) ev =>
        if ev.2 then (acc.1.refundOne G, acc.2)
        else ((acc.1.tryConsume G ev.1).1, acc.2 + if (acc.1.tryConsume G ev.1).2 then 1 else 0))
      (b, 0)).2 * G ≤ b.cap * G + ((events.map (·.1)).foldl max b.last - b.last) * b.rate

/-- witness refuting it: rate 1/s, burst 1; a consume at t=0 (to be refunded), the bucket
    refills, a consume at t=1s is admitted, then the late refund arrives and a third consume
    at t=1s is admitted too: 3 admissions where `1 + 1·1` is the bound. -/
theorem C19_refund_window_witness : ¬ TenantAllSchedulesStatement := by
  intro h
  have := h 1000 ⟨1, 1, 1000, 0⟩ [(0, false), (1000, false), (1000, true), (1000, false)] (by decide)
  revert this
  decide

/-! ### non-vacuity -/
example : (consumeAll 1000 (Bucket.new 1000 2 0) [0, 0, 0, 500, 500, 1000]).2 = 4 := by decide
example : Monotone 0 [0, 0, 0, 500, 500, 1000] := by simp [Monotone]

end KyroModel.C19
