/-
C13 — Strict recovery never silently returns damaged state.

Property statements only.  `d` ranges over the data directories left by ANY history
(`DInv d docs ns`, established for every reachable directory by `einv_pRun`), faults are the
`Damage` classes of `Persist/Damage.lean` — what the per-file readers report about the damaged
file (tie: `./check C13` feeds the real readers' view of every enumerated byte fault to this
model and compares the real strict start-up with `recoverAfter`).

The full statement `StrictDamageStatement` is FALSE of the code and of the model
(`C13_statement_false`, three independent witnesses — known findings).  What is proved for every
history is `C13_partial`: every fault class the format can see is refused or harmless; and
`C13_silent_prefix_always_starts` shows the unseen class is accepted after every history, not
only in the witnesses.
-/
import KyroModel.Lemmas.Damage
import KyroModel.Lemmas.PersistHistory
import KyroModel.Lemmas.Codec

namespace KyroModel.C13
open KyroModel

def Refuses (r : Except RecErr (Docs × Nat)) : Prop := ∃ e, r = .error e
def Yields (r : Except RecErr (Docs × Nat)) (docs : Docs) : Prop :=
  ∃ x mx, r = .ok (x, mx) ∧ MapEq x docs

/-- the property for one directory and one fault: start-up refuses, or yields exactly the
    pre-damage collection -/
def Holds (d : Disk) (docs : Docs) (dmg : Damage) : Prop :=
  Refuses (recoverAfter d dmg) ∨ Yields (recoverAfter d dmg) docs

/-! ### faults the format detects -/

theorem C13_manifest_removed (d : Disk) : recoverAfter d .manifestGone = .error .noManifest := rfl

theorem C13_manifest_unparsable (d : Disk) :
    recoverAfter d .manifestUnparsable = .error .manifestUnreadable := rfl

/-- a listed segment is removed -/
theorem C13_listed_segment_removed (d : Disk) (docs : Docs) (ns : Nat) (h : DInv d docs ns)
    (m : Manifest) (hm : d.manifest = some m) (n : Nat) (hn : n ∈ m.segs) :
    Refuses (recoverAfter d (.walGone n)) :=
  recover_bad_seg (d.damage (.walGone n)) m hm n hn (Or.inl (alookup_aerase_self n d.wals))

/-- a listed segment cannot be opened (magic damaged, file shorter than the magic) -/
theorem C13_listed_segment_unopenable (d : Disk) (docs : Docs) (ns : Nat) (h : DInv d docs ns)
    (m : Manifest) (hm : d.manifest = some m) (n : Nat) (hn : n ∈ m.segs) :
    Refuses (recoverAfter d (.walOpenFails n)) := by
  obtain ⟨m', hm', hs, _⟩ := h
  rw [hm] at hm'; cases hm'
  obtain ⟨w, hw, _, _⟩ := hs n hn
  have hd : d.damage (.walOpenFails n) = { d with wals := aset n { w with badMagic := true } d.wals } := by
    simp [Disk.damage, hw]
  show Refuses (recover (d.damage (.walOpenFails n)))
  rw [hd]
  exact recover_bad_seg _ m hm n hn (Or.inr ⟨_, alookup_aset_self _ _ _, Or.inl rfl⟩)

/-- the reader counts at least one frame of a listed segment as corrupted (checksum mismatch,
    undecodable payload, zero or oversized length) -/
theorem C13_listed_segment_corrupt_frames (d : Disk) (docs : Docs) (ns : Nat) (h : DInv d docs ns)
    (m : Manifest) (hm : d.manifest = some m) (n : Nat) (hn : n ∈ m.segs) (seqs : List Nat)
    (c : Nat) (hc : 0 < c) : Refuses (recoverAfter d (.walSees n seqs c)) := by
  obtain ⟨m', hm', hs, _⟩ := h
  rw [hm] at hm'; cases hm'
  obtain ⟨w, hw, _, _⟩ := hs n hn
  have hd : d.damage (.walSees n seqs c) = { d with wals := aset n (w.seen seqs c) d.wals } := by
    simp [Disk.damage, hw]
  show Refuses (recover (d.damage (.walSees n seqs c)))
  rw [hd]
  exact recover_bad_seg _ m hm n hn (Or.inr ⟨_, alookup_aset_self _ _ _, Or.inr hc⟩)

/-- the pointed snapshot is removed or unreadable and the directory holds no other readable
    snapshot -/
theorem C13_pointed_snapshot_no_fallback (d : Disk) (m : Manifest) (hm : d.manifest = some m)
    (p : Nat) (hp : m.snap = some p) (hothers : ∀ k, k ≠ p → (alookup k d.snaps).join = none)
    (dmg : Damage) (hd : dmg = .snapGone p ∨ dmg = .snapUnreadable p) :
    recoverAfter d dmg = .error .snapshotUnreadable := by
  have key : ∀ d' : Disk, d'.manifest = some m → (∀ k, (alookup k d'.snaps).join = none) →
      recover d' = .error .snapshotUnreadable := by
    intro d' hm' hall
    rw [recover_unfold d' m hm']
    simp [snapStage, hp, loadSnapshot_none d' p hall]
  rcases hd with rfl | rfl
  · show recover (d.damage (.snapGone p)) = _
    refine key { d with snaps := aerase p d.snaps } hm ?_
    intro k
    by_cases hk : k = p
    · subst hk; simp [Disk.damage, alookup_aerase_self]
    · simp only [Disk.damage, alookup_aerase_ne p k _ hk]; exact hothers k hk
  · show recover (d.damage (.snapUnreadable p)) = _
    cases hl : alookup p d.snaps with
    | none =>
      have : d.damage (.snapUnreadable p) = d := by simp [Disk.damage, hl]
      rw [this]
      apply key d hm
      intro k
      by_cases hk : k = p
      · subst hk; simp [hl]
      · exact hothers k hk
    | some o =>
      have : d.damage (.snapUnreadable p) = { d with snaps := aset p none d.snaps } := by
        simp [Disk.damage, hl]
      rw [this]
      refine key { d with snaps := aset p none d.snaps } hm ?_
      intro k
      by_cases hk : k = p
      · subst hk; simp
      · simp only [alookup_aset_ne p k _ _ hk]; exact hothers k hk

/-! ### faults that touch nothing recovery reads -/

/-- any fault on a segment file the MANIFEST does not list -/
theorem C13_unlisted_segment_harmless (d : Disk) (docs : Docs) (ns : Nat) (h : DInv d docs ns)
    (m : Manifest) (hm : d.manifest = some m) (n : Nat) (hn : n ∉ m.segs) (dmg : Damage)
    (hd : dmg = .walGone n ∨ dmg = .walOpenFails n ∨ ∃ seqs c, dmg = .walSees n seqs c) :
    Yields (recoverAfter d dmg) docs := by
  obtain ⟨r, mx, hr, heq, _⟩ := recover_of_DInv d docs ns h
  have hne : ∀ k ∈ m.segs, k ≠ n := fun k hk e => hn (e ▸ hk)
  have : recoverAfter d dmg = recover d := by
    rcases hd with rfl | rfl | ⟨seqs, c, rfl⟩
    · exact recover_congr d _ m hm hm
        (fun k hk => alookup_aerase_ne n k _ (hne k hk)) rfl
    · show recover (d.damage (.walOpenFails n)) = recover d
      cases hl : alookup n d.wals with
      | none => simp [Disk.damage, hl]
      | some w =>
        have e : d.damage (.walOpenFails n) = { d with wals := aset n { w with badMagic := true } d.wals } := by
          simp [Disk.damage, hl]
        rw [e]
        exact recover_congr d _ m hm hm (fun k hk => alookup_aset_ne n k _ _ (hne k hk)) rfl
    · show recover (d.damage (.walSees n seqs c)) = recover d
      cases hl : alookup n d.wals with
      | none => simp [Disk.damage, hl]
      | some w =>
        have e : d.damage (.walSees n seqs c) = { d with wals := aset n (w.seen seqs c) d.wals } := by
          simp [Disk.damage, hl]
        rw [e]
        exact recover_congr d _ m hm hm (fun k hk => alookup_aset_ne n k _ _ (hne k hk)) rfl
  rw [this]
  exact ⟨r, mx, hr, heq⟩

/-- any fault on a snapshot file the MANIFEST does not point to -/
theorem C13_unpointed_snapshot_harmless (d : Disk) (docs : Docs) (ns : Nat) (h : DInv d docs ns)
    (m : Manifest) (hm : d.manifest = some m) (k : Nat) (hk : m.snap ≠ some k) (dmg : Damage)
    (hd : dmg = .snapGone k ∨ dmg = .snapUnreadable k) : Yields (recoverAfter d dmg) docs := by
  obtain ⟨r, mx, hr, heq, _⟩ := recover_of_DInv d docs ns h
  obtain ⟨m', hm', _, hp, _⟩ := h
  rw [hm] at hm'; cases hm'
  have stage : ∀ d' : Disk, (∀ p, m.snap = some p → alookup p d'.snaps = alookup p d.snaps) →
      snapStage d' m = snapStage d m := by
    intro d' hsame
    cases hsn : m.snap with
    | none => simp [snapStage, hsn]
    | some p =>
      obtain ⟨s, hs⟩ := hp p hsn
      rw [snapStage_primary d m p s hsn hs, snapStage_primary d' m p s hsn (by rw [hsame p hsn, hs])]
  have : recoverAfter d dmg = recover d := by
    rcases hd with rfl | rfl
    · refine recover_congr d _ m hm hm (fun _ _ => rfl) (stage _ ?_)
      intro p hpn
      have : p ≠ k := fun e => hk (e ▸ hpn)
      exact alookup_aerase_ne k p _ this
    · show recover (d.damage (.snapUnreadable k)) = recover d
      cases hl : alookup k d.snaps with
      | none => simp [Disk.damage, hl]
      | some o =>
        have e : d.damage (.snapUnreadable k) = { d with snaps := aset k none d.snaps } := by
          simp [Disk.damage, hl]
        rw [e]
        refine recover_congr d _ m hm hm (fun _ _ => rfl) (stage _ ?_)
        intro p hpn
        have : p ≠ k := fun e => hk (e ▸ hpn)
        exact alookup_aset_ne k p _ _ this
  rw [this]
  exact ⟨r, mx, hr, heq⟩

/-! ### the fault class the format cannot see -/

/-- **After every history**, a listed segment that reads back as ANY subset of its frames with
    no frame counted as corrupted — what truncation at any length and many flips of a frame's
    length field produce (see `Codec`) — lets strict start-up SUCCEED. -/
theorem C13_silent_prefix_always_starts (d : Disk) (docs : Docs) (ns : Nat) (h : DInv d docs ns)
    (n : Nat) (seqs : List Nat) : ∃ r mx, recoverAfter d (.walSees n seqs 0) = .ok (r, mx) := by
  obtain ⟨m, hm, hs, hp, _⟩ := h
  show ∃ r mx, recover (d.damage (.walSees n seqs 0)) = .ok (r, mx)
  cases hl : alookup n d.wals with
  | none =>
    have : d.damage (.walSees n seqs 0) = d := by simp [Disk.damage, hl]
    rw [this]
    exact ⟨_, _, recover_eq d m hm hs hp⟩
  | some w =>
    have e : d.damage (.walSees n seqs 0) = { d with wals := aset n (w.seen seqs 0) d.wals } := by
      simp [Disk.damage, hl]
    rw [e]
    refine ⟨_, _, recover_eq _ m hm ?_ hp⟩
    intro k hk
    by_cases hkn : k = n
    · subst hkn; exact ⟨_, alookup_aset_self _ _ _, rfl, rfl⟩
    · simp only [alookup_aset_ne n k _ _ hkn]; exact hs k hk

/-! ### the statement, its refutation, and the part that holds -/

/-- faults outside the property's exclusion ("loss confined to a truncated tail of the newest
    log segment"): at this level every frame-subset view of the LAST listed segment is excluded,
    which excludes more than the property does -/
def Admissible (d : Disk) : Damage → Prop
  | .walSees n _ 0 => ∀ m, d.manifest = some m → m.segs.getLast? ≠ some n
  | _ => True

/-- C13 as stated, over every history and every admissible fault -/
def StrictDamageStatement : Prop :=
  ∀ (cfg : PCfg) (ops : List POp), (∀ op ∈ ops, op.valid) → ∀ dmg,
    Admissible (pRun cfg ops).2 dmg → Holds (pRun cfg ops).2 (pRun cfg ops).1.store.docs dmg

def recIdsAfter (d : Disk) (dmg : Damage) (ids : List Nat) : Option (List Bool) :=
  match recoverAfter d dmg with
  | .ok (docs, _) => some (ids.map fun id => (alookup id docs).isSome)
  | .error _ => none

def pointedSnap (d : Disk) : Nat := ((d.manifest.bind (·.snap))).getD 0

/-- W1 (KF-C13-wal-silent-prefix): rotation after every frame; the first, no longer newest,
    segment reads back empty (truncated to its magic / length field of its frame flipped):
    start-up succeeds without document 1 -/
theorem C13_witness_old_segment_prefix :
    let ops : List POp := [.insert 1 [10] [] .yes 60 52, .insert 2 [20] [] .yes 60 52]
    let d := (pRun ⟨0, 1, 10⟩ ops).2
    (d.manifest.map (·.segs), recIdsAfter d (.walSees 0 [] 0) [1, 2]) =
      (some [0, 1, 2], some [false, true]) := by decide

/-- W2 (KF-C13-snapshot-fallback): two snapshots, the second compacted the segment holding
    document 2; the newest snapshot becomes unreadable: start-up falls back to the older one and
    succeeds without document 2 -/
theorem C13_witness_snapshot_fallback :
    let ops : List POp := [.insert 1 [10] [] .yes 60 52, .snapshot, .insert 2 [20] [] .yes 60 52, .snapshot]
    let d := (pRun ⟨0, 1, 10⟩ ops).2
    (recIdsAfter d (.snapUnreadable (pointedSnap d)) [1, 2], recIdsAfter d (.snapGone (pointedSnap d)) [1, 2])
      = (some [true, false], some [true, false]) := by decide

/-- W3 (KF-C13-manifest-unchecksummed): the MANIFEST parses, but without its snapshot pointer
    (one flipped bit in the key): start-up succeeds from the remaining segments alone -/
theorem C13_witness_manifest_pointer_lost :
    let ops : List POp := [.insert 1 [10] [] .yes 60 52, .snapshot, .insert 2 [20] [] .yes 60 52]
    let d := (pRun ⟨0, 1, 10⟩ ops).2
    (d.manifest.map fun m => recIdsAfter d (.manifestIs { m with snap := none }) [1, 2])
      = some (some [false, true]) := by decide

/-- decidable refutation of `Holds`: start-up succeeds and some id of `ids` is present in one of
    recovered / pre-damage collection but not in the other -/
def violates (d : Disk) (live : Docs) (dmg : Damage) (ids : List Nat) : Bool :=
  match recoverAfter d dmg with
  | .ok (docs, _) => ids.any fun id => (alookup id docs).isSome != (alookup id live).isSome
  | .error _ => false

theorem not_holds_of_violates (d : Disk) (live : Docs) (dmg : Damage) (ids : List Nat)
    (h : violates d live dmg ids = true) : ¬ Holds d live dmg := by
  unfold violates at h
  intro hh
  cases hr : recoverAfter d dmg with
  | error e => simp [hr] at h
  | ok p =>
    obtain ⟨docs, mx⟩ := p
    simp only [hr, List.any_eq_true] at h
    obtain ⟨id, _, hid⟩ := h
    rcases hh with ⟨e, he⟩ | ⟨x, mx', hx, heq⟩
    · rw [hr] at he; cases he
    · rw [hr] at hx
      cases hx
      rw [heq id] at hid
      simp at hid

theorem C13_statement_false : ¬ StrictDamageStatement := by
  intro h
  have hv : ∀ op ∈ ([.insert 1 [10] [] .yes 60 52, .insert 2 [20] [] .yes 60 52] : List POp), op.valid := by
    intro op hop
    simp only [List.mem_cons, List.not_mem_nil, or_false] at hop
    rcases hop with rfl | rfl <;> simp [POp.valid]
  have hA : Admissible (pRun ⟨0, 1, 10⟩ [.insert 1 [10] [] .yes 60 52, .insert 2 [20] [] .yes 60 52]).2
      (.walSees 0 [] 0) := by
    intro m hm
    have hw := C13_witness_old_segment_prefix
    simp only [hm, Option.map_some, Prod.mk.injEq, Option.some.injEq] at hw
    rw [hw.1]
    decide
  exact not_holds_of_violates _ _ _ [1, 2] (by decide) (h ⟨0, 1, 10⟩ _ hv (.walSees 0 [] 0) hA)

/-- fault classes the format detects or that touch nothing recovery reads -/
def Covered (d : Disk) (m : Manifest) : Damage → Prop
  | .manifestGone => True
  | .manifestUnparsable => True
  | .manifestIs _ => False
  | .walGone _ => True
  | .walOpenFails _ => True
  | .walSees n _ c => 0 < c ∨ n ∉ m.segs
  | .snapGone k => m.snap ≠ some k ∨ ∀ j, j ≠ k → (alookup j d.snaps).join = none
  | .snapUnreadable k => m.snap ≠ some k ∨ ∀ j, j ≠ k → (alookup j d.snaps).join = none

/-- **C13, the part that holds, for every history**: removal of the MANIFEST or of any segment,
    an unparsable MANIFEST, an unopenable segment, any segment in which the reader sees a
    corrupted frame, any fault on unlisted segments or unpointed snapshots, and loss of the pointed
    snapshot when no older one is readable — start-up refuses or yields exactly the pre-damage
    collection. -/
theorem C13_partial (d : Disk) (docs : Docs) (ns : Nat) (h : DInv d docs ns) (m : Manifest)
    (hm : d.manifest = some m) (dmg : Damage) (hc : Covered d m dmg) : Holds d docs dmg := by
  cases dmg with
  | manifestGone => exact Or.inl ⟨_, C13_manifest_removed d⟩
  | manifestUnparsable => exact Or.inl ⟨_, C13_manifest_unparsable d⟩
  | manifestIs _ => exact hc.elim
  | walGone n =>
    by_cases hn : n ∈ m.segs
    · exact Or.inl (C13_listed_segment_removed d docs ns h m hm n hn)
    · exact Or.inr (C13_unlisted_segment_harmless d docs ns h m hm n hn _ (Or.inl rfl))
  | walOpenFails n =>
    by_cases hn : n ∈ m.segs
    · exact Or.inl (C13_listed_segment_unopenable d docs ns h m hm n hn)
    · exact Or.inr (C13_unlisted_segment_harmless d docs ns h m hm n hn _ (Or.inr (Or.inl rfl)))
  | walSees n seqs c =>
    by_cases hn : n ∈ m.segs
    · rcases hc with hc | hc
      · exact Or.inl (C13_listed_segment_corrupt_frames d docs ns h m hm n hn seqs c hc)
      · exact (hc hn).elim
    · exact Or.inr (C13_unlisted_segment_harmless d docs ns h m hm n hn _ (Or.inr (Or.inr ⟨seqs, c, rfl⟩)))
  | snapGone k =>
    by_cases hk : m.snap = some k
    · rcases hc with hc | hc
      · exact (hc hk).elim
      · exact Or.inl ⟨_, C13_pointed_snapshot_no_fallback d m hm k hk hc _ (Or.inl rfl)⟩
    · exact Or.inr (C13_unpointed_snapshot_harmless d docs ns h m hm k hk _ (Or.inl rfl))
  | snapUnreadable k =>
    by_cases hk : m.snap = some k
    · rcases hc with hc | hc
      · exact (hc hk).elim
      · exact Or.inl ⟨_, C13_pointed_snapshot_no_fallback d m hm k hk hc _ (Or.inr rfl)⟩
    · exact Or.inr (C13_unpointed_snapshot_harmless d docs ns h m hm k hk _ (Or.inr rfl))

/-- …instantiated at the directory left by any history -/
theorem C13_partial_reachable (cfg : PCfg) (ops : List POp) (hv : ∀ op ∈ ops, op.valid)
    (m : Manifest) (hm : (pRun cfg ops).2.manifest = some m) (dmg : Damage)
    (hc : Covered (pRun cfg ops).2 m dmg) :
    Holds (pRun cfg ops).2 (pRun cfg ops).1.store.docs dmg :=
  C13_partial _ _ _ (einv_pRun cfg ops hv).dinv m hm dmg hc

/-- non-vacuity: a reachable directory with a snapshot, three listed segments, and covered faults
    of both kinds (refused / harmless) -/
example :
    let ops : List POp := [.insert 1 [10] [] .yes 60 52, .snapshot, .insert 2 [20] [] .yes 60 52]
    let d := (pRun ⟨0, 1, 10⟩ ops).2
    (recIdsAfter d (.walGone 3) [1, 2], recIdsAfter d (.walGone 0) [1, 2],
     recIdsAfter d (.walSees 3 [] 1) [1, 2]) = (none, some [true, true], none) := by decide

/-! ### byte level: which damage produces which view (`Persist/Codec.lean`) -/
open KyroModel.Codec in
/-- what the writer wrote is what the reader reads, nothing counted corrupted -/
theorem C13_codec_roundtrip (crc : Bytes → Nat) (ps : List Bytes) (hv : ∀ p ∈ ps, Valid crc p) :
    readFile crc (encodeFile crc ps) = some ⟨ps, 0⟩ := by
  have hl : (encodeFile crc ps).length = 4 + (encode crc ps).length := by simp [encodeFile, magic]; omega
  have hfl : ∀ qs : List Bytes, qs.length ≤ (encode crc qs).length := by
    intro qs
    induction qs with
    | nil => simp
    | cons q rest ih => rw [encode_cons, List.length_append, frame_length]; simp; omega
  unfold readFile
  rw [if_neg (by omega)]
  have ht : (encodeFile crc ps).take 4 = magic := List.take_left' rfl
  have hd : (encodeFile crc ps).drop 4 = encode crc ps := List.drop_left' rfl
  rw [if_pos ht, hd, scan_encode crc ps hv _ (by have := hfl ps; omega)]

open KyroModel.Codec in
/-- **byte-level root of KF-C13-wal-silent-prefix**: a segment body cut at ANY length reads as a
    clean segment holding a prefix of its frames -/
theorem C13_truncation_reads_clean (crc : Bytes → Nat) (ps : List Bytes)
    (hv : ∀ p ∈ ps, Valid crc p) (k fuel : Nat) (hf : ps.length ≤ fuel) :
    ∃ j, j ≤ ps.length ∧ scan crc fuel ((encode crc ps).take k) = ⟨ps.take j, 0⟩ :=
  scan_truncated crc ps hv k fuel hf

open KyroModel.Codec in
/-- a frame whose stored checksum does not match its payload (flipped payload or checksum bit,
    given that the checksum function tells the two payloads apart) is counted as corrupted —
    hence refused by `C13_listed_segment_corrupt_frames` -/
theorem C13_checksum_mismatch_counted (crc : Bytes → Nat) (pre : List Bytes)
    (hv : ∀ p ∈ pre, Valid crc p) (q : Bytes) (c : Nat) (hq : 0 < q.length ∧ q.length ≤ maxEntry)
    (hc : c < 4294967296) (hbad : c ≠ crc q) (tail : Bytes) (fuel : Nat) :
    0 < (scan crc (pre.length + (fuel + 1))
          (encode crc pre ++ (le32 q.length ++ q ++ le32 c ++ tail))).corrupted :=
  scan_checksum_mismatch crc pre hv q c hq hc hbad tail fuel

open KyroModel.Codec in
/-- **byte-level root of the length-field findings**: a length value within the size limit that
    runs past the end of the file ends the scan with nothing counted, in any segment -/
theorem C13_length_past_eof_silent (crc : Bytes → Nat) (pre : List Bytes)
    (hv : ∀ p ∈ pre, Valid crc p) (len : Nat) (h0 : 0 < len) (hmax : len ≤ maxEntry) (rest : Bytes)
    (hr : rest.length < len + 4) (fuel : Nat) :
    scan crc (pre.length + fuel) (encode crc pre ++ (le32 len ++ rest)) = ⟨pre, 0⟩ :=
  scan_length_past_eof crc pre hv len h0 hmax rest hr fuel

/-- non-vacuity of the byte-level hypotheses -/
example : Codec.Valid (fun _ => 7) [1, 2, 3] := ⟨by decide, by decide, by decide⟩

end KyroModel.C13
