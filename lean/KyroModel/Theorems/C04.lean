/-
C04 — Lookups by id return the canonical latest version whatever the caches hold.

Property statements only.  Model: `KyroModel/Tiered/Model.lean`, tied to
engine/src/{tiered_engine,hot_tier,vector_cache,cache_strategy,coherence,hnsw_backend}.rs by
the `tiered` correspondence run of `./check C04`.

Shape: refinement to the abstract map `view s : id ↦ (vector, metadata)` of the canonical
store.  Reads are proved correct for *arbitrary* cache and mirror contents (that is the
"deliberately stale or corrupted entries" clause); writes are proved to move `view` exactly as
the map specification says, and drains / audits / reads to leave it alone.
-/
import KyroModel.Lemmas.HotSubCold

namespace KyroModel.C04
open KyroModel

section
variable {D : Type} [DecidableEq D] (digest : Vec → D)

/-- the abstract collection: what a lookup by id must return -/
def view (s : TState D) (id : Nat) : Option (Vec × Meta) :=
  (alookup id s.cold).map fun d => (d.vec, d.md)

/-- **The canonical check is sound**: a payload that passes it is the canonical vector. -/
theorem C04_canonical_check_sound (hinj : Function.Injective digest) (cold : Cold) (id : Nat)
    (v : Vec) (t : Token D) (h : canonicalState digest cold id v t = .matched) :
    ∃ d, alookup id cold = some d ∧ d.vec = v :=
  let ⟨d, h1, h2, _⟩ := canonicalState_matched digest hinj cold id v t h
  ⟨d, h1, h2⟩

variable (hinj : Function.Injective digest)
include hinj

/-- **Point query.**  For every state — any L1a contents, any mirror contents, any admission
    decision — `query` returns exactly the canonical vector (or not-found) and does not touch
    the canonical store. -/
theorem C04_query (s : TState D) (id : Nat) (adm : Bool) :
    (query digest s id adm).2.map (·.1) = (view s id).map (·.1) ∧
    (query digest s id adm).1.cold = s.cold := by
  have := query_spec digest hinj s id adm
  refine ⟨?_, this.1⟩
  rw [this.2]; unfold view; cases alookup id s.cold <;> rfl

/-- **Read with metadata**: vector and metadata are those of the canonical record. -/
theorem C04_doc_with_meta (s : TState D) (id : Nat) :
    (docWithMeta digest s id).2 = view s id ∧ (docWithMeta digest s id).1.cold = s.cold :=
  ⟨(docWithMeta_spec digest hinj s id).2, (docWithMeta_spec digest hinj s id).1⟩

/-- **Response hydration** (`get_embedding_cache_aware`). -/
theorem C04_embedding_cache_aware (s : TState D) (id : Nat) :
    (embAware digest s id).2 = (view s id).map (·.1) ∧ (embAware digest s id).1.cold = s.cold := by
  have := embAware_spec digest hinj s id
  refine ⟨?_, this.1⟩
  rw [this.2]; unfold view; cases alookup id s.cold <;> rfl

omit hinj in
/-- **Metadata lookup and existence probe** read the canonical store only. -/
theorem C04_metadata_exists (s : TState D) (id : Nat) :
    getMeta s id = (view s id).map (·.2) ∧ existsDoc s id = (view s id).isSome := by
  unfold getMeta existsDoc view
  cases alookup id s.cold <;> exact ⟨rfl, rfl⟩

/-- **Bulk query**: position by position the canonical (vector, metadata) or not-found. -/
theorem C04_bulk_query (s : TState D) (ids : List Nat) :
    (bulkQuery digest s ids).2.map dropTier = ids.map (view s) ∧
    (bulkQuery digest s ids).1.cold = s.cold :=
  ⟨(bulkQuery_spec digest hinj s ids).2, (bulkQuery_spec digest hinj s ids).1⟩

omit hinj in
/-- **Writes refine the map, nothing else writes.**  In every state where each mirrored
    document has a canonical record (an invariant of all engine histories, see `C04_history`),
    each operation changes the canonical store exactly as the write API's map semantics
    (`specStep`) prescribes: drains, emergency evictions, audits, reads, cache plants — no change;
    a refused insert — no change. -/
theorem C04_writes_refine (s : TState D) (op : TOp D) (hs : HotSubCold s) (hadm : op.admissible s) :
    (applyOp digest s op).cold = specStep s.cold op :=
  (applyOp_refines digest s op hs hadm).1

omit hinj in
/-- **Draining or auditing never changes what is canonical (hence what any read returns, by the
    read theorems above) nor, since the model's only durable state is the canonical store, what
    is durable.** -/
theorem C04_drain_audit_noop (s : TState D) (force : Bool) (hs : HotSubCold s) :
    (flush digest s force).1.cold = s.cold ∧ (audit digest s).1.cold = s.cold :=
  ⟨(flush_hsc digest s force hs).1, (shrinks_audit digest s).2⟩

/-- admissibility of a whole history: no plant of a mirror for a non-canonical id -/
def Admissible (s : TState D) : List (TOp D) → Prop
  | [] => True
  | op :: rest => op.admissible s ∧ Admissible (applyOp digest s op) rest

omit hinj in
/-- **Any history.**  From the empty engine, after any admissible operation sequence (any
    length, any strategy / capacity / limits, any oracle inputs, cache plants and plants of
    stale/corrupt mirrors for canonical ids included) the canonical store equals the fold of
    the map specification over the operations — so by `C04_query` … `C04_bulk_query` every
    read returns the most recent successful write or not-found. -/
theorem C04_history (kind : StratKind) (cap hard soft dim : Nat) (ops : List (TOp D))
    (hadm : Admissible digest (TState.init D kind cap hard soft dim) ops) :
    (applyOps digest (TState.init D kind cap hard soft dim) ops).cold = ops.foldl specStep [] := by
  suffices h : ∀ (s : TState D), HotSubCold s → Admissible digest s ops →
      (applyOps digest s ops).cold = ops.foldl specStep s.cold by
    exact h _ (by intro id hid; simp [TState.init, akeys] at hid) hadm
  clear hadm
  intro s hs ha
  unfold applyOps
  induction ops generalizing s with
  | nil => rfl
  | cons op rest ih =>
    simp only [List.foldl_cons]
    have h1 := applyOp_refines digest s op hs ha.1
    rw [← h1.1]
    exact ih _ h1.2 ha.2

end

/-! ### The map specification really is a map (what `specStep` means for lookups) -/

theorem spec_insert_lookup (c : Cold) (id j : Nat) (v : Vec) (m : Meta) :
    (alookup j (c.insert id v m)).map (fun d => (d.vec, d.md)) =
      if j = id then some (v, m) else (alookup j c).map (fun d => (d.vec, d.md)) := by
  unfold Cold.insert
  by_cases h : j = id
  · subst h; simp
  · simp [h, alookup_aset_ne id j _ c h]

theorem spec_delete_lookup (c : Cold) (id j : Nat) :
    alookup j (c.delete id).1 = if j = id then none else alookup j c := by
  unfold Cold.delete
  by_cases h : j = id
  · subst h
    cases hl : alookup j c with
    | none => simp [hl]
    | some d => simp [alookup_aerase_self]
  · cases hl : alookup id c with
    | none => simp [h]
    | some d => simp [h, alookup_aerase_ne id j c h]

theorem spec_update_lookup (c : Cold) (id j : Nat) (m : Meta) (mg : Bool) :
    (alookup j (c.updateMeta id m mg).1).map (·.vec) = (alookup j c).map (·.vec) := by
  unfold Cold.updateMeta
  cases hl : alookup id c with
  | none => rfl
  | some d =>
    by_cases h : j = id
    · subst h; simp [hl]
    · simp [alookup_aset_ne id j _ c h]

/-! ### Witnesses -/

/-- a stale L1a entry (old version, right digest of the *old* vector) is not served -/
example :
    let s := applyOps (D := Vec) id (TState.init Vec .lru 2 4 100 2)
      [.insert 1 [1, 2] [] true, .pokeCache 1 [9, 9] ⟨1, [9, 9]⟩, .insert 1 [3, 4] [] true,
       .pokeCache 1 [1, 2] ⟨1, [1, 2]⟩]
    (query id s 1 true).2 = some ([3, 4], Tier.hot) := by decide

/-- a corrupted mirror (right token, wrong payload) is scrubbed and the canonical copy served -/
example :
    let s := applyOps (D := Vec) id (TState.init Vec .lru 2 4 100 2)
      [.insert 1 [1, 2] [] true, .pokeHot 1 [7, 7] [] ⟨1, [1, 2]⟩]
    (query id s 1 false).2 = some ([1, 2], Tier.cold) := by decide

/-- the history hypothesis is satisfiable by a non-trivial history -/
example : Admissible (D := Vec) id (TState.init Vec .ab 1 1 1 2)
    [.insert 1 [1, 2] [] true, .insert 2 [3, 4] [] true, .pokeHot 1 [5, 5] [] ⟨3, [0]⟩,
     .flush true, .delete 1, .query 1 true] := by
  simp only [Admissible, TOp.admissible, and_true, true_and]
  decide

end KyroModel.C04
