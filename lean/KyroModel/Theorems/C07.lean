/-
C07 — The query-result cache never serves stale or foreign results.

Property statements only.  Model: `Tiered/QueryCache.lean` (exactly the cache the `qcache`
correspondence run of `./check C07` / `./check C20` validates against `QueryHashCache`).

* `C07_served_entry`: whatever `get` answers is a prefix of an entry stored under the SAME scope
  with a requested k AT LEAST the wanted one (never a foreign scope, never a narrower entry
  widened);
* `C07_deleted_doc_not_served`, `C07_only_store_adds`: after `invalidate_doc d` no entry mentions
  `d`, and nothing but a later `store` can make the cache mention it again — so a deleted or
  overwritten document is not served from an older result;
* `C07_kept_entry_is_unaffected`: an entry that survives `invalidate_for_insert` is full, has a
  finite boundary and the inserted vector lies strictly outside it (the exact decision
  `mustDrop`, which the implementation's pre-filter may only short-cut towards "keep" — sound over
  the reals for every dimension by `PrefixBound.dot_prefilter_sound` / `l2_prefilter_sound`);
* `C07_stale_store_refused`, `C07_invalidation_advances_generation`,
  `C07_result_computed_before_write_is_not_stored`: a result carrying the generation read before
  a write is refused once that write's invalidation ran, after any number of further operations;
* schedule half at the level of the engine's steps: `Theorems/C07Conc.lean` (`C07_write_then_invalidate_is_fresh`: any
  number of writers and cacheable searches, any interleaving; `C07_invalidate_then_write_goes_stale`: the reversed order);
* `C07_clear_empties`: metadata updates, bulk loads and drift repairs (`clear`) leave nothing.
-/
import KyroModel.Lemmas.QCacheBound
import KyroModel.Theorems.C07Conc
import KyroModel.Lemmas.PrefixBound

namespace KyroModel.C07
open KyroModel KyroModel.QCache

theorem find?_mem (c : QCache) (k : QKey) (e : QEntry) (h : c.find? k = some e) :
    e ∈ c.entries ∧ e.key = k := find?_some_mem c.entries k e h

/-- **What is served**: a prefix of a stored entry of the same scope whose requested k covers the
    wanted one. -/
theorem C07_served_entry (c : QCache) (k : QKey) (want : Nat) (order : List (List Nat))
    (res : List (Nat × Nat)) (h : (c.get k want order).2 = some res) :
    ∃ e ∈ c.entries, e.key.1 = k.1 ∧ want ≤ e.reqK ∧ res = e.res.take want := by
  unfold QCache.get at h
  cases hf : c.find? k with
  | some e =>
    simp only [hf] at h
    split at h
    · rename_i hk
      obtain ⟨hm, hkey⟩ := find?_mem c k e hf
      simp only [Option.some.injEq] at h
      exact ⟨e, hm, by rw [hkey], hk, h.symm⟩
    · cases h
  | none =>
    simp only [hf] at h
    split at h
    · rename_i e rest heq
      simp only [Option.some.injEq] at h
      have hmem : e ∈ (order.filterMap fun qv => c.entries.find? fun e =>
          e.key.1 == k.1 && !(e.key == k) && e.q == qv && decide (e.reqK ≥ want)) := by
        rw [heq]; exact List.mem_cons_self ..
      obtain ⟨qv, _, hqv⟩ := List.mem_filterMap.mp hmem
      have h1 := List.mem_of_find?_eq_some hqv
      have h2 := List.find?_some hqv
      simp only [Bool.and_eq_true, beq_iff_eq, decide_eq_true_eq] at h2
      exact ⟨e, h1, h2.1.1.1, h2.2, h.symm⟩
    · cases h

def Mentions (c : QCache) (d : Nat) : Prop := ∃ e ∈ c.entries, d ∈ e.res.map (·.1)

/-- **A deleted / overwritten document is dropped from the cache**: after `invalidate_doc d` no
    entry mentions `d`. -/
theorem C07_deleted_doc_not_served (c : QCache) (d : Nat) : ¬ Mentions (c.invalidateDoc d).1 d := by
  rintro ⟨e, he, hd⟩
  simp only [QCache.invalidateDoc, List.mem_filter, Bool.not_eq_eq_eq_not, Bool.not_true,
    List.any_eq_false, beq_iff_eq] at he
  obtain ⟨x, hx, hxd⟩ := List.mem_map.mp hd
  exact he.2 x hx hxd

/-- every operation except `store` only removes or reorders entries -/
theorem C07_only_store_adds (c : QCache) (op : QOp) (hop : ∀ k q r res g, op ≠ .store k q r res g)
    (e : QEntry) (he : e ∈ (c.applyOp op).entries) : e ∈ c.entries := by
  cases op with
  | store k q r res g => exact (hop k q r res g rfl).elim
  | get k w o =>
    simp only [QCache.applyOp, QCache.get] at he
    have touch_sub : ∀ (kk : QKey) (x : QEntry), x ∈ (c.touch kk).entries → x ∈ c.entries := by
      intro kk x hx
      unfold QCache.touch at hx
      cases hf : c.find? kk with
      | none => simpa [hf] using hx
      | some y =>
        simp only [hf, List.mem_append, List.mem_singleton] at hx
        rcases hx with hx | rfl
        · exact (List.mem_filter.mp hx).1
        · exact (find?_mem c kk x hf).1
    cases hf : c.find? k with
    | some y =>
      simp only [hf] at he
      split at he
      · exact touch_sub k e he
      · exact he
    | none =>
      simp only [hf] at he
      split at he
      · exact touch_sub _ e he
      · exact he
  | invalidateDoc d =>
    simp only [QCache.applyOp, QCache.invalidateDoc] at he
    exact (List.mem_filter.mp he).1
  | invalidateForInsert h =>
    simp only [QCache.applyOp, QCache.invalidateForInsert] at he
    exact (List.mem_filter.mp he).1
  | clear => simp [QCache.applyOp, QCache.clear] at he

/-- so a document no entry mentions stays unmentioned through any store-free history -/
theorem C07_unmentioned_stays (c : QCache) (d : Nat) (ops : List QOp)
    (hops : ∀ op ∈ ops, ∀ k q r res g, op ≠ .store k q r res g) (h : ¬ Mentions c d) :
    ¬ Mentions (c.applyOps ops) d := by
  induction ops generalizing c with
  | nil => exact h
  | cons op rest ih =>
    simp only [QCache.applyOps, List.foldl_cons]
    apply ih
    · exact fun o ho => hops o (List.mem_cons_of_mem _ ho)
    · rintro ⟨e, he, hd⟩
      exact h ⟨e, C07_only_store_adds c op (hops op (List.mem_cons_self ..)) e he, hd⟩

/-- **An entry that survives an insert is unaffected by it**: it is full, and the exact decision
    for the distance between its query and the inserted vector is "keep" — finite boundary, and
    the vector strictly outside it. -/
theorem C07_kept_entry_is_unaffected (c : QCache) (dists : List ((Nat × List Nat) × Option Nat))
    (e : QEntry) (he : e ∈ (c.invalidateForInsert (c.hitKeys dists)).1.entries)
    (hk : (keys c.entries).Nodup) :
    e.reqK ≤ e.res.length ∧
    ∃ d, dists.find? (·.1 == (e.key.1, e.q)) = some ((e.key.1, e.q), d) ∧ mustDrop e d = false := by
  simp only [QCache.invalidateForInsert, List.mem_filter, Bool.not_eq_eq_eq_not, Bool.not_true,
    Bool.or_eq_false_iff, decide_eq_false_iff_not, Nat.not_lt] at he
  obtain ⟨hmem, hfull, hnot⟩ := he
  refine ⟨hfull, ?_⟩
  -- `e` is not among the hit keys although it is in the cache: its own decision was "keep"
  have hnk : e.key ∉ c.hitKeys dists := by simpa using hnot
  unfold QCache.hitKeys at hnk
  cases hf : dists.find? (·.1 == (e.key.1, e.q)) with
  | none =>
    exfalso
    apply hnk
    exact List.mem_map.mpr ⟨e, List.mem_filter.mpr ⟨hmem, by simp [hf]⟩, rfl⟩
  | some p =>
    obtain ⟨pk, d⟩ := p
    have hpk : pk = (e.key.1, e.q) := by
      have := List.find?_some hf
      simpa using this
    subst hpk
    refine ⟨d, rfl, ?_⟩
    cases hm : mustDrop e d with
    | false => rfl
    | true =>
      exfalso
      apply hnk
      exact List.mem_map.mpr ⟨e, List.mem_filter.mpr ⟨hmem, by simp [hf, hm]⟩, rfl⟩

/-- what "keep" means: not short, dimensions agree, finite boundary, the new vector strictly
    farther than the worst cached result -/
theorem C07_keep_means_strictly_outside (e : QEntry) (d : Option Nat) (h : mustDrop e d = false) :
    e.reqK ≤ e.res.length ∧ ∃ db w, d = some db ∧ worstKey e.res = some w ∧ w < f32Key db := by
  unfold mustDrop at h
  split at h
  · cases h
  · rename_i hs
    cases d with
    | none => simp at h
    | some db =>
      simp only at h
      cases hw : worstKey e.res with
      | none => simp [hw] at h
      | some w =>
        simp only [hw, Bool.or_eq_false_iff, decide_eq_false_iff_not, Nat.not_le] at h
        exact ⟨by omega, db, w, rfl, rfl, h.2⟩

/-- **A result computed before a write is not stored after it.** -/
theorem C07_stale_store_refused (c : QCache) (k : QKey) (q : List Nat) (r : Nat)
    (res : List (Nat × Nat)) (g : Nat) (hg : c.gen ≠ g) : c.store k q r res (some g) = (c, false) := by
  have : ((some g).isSome && (some g != some c.gen)) = true := by
    simp only [Option.isSome_some, Bool.true_and, bne_iff_ne, ne_eq, Option.some.injEq]
    exact fun e => hg e.symm
  simp only [QCache.store, this, ↓reduceIte]

def _root_.KyroModel.QOp.invalidates : QOp → Bool
  | .invalidateDoc _ | .invalidateForInsert _ | .clear => true
  | _ => false

theorem gen_mono_op (c : QCache) (op : QOp) :
    c.gen ≤ (c.applyOp op).gen ∧ (op.invalidates = true → c.gen < (c.applyOp op).gen) := by
  cases op with
  | store k q r res g =>
    have hgen : (c.store k q r res g).1.gen = c.gen := by
      simp only [QCache.store]
      split
      · rfl
      · split
        · split <;> rfl
        · rfl
    simp only [QCache.applyOp, QOp.invalidates, hgen]
    exact ⟨Nat.le_refl _, by simp⟩
  | get k w o =>
    have touch_gen : ∀ kk : QKey, (c.touch kk).gen = c.gen := by
      intro kk; unfold QCache.touch; split <;> rfl
    have hgen : (c.get k w o).1.gen = c.gen := by
      simp only [QCache.get]
      split
      · split
        · exact touch_gen _
        · rfl
      · split
        · exact touch_gen _
        · rfl
    simp only [QCache.applyOp, QOp.invalidates, hgen]
    exact ⟨Nat.le_refl _, by simp⟩
  | invalidateDoc d => simp [QCache.applyOp, QCache.invalidateDoc, QOp.invalidates]
  | invalidateForInsert h => simp [QCache.applyOp, QCache.invalidateForInsert, QOp.invalidates]
  | clear => simp [QCache.applyOp, QCache.clear, QOp.invalidates]

theorem C07_invalidation_advances_generation (c : QCache) (ops : List QOp)
    (h : ∃ op ∈ ops, QOp.invalidates op = true) : c.gen < (c.applyOps ops).gen := by
  induction ops generalizing c with
  | nil => obtain ⟨op, hop, _⟩ := h; cases hop
  | cons op rest ih =>
    simp only [QCache.applyOps, List.foldl_cons]
    have hmono : ∀ (l : List QOp) (x : QCache), x.gen ≤ (x.applyOps l).gen := by
      intro l
      induction l with
      | nil => intro x; exact Nat.le_refl _
      | cons o os ihh =>
        intro x
        simp only [QCache.applyOps, List.foldl_cons]
        exact Nat.le_trans (gen_mono_op x o).1 (ihh _)
    obtain ⟨o, ho, hinv⟩ := h
    rcases List.mem_cons.mp ho with rfl | hr
    · exact Nat.lt_of_lt_of_le ((gen_mono_op c o).2 hinv) (hmono rest _)
    · exact Nat.lt_of_le_of_lt (gen_mono_op c op).1 (ih _ ⟨o, hr, hinv⟩)

/-- the generation a search read before computing its result; any history containing an
    invalidation (a write) in between; the conditional store is refused and changes nothing -/
theorem C07_result_computed_before_write_is_not_stored (c : QCache) (ops : List QOp)
    (h : ∃ op ∈ ops, QOp.invalidates op = true) (k : QKey) (q : List Nat) (r : Nat)
    (res : List (Nat × Nat)) :
    (c.applyOps ops).store k q r res (some c.gen) = (c.applyOps ops, false) :=
  C07_stale_store_refused _ k q r res c.gen
    (Nat.ne_of_gt (C07_invalidation_advances_generation c ops h))

theorem C07_clear_empties (c : QCache) : c.clear.entries = [] := rfl

/-- the pre-filter's bounds dominate the exact quantities (reals, every dimension and prefix) -/
theorem C07_prefilter_sound_over_reals (n p : ℕ) (q v : Fin n → ℝ) :
    (∀ threshold : ℝ,
      (∑ i ∈ Finset.univ.filter (fun i : Fin n => (i : ℕ) < p), q i * v i) +
        √(∑ i ∈ Finset.univ.filter (fun i : Fin n => ¬ (i : ℕ) < p), q i ^ 2) *
        √(∑ i ∈ Finset.univ.filter (fun i : Fin n => ¬ (i : ℕ) < p), v i ^ 2) < threshold →
      ∑ i, q i * v i < threshold) ∧
    (∀ radiusSq : ℝ,
      radiusSq < ∑ i ∈ Finset.univ.filter (fun i : Fin n => (i : ℕ) < p), (q i - v i) ^ 2 →
      radiusSq < ∑ i, (q i - v i) ^ 2) :=
  ⟨fun t h => PrefixBound.dot_prefilter_sound n p q v t h,
   fun r h => PrefixBound.l2_prefilter_sound n p q v r h⟩

/-- non-vacuity: a two-entry cache, an insert that hits exactly one of them -/
example :
    let c : QCache := ⟨[⟨(0, [1]), [10], 1, [(7, 1065353216)]⟩, ⟨(0, [2]), [20], 1, [(8, 1073741824)]⟩], 4, 0⟩
    ((c.invalidateForInsert (c.hitKeys [((0, [10]), some 1069547520), ((0, [20]), some 1069547520)])).1.entries.map (·.key))
      = [(0, [1])] := by decide

end KyroModel.C07
