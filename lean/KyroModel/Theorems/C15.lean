/-
C15 — Every request gets an answer and invalid input is refused without effect.

Property statements only.  Proved here: the validators and the search planner are total, never
divide by zero, and accept exactly the documented field ranges, for EVERY request value (any
filter tree, any depth).  "Refused ⇒ no effect, live and after restart" on the durable write
path is C03's theorem (`C03_refused_insert_noop`, `C03_failed_write_changes_nothing`), which
covers every refusal class the validators or the engine can raise.  The RPC glue (prost
decoding, streaming handlers, panic containment) is exercised black-box, not modelled.
-/
import KyroModel.Server.Validate
import KyroModel.Theorems.C03

namespace KyroModel.C15
open KyroModel

mutual
theorem oversample_bounds : ∀ f : Filter, 1 ≤ oversample f ∧ oversample f ≤ 50
  | .none => by simp [oversample]
  | .exact _ _ => by simp [oversample]
  | .range _ _ => by simp [oversample]
  | .inMatch _ vs => by simp only [oversample]; split <;> (try split) <;> omega
  | .and fs => by
    simp only [oversample]
    split
    · omega
    · have := minTyped_bounds fs
      cases h : minTyped fs with
      | none => simp
      | some m => simpa using this m h
  | .or fs => by
    simp only [oversample]
    split
    · omega
    · simp only [clampNat]; omega
  | .not none => by simp [oversample]
  | .not (some .none) => by simp [oversample]
  | .not (some (.exact k v)) => by simp only [oversample, clampNat]; omega
  | .not (some (.range k b)) => by simp only [oversample, clampNat]; omega
  | .not (some (.inMatch k vs)) => by simp only [oversample, clampNat]; omega
  | .not (some (.and fs)) => by simp only [oversample, clampNat]; omega
  | .not (some (.or fs)) => by simp only [oversample, clampNat]; omega
  | .not (some (.not g)) => by simp only [oversample, clampNat]; omega
theorem minTyped_bounds : ∀ (fs : List Filter) (m : Nat), minTyped fs = some m → 1 ≤ m ∧ m ≤ 50
  | [], m, h => by simp [minTyped] at h
  | .none :: fs, m, h => by simp only [minTyped] at h; exact minTyped_bounds fs m h
  | .exact k v :: fs, m, h => by
    have hb := oversample_bounds (.exact k v)
    simp only [minTyped] at h
    cases hr : minTyped fs with
    | none => rw [hr] at h; simp at h; omega
    | some m' => rw [hr] at h; have := minTyped_bounds fs m' hr; simp at h; omega
  | .range k b :: fs, m, h => by
    have hb := oversample_bounds (.range k b)
    simp only [minTyped] at h
    cases hr : minTyped fs with
    | none => rw [hr] at h; simp at h; omega
    | some m' => rw [hr] at h; have := minTyped_bounds fs m' hr; simp at h; omega
  | .inMatch k vs :: fs, m, h => by
    have hb := oversample_bounds (.inMatch k vs)
    simp only [minTyped] at h
    cases hr : minTyped fs with
    | none => rw [hr] at h; simp at h; omega
    | some m' => rw [hr] at h; have := minTyped_bounds fs m' hr; simp at h; omega
  | .and gs :: fs, m, h => by
    have hb := oversample_bounds (.and gs)
    simp only [minTyped] at h
    cases hr : minTyped fs with
    | none => rw [hr] at h; simp at h; omega
    | some m' => rw [hr] at h; have := minTyped_bounds fs m' hr; simp at h; omega
  | .or gs :: fs, m, h => by
    have hb := oversample_bounds (.or gs)
    simp only [minTyped] at h
    cases hr : minTyped fs with
    | none => rw [hr] at h; simp at h; omega
    | some m' => rw [hr] at h; have := minTyped_bounds fs m' hr; simp at h; omega
  | .not g :: fs, m, h => by
    have hb := oversample_bounds (.not g)
    simp only [minTyped] at h
    cases hr : minTyped fs with
    | none => rw [hr] at h; simp at h; omega
    | some m' => rw [hr] at h; have := minTyped_bounds fs m' hr; simp at h; omega
end

/-- **The oversampling estimate is total and in `[1, 50]` for every filter tree** — in
    particular the divisor in `50 / inner_selectivity` is never zero. -/
theorem C15_oversampling_total_pos (f : Filter) : 1 ≤ oversample f ∧ oversample f ≤ 50 :=
  oversample_bounds f

theorem searchFactor_pos (ns : Bool) (f : Option Filter) : 1 ≤ searchFactor ns f := by
  have hb : 1 ≤ filterBase f := by
    cases f with
    | none => simp [filterBase]
    | some g => exact (oversample_bounds g).1
  unfold searchFactor
  split <;> omega

/-- **Plan bounds**: an accepted search has `1 ≤ k ≤ search_k ≤ 10 000` and `ef ∈ [1, 10 000]`
    when overridden. -/
theorem C15_plan_bounds (len : Nat) (finite : Bool) (k ef : Nat) (ns : Bool) (f : Option Filter)
    (p : Plan) (h : validateSearch len finite k ef ns f = .ok p) :
    1 ≤ k ∧ k ≤ p.searchK ∧ p.searchK ≤ 10000 ∧ (∀ e, p.ef = some e → 1 ≤ e ∧ e ≤ 10000) := by
  unfold validateSearch at h
  by_cases h1 : len = 0
  · simp [h1] at h
  by_cases h2 : len > 4096
  · simp [h1, h2] at h
  by_cases h3 : (!finite) = true
  · simp [h1, h2, h3] at h
  by_cases h4 : k = 0
  · simp [h1, h2, h3, h4] at h
  by_cases h5 : k > 1000
  · simp [h1, h2, h3, h4, h5] at h
  by_cases h6 : ef > 10000
  · simp [h1, h2, h3, h4, h5, h6] at h
  simp [h1, h2, h3, h4, h5, h6] at h
  subst h
  have hf := searchFactor_pos ns f
  have hk := Nat.le_mul_of_pos_right k hf
  refine ⟨by omega, by simp only; omega, Nat.min_le_right _ _, ?_⟩
  intro e he
  simp only at he
  split at he
  · cases he
  · simp only [Option.some.injEq] at he; omega

/-- **The search validator accepts exactly the documented ranges.** -/
theorem C15_search_validator_decides (len : Nat) (finite : Bool) (k ef : Nat) (ns : Bool)
    (f : Option Filter) :
    (∃ p, validateSearch len finite k ef ns f = .ok p) ↔
      (1 ≤ len ∧ len ≤ 4096 ∧ finite = true ∧ 1 ≤ k ∧ k ≤ 1000 ∧ ef ≤ 10000) := by
  unfold validateSearch
  constructor
  · rintro ⟨p, h⟩
    by_cases h1 : len = 0
    · simp [h1] at h
    by_cases h2 : len > 4096
    · simp [h1, h2] at h
    by_cases h3 : (!finite) = true
    · simp [h1, h2, h3] at h
    by_cases h4 : k = 0
    · simp [h1, h2, h3, h4] at h
    by_cases h5 : k > 1000
    · simp [h1, h2, h3, h4, h5] at h
    by_cases h6 : ef > 10000
    · simp [h1, h2, h3, h4, h5, h6] at h
    simp at h3
    exact ⟨by omega, by omega, h3, by omega, by omega, by omega⟩
  · rintro ⟨h1, h2, h3, h4, h5, h6⟩
    have a1 : ¬ len = 0 := by omega
    have a2 : ¬ len > 4096 := by omega
    have a4 : ¬ k = 0 := by omega
    have a5 : ¬ k > 1000 := by omega
    have a6 : ¬ ef > 10000 := by omega
    simp [a1, a2, h3, a4, a5, a6]

/-- **The insert validator accepts exactly: id ≥ 1, 1 ≤ dimension ≤ 4096, all values finite.** -/
theorem C15_insert_validator_decides (id len : Nat) (finite : Bool) :
    validateInsert id len finite = .ok () ↔ (1 ≤ id ∧ 1 ≤ len ∧ len ≤ 4096 ∧ finite = true) := by
  unfold validateInsert
  constructor
  · intro h
    by_cases h0 : id < 1
    · simp [h0] at h
    by_cases h1 : len = 0
    · simp [h0, h1] at h
    by_cases h2 : len > 4096
    · simp [h0, h1, h2] at h
    by_cases h3 : (!finite) = true
    · simp [h0, h1, h2, h3] at h
    simp at h3
    exact ⟨by omega, by omega, by omega, h3⟩
  · rintro ⟨h1, h2, h3, h4⟩
    have a0 : ¬ id < 1 := by omega
    have a1 : ¬ len = 0 := by omega
    have a2 : ¬ len > 4096 := by omega
    simp [a0, a1, a2, h4]

/-- **Refused ⇒ without effect** on the durable write path, after any history (this is C03's
    theorem, restated so that the obligation list of C15 contains it). -/
theorem C15_refused_no_effect (cfg : PCfg) (ops : List POp) (hv : ∀ op ∈ ops, op.valid) (op : POp)
    (hop : op.valid)
    (hfail : (pStep (pRun cfg ops).1 (pRun cfg ops).2 op).2.2 = .rejected ∨
             (pStep (pRun cfg ops).1 (pRun cfg ops).2 op).2.2 = .full ∨
             (pStep (pRun cfg ops).1 (pRun cfg ops).2 op).2.2 = .err) :
    (pStep (pRun cfg ops).1 (pRun cfg ops).2 op).1.store.docs = (pRun cfg ops).1.store.docs ∧
    (pStep (pRun cfg ops).1 (pRun cfg ops).2 op).2.1 = [] :=
  C03.C03_failed_write_changes_nothing cfg ops hv op hop hfail

example : oversample (.not (some (.or [.exact "a" "b", .none, .and []]))) = 25 := by decide
example : (validateSearch 16 true 1000 0 true (some (.not none))).toOption = some ⟨10000, none⟩ := by decide

end KyroModel.C15
