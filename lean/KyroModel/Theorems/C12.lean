/-
C12 — Restoring a backup reproduces the collection as of that backup.

Property statements only.  Model: `Persist/Backup.lean` (behaviour after fixes b28ccd9 and
7c1da7a), tied to engine/src/backup.rs by the `persist` correspondence run of `./check C12`
(archive member lists, metadata, restore outcomes, prune decisions).

Proved for every data directory satisfying the disk invariant (`DInv`, established for every
reachable directory by `einv_pRun`) and the two listing facts of `Quiescent` (no WAL file outside
the MANIFEST's list; the list is ascending by file id — observed on every `disk` listing of the
correspondence run, not proved from the engine model):

* a full backup restores exactly (`C12_full_restore_exact`);
* one more incremental on top of a correctly restored chain restores exactly
  (`C12_incremental_step_exact`), given that the segments the incremental does NOT ship are the
  ones already restored (`hold`: the engine only appends to its newest segment and the file's
  mtime tells; this is the modelled-not-proved part) — and the snapshot clause is exactly what
  fix b28ccd9 established;
* an altered member anywhere in the chain refuses the restore before anything is cleared, and a
  non-empty target is never cleared without confirmation (`C12_altered_chain_refused`,
  `C12_no_clear_without_confirmation`);
* pruning keeps the ancestors of everything it keeps, for every timeline and policy
  (`C12_prune_keeps_ancestors`);
* the point-in-time selection starts at a full backup not after the target time
  (`C12_pitr_starts_at_full_before`).
-/
import KyroModel.Lemmas.Backup
import KyroModel.Lemmas.PersistHistory

namespace KyroModel.C12
open KyroModel

/-- listing facts at a quiescent point -/
structure Quiescent (d : Disk) (m : Manifest) : Prop where
  noOrphans : ∀ n ∈ akeys d.wals, n ∈ m.segs
  ascending : Asc m.segs

private theorem mem_akeys_of_some {α : Type} (n : Nat) (l : List (Nat × α)) (v : α)
    (h : alookup n l = some v) : n ∈ akeys l := mem_akeys_of_alookup n v l h

theorem restore_single (b : Backup) (hf : b.full = true) (hd : b.damaged = false)
    (hg : b.gone = false) : restoreBackup [b] 0 false false = .ok (overlay emptyDisk b) := by
  simp [restoreBackup, chainOf, restoreChain, hf, hd, hg]

/-- **A full backup restores exactly**: taken at any directory satisfying the invariant, restored
    alone into an empty target, strict start-up yields the collection at backup time. -/
theorem C12_full_restore_exact (d : Disk) (docs : Docs) (ns : Nat) (h : DInv d docs ns)
    (m : Manifest) (hm : d.manifest = some m) (hq : Quiescent d m) (ts : Nat) :
    ∃ b t r mx, fullBackup d ts = .ok b ∧ restoreBackup [b] 0 false false = .ok t ∧
      recover t = .ok (r, mx) ∧ MapEq r docs := by
  obtain ⟨r, mx, hr, heq, _⟩ := recover_of_DInv d docs ns h
  obtain ⟨m', hm', hs, hp, _⟩ := h
  rw [hm] at hm'; cases hm'
  have hlisted : ∀ n ∈ m.segs, n ∈ sortAsc (akeys d.wals) := by
    intro n hn
    obtain ⟨w, hw, _⟩ := hs n hn
    exact (mem_sortAsc n _).mpr (mem_akeys_of_some n _ w hw)
  have hany : (m.segs.any fun n => !(sortAsc (akeys d.wals)).contains n) = false := by
    rw [List.any_eq_false]
    intro n hn
    simp [hlisted n hn]
  have hsegs : rewriteSegs m.segs (sortAsc (akeys d.wals)) = m.segs :=
    rewriteSegs_id _ _ hq.ascending (fun n hn => hq.noOrphans n ((mem_sortAsc n _).mp hn))
  -- the restored directory agrees with `d` on everything recovery reads
  have agree : ∀ (b : Backup), b.manifest = some m → b.wals = shipWals d m.segs →
      (∀ p, m.snap = some p → ∃ sf, alookup p d.snaps = some sf ∧ b.snaps = [(p, sf)]) →
      (m.snap = none → b.snaps = []) →
      recover (overlay emptyDisk b) = recover d := by
    intro b hbm hbw hbs hbn
    refine recover_congr d (overlay emptyDisk b) m hm (by simp [overlay, hbm]) ?_ ?_
    · intro n hn
      obtain ⟨w, hw, _⟩ := hs n hn
      rw [overlay_wals, hbw]
      exact ovl_mem d.wals n _ _ (shipWals_consistent d m.segs)
        (shipWals_keys d m.segs n hn (by simp [hw]))
    · cases hsn : m.snap with
      | none => simp [snapStage, hsn]
      | some p =>
        obtain ⟨s, hsf⟩ := hp p hsn
        obtain ⟨sf, hsf', hb⟩ := hbs p hsn
        rw [hsf] at hsf'; cases hsf'
        rw [snapStage_primary d m p s hsn hsf]
        refine snapStage_primary _ m p s hsn ?_
        rw [overlay_snaps, hb]
        simp [ovl]
  cases hsn : m.snap with
  | none =>
    refine ⟨mkFull d ts (some { m with segs := m.segs }) m.segs none [], _, r, mx, ?_,
      restore_single _ rfl rfl rfl, ?_, heq⟩
    · simp only [fullBackup, hm, fullWithManifest, hany, hsegs, hsn, Bool.false_eq_true, ↓reduceIte]
      cases m; simp_all
    · rw [agree _ rfl rfl (by simp [hsn]) (fun _ => rfl)]
      exact hr
  | some p =>
    obtain ⟨s, hsf⟩ := hp p hsn
    refine ⟨mkFull d ts (some { m with segs := m.segs }) m.segs (some p) [(p, some s)], _, r, mx, ?_,
      restore_single _ rfl rfl rfl, ?_, heq⟩
    · simp only [fullBackup, hm, fullWithManifest, hany, hsegs, hsn, hsf, Bool.false_eq_true, ↓reduceIte]
      cases m; simp_all
    · rw [agree _ rfl rfl (by
        intro p' hp'
        rw [hsn] at hp'; cases hp'
        exact ⟨some s, hsf, rfl⟩) (by simp [hsn])]
      exact hr

/-- **One more incremental restores exactly.**  `t` is the directory restored from the chain so
    far; `d` the data directory when the incremental `b` was taken.  If the listed segments `b`
    does not ship already read in `t` as they do in `d` (`hold`), then after extracting `b` over
    `t` strict start-up yields the collection of `d`.  The snapshot clause needs no hypothesis
    when `b` ships the snapshot; when it does not, `hsnap` says the chain already restored that
    very file — the condition under which the fixed code skips it. -/
theorem C12_incremental_step_exact (bs : List Backup) (d t : Disk) (docs : Docs) (ns : Nat)
    (h : DInv d docs ns) (m : Manifest) (hm : d.manifest = some m) (hq : Quiescent d m)
    (pi : Nat) (modified : Nat → Bool) (ts : Nat) (b : Backup)
    (hb : incrBackup bs d pi modified ts = .ok b)
    (hold : ∀ n ∈ m.segs, n ∉ b.wals.map (·.1) → alookup n t.wals = alookup n d.wals)
    (hsnap : b.snaps = [] → ∀ p, m.snap = some p → alookup p t.snaps = alookup p d.snaps) :
    ∃ r mx, recover (overlay t b) = .ok (r, mx) ∧ MapEq r docs := by
  obtain ⟨r, mx, hr, heq, _⟩ := recover_of_DInv d docs ns h
  obtain ⟨m', hm', hs, hp, _⟩ := h
  rw [hm] at hm'; cases hm'
  -- unpack what the incremental shipped
  have shape : ∃ sel, b.manifest = some { m with segs := rewriteSegs m.segs sel } ∧
      b.wals = shipWals d sel ∧ (∀ n ∈ sel, n ∈ akeys d.wals) ∧
      (b.snaps = [] ∨ ∃ p sf, m.snap = some p ∧ alookup p d.snaps = some sf ∧ b.snaps = [(p, sf)]) := by
    unfold incrBackup at hb
    cases hpar : bs[pi]? with
    | none => simp [hpar] at hb
    | some par =>
      simp only [hpar, incrWithParent, hm] at hb
      split at hb
      · cases hb
      · split at hb
        · cases hb
        · have hsub : ∀ n ∈ selectSegs par (sortAsc (akeys d.wals)) modified, n ∈ akeys d.wals := by
            intro n hn
            unfold selectSegs at hn
            split at hn
            · exact (mem_sortAsc n _).mp (List.mem_filter.mp hn).1
            · exact (mem_sortAsc n _).mp (List.mem_filter.mp hn).1
          cases hship : shipSnapshot bs d m pi with
          | error e => simp [hship] at hb
          | ok rr =>
            simp only [hship, Except.ok.injEq] at hb
            subst hb
            refine ⟨_, rfl, rfl, hsub, ?_⟩
            unfold shipSnapshot at hship
            cases hsn : m.snap with
            | none =>
              simp only [hsn, Except.ok.injEq] at hship
              subst hship
              exact Or.inl rfl
            | some p =>
              simp only [hsn] at hship
              split at hship
              · simp only [Except.ok.injEq] at hship
                subst hship
                exact Or.inl rfl
              · cases hl : alookup p d.snaps with
                | none => simp [hl] at hship
                | some sf =>
                  simp only [hl, Except.ok.injEq] at hship
                  subst hship
                  exact Or.inr ⟨p, sf, rfl, hl, rfl⟩
  obtain ⟨sel, hbm, hbw, hselsub, hbs⟩ := shape
  have hsegs : rewriteSegs m.segs sel = m.segs :=
    rewriteSegs_id _ _ hq.ascending (fun n hn => hq.noOrphans n (hselsub n hn))
  have hbm' : b.manifest = some m := by rw [hbm, hsegs]
  have : recover (overlay t b) = recover d := by
    refine recover_congr d (overlay t b) m hm (by simp [overlay, hbm']) ?_ ?_
    · intro n hn
      rw [overlay_wals]
      by_cases hship : n ∈ b.wals.map (·.1)
      · rw [hbw] at hship ⊢
        exact ovl_mem d.wals n _ _ (shipWals_consistent d sel) hship
      · rw [ovl_not_mem n _ _ hship]
        exact hold n hn hship
    · cases hsn : m.snap with
      | none => simp [snapStage, hsn]
      | some p =>
        obtain ⟨s, hsf⟩ := hp p hsn
        rw [snapStage_primary d m p s hsn hsf]
        refine snapStage_primary _ m p s hsn ?_
        rw [overlay_snaps]
        rcases hbs with hnil | ⟨p', sf, hp', hsf', hb'⟩
        · rw [hnil]
          simp only [ovl, List.foldl_nil]
          rw [hsnap hnil p hsn, hsf]
        · rw [hsn] at hp'; cases hp'
          rw [hb', hsf] at *
          cases hsf'
          simp [ovl]
  rw [this]
  exact ⟨r, mx, hr, heq⟩

/-- **An altered member anywhere in the chain refuses the restore** — whatever the target holds
    and whether or not clearing was confirmed: the error is returned before the clear. -/
theorem C12_altered_chain_refused (bs : List Backup) (chain : List Nat) (i : Nat) (b : Backup)
    (hi : i ∈ chain) (hb : bs[i]? = some b) (hd : b.damaged = true) (nonEmpty allow : Bool) :
    restoreChain bs chain nonEmpty allow = .error .checksum := by
  unfold restoreChain
  have : (chain.any fun i => (bs[i]?.map fun b => b.damaged || b.gone).getD true) = true := by
    rw [List.any_eq_true]
    exact ⟨i, hi, by simp [hb, hd]⟩
  simp [this]

/-- **A non-empty target is never cleared without confirmation.** -/
theorem C12_no_clear_without_confirmation (bs : List Backup) (chain : List Nat) :
    ∀ t, restoreChain bs chain true false ≠ .ok t := by
  intro t
  unfold restoreChain
  split
  · simp
  · simp

/-- **Pruning never removes a backup that a retained backup depends on**: for every timeline,
    policy and clock reading, the parent of a kept backup is kept. -/
theorem C12_prune_keeps_ancestors (bs : List Backup) (hwf : ParentsBefore bs) (pol : Policy)
    (now i p : Nat) (b : Backup) (hi : i ∈ keptAfterPrune bs pol now) (hb : bs[i]? = some b)
    (hp : b.parent = some p) (hpres : p ∈ present bs) : p ∈ keptAfterPrune bs pol now := by
  simp only [keptAfterPrune, List.mem_filter, List.any_eq_true, List.contains_iff_mem] at hi ⊢
  obtain ⟨_, r, hr, hir⟩ := hi
  exact ⟨hpres, r, hr, chainUp_closed bs hwf (r + 1) r (Nat.lt_succ_self r) i hir b p hb hp⟩

/-- `a` is reachable from `i` by following parent links (zero or more) -/
inductive Anc (bs : List Backup) : Nat → Nat → Prop
  | refl (i : Nat) : Anc bs i i
  | step {i p a : Nat} {b : Backup} : bs[i]? = some b → b.parent = some p → Anc bs p a → Anc bs i a

/-- **…nor any backup further up its chain**: the whole ancestry of a kept backup — parent,
    grandparent, … down to the full backup, any depth — is kept, as long as it was present before
    the prune (so a restore of any kept backup finds every member of its chain afterwards). -/
theorem C12_prune_keeps_whole_chain (bs : List Backup) (hwf : ParentsBefore bs) (pol : Policy)
    (now i a : Nat) (hi : i ∈ keptAfterPrune bs pol now) (hanc : Anc bs i a)
    (hpres : ∀ x, Anc bs i x → x ∈ present bs) : a ∈ keptAfterPrune bs pol now := by
  induction hanc with
  | refl i => exact hi
  | step hb hp _ ih =>
    have hpk := C12_prune_keeps_ancestors bs hwf pol now _ _ _ hi hb hp
      (hpres _ (Anc.step hb hp (Anc.refl _)))
    exact ih hpk (fun x hx => hpres x (Anc.step hb hp hx))

/-- witness: full ← incremental ← incremental; only the newest is retained by the policy (the two
    older ones are past every horizon), and the whole chain survives the prune -/
def mkB (full : Bool) (parent : Option Nat) (ts : Nat) : Backup :=
  { full := full, parent := parent, ts := ts, maxWal := none, snap := none, manifest := none,
    snaps := [], wals := [] }
def chain3 : List Backup := [mkB true none 0, mkB false (some 0) 10, mkB false (some 1) 1000000]

example : Anc chain3 2 0 :=
  .step (b := mkB false (some 1) 1000000) rfl rfl
    (.step (b := mkB false (some 0) 10) rfl rfl (.refl 0))
example : retained0 chain3 ⟨0, 0, 0, 0, 1⟩ 1000000 = [2] ∧
    keptAfterPrune chain3 ⟨0, 0, 0, 0, 1⟩ 1000000 = [0, 1, 2] := by decide

/-- …and what pruning deletes is exactly what it does not keep -/
theorem C12_pruned_iff_not_kept (bs : List Backup) (pol : Policy) (now i : Nat) :
    i ∈ prunedBy bs pol now ↔ i ∈ present bs ∧ i ∉ keptAfterPrune bs pol now := by
  simp [prunedBy, List.mem_filter]

/-- bucket winners and backups younger than the minimum age are kept -/
theorem C12_retained_kept (bs : List Backup) (pol : Policy) (now i : Nat)
    (h : i ∈ retained0 bs pol now) : i ∈ keptAfterPrune bs pol now := by
  simp only [keptAfterPrune, List.mem_filter, List.any_eq_true, List.contains_iff_mem]
  have hp : i ∈ present bs := (List.mem_filter.mp h).1
  exact ⟨hp, i, h, by simp [chainUp]⟩

/-- **Point-in-time selection** starts at a full backup taken not after the target time. -/
theorem C12_pitr_starts_at_full_before (bs : List Backup) (t : Nat) (f : Nat) (rest : List Nat)
    (h : pitrChain bs t = .ok (f :: rest)) :
    ∃ b, bs[f]? = some b ∧ b.full = true ∧ b.ts ≤ t ∧ b.gone = false := by
  unfold pitrChain at h
  split at h
  · cases h
  · rename_i w hw
    simp only [Except.ok.injEq, List.cons.injEq] at h
    obtain ⟨rfl, _⟩ := h
    have := newestOf_mem bs _ w hw
    simp only [List.mem_filter, presentIdx] at this
    obtain ⟨⟨_, hg⟩, hf⟩ := this
    cases hb : bs[w]? with
    | none => simp [hb] at hf
    | some b =>
      simp only [hb, Option.map_some, Option.getD_some, Bool.and_eq_true, decide_eq_true_eq,
        Bool.not_eq_eq_eq_not, Bool.not_true] at hf hg
      exact ⟨b, rfl, hf.1, hf.2, hg⟩

/-! ### non-vacuity and the repaired scenario, by evaluation -/

def recIds (r : Except BkErr Disk) (ids : List Nat) : Option (List Bool) :=
  match r with
  | .ok t => match recover t with
    | .ok (docs, _) => some (ids.map fun id => (alookup id docs).isSome)
    | .error _ => none
  | .error _ => none

/-- full backup, then a write, a snapshot that compacts the segment holding it, another write,
    an incremental: the incremental ships snapshot file 3, restoring the chain yields all three
    documents (before fix b28ccd9 the incremental shipped no snapshot and this restore did not
    start), restoring the full backup alone yields document 1 only -/
def repairedScenario : Bool :=
  let ops1 : List POp := [.insert 1 [10] [] .yes 60 52]
  let s1 := pRun ⟨0, 1, 10⟩ ops1
  let ops2 : List POp := ops1 ++ [.insert 2 [20] [] .yes 60 52, .snapshot, .insert 3 [30] [] .yes 60 52]
  let s2 := pRun ⟨0, 1, 10⟩ ops2
  match fullBackup s1.2 100 with
  | .error _ => false
  | .ok b0 =>
    match incrBackup [b0] s2.2 0 (fun _ => true) 200 with
    | .error _ => false
    | .ok b1 =>
      b1.snap == some 3 &&
      recIds (restoreBackup [b0, b1] 1 false false) [1, 2, 3] == some [true, true, true] &&
      recIds (restoreBackup [b0, b1] 0 false false) [1, 2, 3] == some [true, false, false]

example : repairedScenario = true := by decide

end KyroModel.C12
