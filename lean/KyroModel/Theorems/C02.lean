/-
C02 — Restart is lossless: recovered state equals the live state before shutdown.

Property statements only.  Model: `KyroModel/Persist/{Model,Ops}.lean` (logical file-system
actions of HnswBackend's WAL / snapshot / MANIFEST protocol), tied to
engine/src/{hnsw_backend,persistence}.rs by the `persist` correspondence run of `./check C02`:
same histories through the real backend under the FS shim and through the model, comparing
results, recognised action sequences, on-disk state listings and censuses.
-/
import KyroModel.Lemmas.PersistHistory

namespace KyroModel.C02
open KyroModel

/-- **Restart is lossless, after any history.**  For every configuration (any snapshot
    interval incl. disabled, any rotation threshold, any index capacity) and every history of
    inserts, overwrites, deletes, batch deletes (duplicates included), metadata updates, manual
    and automatic snapshots, rotations, segment compaction, tombstone compaction and earlier
    restarts — of any length — a clean restart from the data directory succeeds in strict mode and
    the recovered documents are exactly the live ones (same ids, vector bits, metadata). -/
theorem C02_restart_lossless (cfg : PCfg) (ops : List POp) (hv : ∀ op ∈ ops, op.valid) :
    ∃ e' as, pRestart (pRun cfg ops).1.cfg (pRun cfg ops).1.nextName (pRun cfg ops).2 = .ok (e', as) ∧
      MapEq e'.store.docs (pRun cfg ops).1.store.docs := by
  obtain ⟨e', as, h1, h2, _, _⟩ := pRestart_spec _ _ (einv_pRun cfg ops hv)
  exact ⟨e', as, h1, h2⟩

/-- **…and the restarted engine is again in a state from which the same holds**: restarts may
    be placed anywhere in a history, any number of times (they are operations of `POp`), and the
    writes accepted after a restart are preserved by the next one. -/
theorem C02_history (cfg : PCfg) (ops : List POp) (hv : ∀ op ∈ ops, op.valid) :
    EInv (pRun cfg ops).1 (pRun cfg ops).2 :=
  einv_pRun cfg ops hv

/-- strict recovery of the directory left by any history yields the live documents -/
theorem C02_recover_eq_live (cfg : PCfg) (ops : List POp) (hv : ∀ op ∈ ops, op.valid) :
    ∃ r mx, recover (pRun cfg ops).2 = .ok (r, mx) ∧ MapEq r (pRun cfg ops).1.store.docs :=
  recover_of_Rec _ _ ⟨_, (einv_pRun cfg ops hv).dinv⟩

/-- **Deleted documents never reappear, overwritten versions never resurface**: what the live
    store holds after a successful operation is the map update of that operation (so by the
    theorems above the same is true of the recovered store). -/
theorem C02_live_semantics (e : PEng) (d : Disk) (h : EInv e d) :
    (∀ id v m acc fl fd, acc ≠ Accept.index → (pInsert e d id v m acc fl fd).2.2 = .ok →
        (pInsert e d id v m acc fl fd).1.store.docs = aset id (v, m) e.store.docs) ∧
    (∀ id fl, (pDelete e d id fl).2.2 = .bool true →
        (pDelete e d id fl).1.store.docs = aerase id e.store.docs) ∧
    (∀ ids fl, (pBatchDelete e d ids fl).2.2 ≠ .err → (pBatchDelete e d ids fl).1.store.docs =
        eraseAll e.store.docs (ids.filter fun id => e.store.has id)) :=
  ⟨fun id v m acc fl fd hacc => (pInsert_spec e d id v m acc fl fd h hacc).2.2.1,
   fun id fl => (pDelete_spec e d id fl h).2.2.1,
   fun ids fl => (pBatchDelete_spec e d ids fl h).2.2.2⟩

/-- one step of `pRun` -/
def runStep (s : PEng × Disk) (op : POp) : PEng × Disk :=
  ((pStep s.1 s.2 op).1, s.2.applyAll (pStep s.1 s.2 op).2.1)

theorem restarts_from (n : Nat) (s : PEng × Disk) (h : EInv s.1 s.2) :
    MapEq ((List.replicate n POp.restart).foldl runStep s).1.store.docs s.1.store.docs ∧
    EInv ((List.replicate n POp.restart).foldl runStep s).1
         ((List.replicate n POp.restart).foldl runStep s).2 := by
  induction n generalizing s with
  | zero => exact ⟨MapEq.refl _, h⟩
  | succ n ih =>
    rw [List.replicate_succ, List.foldl_cons]
    obtain ⟨e', as, hr, hmap, hinv, _⟩ := pRestart_spec s.1 s.2 h
    have hs : runStep s .restart = (e', s.2.applyAll as) := by
      simp only [runStep, pStep, hr]
    rw [hs]
    obtain ⟨h1, h2⟩ := ih (e', s.2.applyAll as) hinv
    exact ⟨MapEq.trans h1 hmap, h2⟩

/-- **Any number of consecutive restarts.**  After every history, `n` restarts in a row — for
    every `n` — all succeed in strict mode and leave exactly the documents the live engine held
    before the first of them (each restart opens a new segment and rewrites the MANIFEST, so this
    is not the same statement as one restart), and the engine is again in a state from which every
    theorem of this file applies. -/
theorem C02_consecutive_restarts (cfg : PCfg) (ops : List POp) (hv : ∀ op ∈ ops, op.valid) (n : Nat) :
    MapEq (pRun cfg (ops ++ List.replicate n .restart)).1.store.docs (pRun cfg ops).1.store.docs ∧
    EInv (pRun cfg (ops ++ List.replicate n .restart)).1
         (pRun cfg (ops ++ List.replicate n .restart)).2 := by
  have h := restarts_from n (pRun cfg ops) (einv_pRun cfg ops hv)
  have e : pRun cfg (ops ++ List.replicate n .restart)
      = (List.replicate n POp.restart).foldl runStep (pRun cfg ops) := by
    unfold pRun
    rw [List.foldl_append]
    rfl
  rw [e]
  exact h

/-! ### Witness: a history with overwrite, delete, rotation, automatic snapshot + compaction and
    a restart; the hypothesis is satisfiable and the recovered map is the expected one -/

def witnessOps : List POp := [.insert 1 [10] [] .yes 60 52, .insert 2 [20] [] .yes 60 52,
  .insert 1 [11] [] .yes 60 52, .delete 2 52, .restart, .insert 3 [30] [] .yes 60 52]

def recVecs (d : Disk) (ids : List Nat) : Option (List (Option (List Nat))) :=
  match recover d with
  | .ok (docs, _) => some (ids.map fun id => (alookup id docs).map (·.1))
  | .error _ => none

example : (∀ op ∈ witnessOps, op.valid) ∧
    recVecs (pRun ⟨3, 100, 10⟩ witnessOps).2 [1, 2, 3] = some [some [11], none, some [30]] := by
  refine ⟨?_, by decide⟩
  intro op hop
  simp only [witnessOps, List.mem_cons, List.not_mem_nil, or_false] at hop
  rcases hop with h | h | h | h | h | h <;> subst h <;> simp [POp.valid]

end KyroModel.C02
