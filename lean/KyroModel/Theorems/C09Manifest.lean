/-
C09, the MANIFEST half — rotation and snapshot commit are both read-modify-write operations on the
one MANIFEST file (`Manifest::load` … `manifest.save`), possibly from different threads.

Step-level model: an update is two steps, `load i` (thread `i` reads the current MANIFEST into its
local copy) and `save i` (it writes its modified copy back).  A rotation appends its new segment to
the copy's segment list; a snapshot commit sets the snapshot pointer and drops the segments the
snapshot covers.

* `C09_manifest_rmw_outside_the_lock_loses_the_commit`: if a rotation loads BEFORE it takes
  `manifest_lock` (seeded change C09-3), a snapshot commit between its load and its save is
  overwritten by the stale copy: the MANIFEST points to the old snapshot again and lists segments
  the commit has already unlinked (strict recovery then refuses: what `./check C09` finds on that
  change, with the schedule);
* `C09_manifest_rmw_under_the_lock_is_sequential`: with load and save of every update inside one
  critical section (what `manifest_lock` enforces on the current tree), every schedule is a sequence
  of whole updates, so the final MANIFEST is the fold of the updates in lock order — no update is
  lost, for any number of rotations and commits.
-/
namespace KyroModel.C09.Man

structure Man where
  snap : Option Nat
  segs : List Nat
  deriving DecidableEq, Repr

inductive Upd
  | rotate (newSeg : Nat)                      -- append the freshly created segment
  | commit (snap : Nat) (covered : List Nat)   -- point to the new snapshot, drop covered segments
  deriving DecidableEq, Repr

def Upd.apply (m : Man) : Upd → Man
  | .rotate n => { m with segs := m.segs ++ [n] }
  | .commit s cov => { snap := some s, segs := m.segs.filter fun x => !cov.contains x }

inductive Step
  | load (i : Nat)
  | save (i : Nat) (u : Upd)
  deriving DecidableEq, Repr

/-- per thread: the copy it loaded -/
abbrev Locals := List (Nat × Man)

def getL (l : Locals) (i : Nat) (dflt : Man) : Man := ((l.find? (·.1 == i)).map (·.2)).getD dflt
def setL (l : Locals) (i : Nat) (m : Man) : Locals := (i, m) :: l.filter (·.1 != i)

def step (file : Man) (l : Locals) : Step → Man × Locals
  | .load i => (file, setL l i file)
  | .save i u => (u.apply (getL l i file), l)

def run (file : Man) (l : Locals) : List Step → Man
  | [] => file
  | x :: xs => run (step file l x).1 (step file l x).2 xs

/-- **Load outside the lock** (seeded change C09-3): rotation 0 loads, the snapshot commit of thread
    1 runs whole (new snapshot 9, segments 1 and 2 covered and unlinked), rotation 0 saves its stale
    copy + the new segment: the commit is gone — old snapshot pointer, unlinked segments listed. -/
theorem C09_manifest_rmw_outside_the_lock_loses_the_commit :
    run ⟨some 5, [1, 2, 3]⟩ [] [.load 0, .load 1, .save 1 (.commit 9 [1, 2]), .save 0 (.rotate 4)]
      = ⟨some 5, [1, 2, 3, 4]⟩ := by decide

/-- the discipline `manifest_lock` enforces: every update's load and save are adjacent -/
inductive Locked : List Step → List Upd → Prop
  | nil : Locked [] []
  | upd (i : Nat) (u : Upd) {rest : List Step} {us : List Upd} :
      Locked rest us → Locked (.load i :: .save i u :: rest) (u :: us)

theorem getL_setL (l : Locals) (i : Nat) (m dflt : Man) : getL (setL l i m) i dflt = m := by
  simp [getL, setL]

/-- **Under the lock every schedule is sequential**: the final MANIFEST is the fold of the updates
    in the order the lock was taken — any number of rotations and snapshot commits by any
    threads. -/
theorem C09_manifest_rmw_under_the_lock_is_sequential (sched : List Step) (us : List Upd)
    (h : Locked sched us) : ∀ (file : Man) (l : Locals), run file l sched = us.foldl Upd.apply file := by
  induction h with
  | nil => intro file l; rfl
  | upd i u _ ih =>
    intro file l
    simp only [run, step, getL_setL, List.foldl_cons]
    exact ih _ _

/-- the same two updates under the lock, in either order, keep both effects -/
example :
    run ⟨some 5, [1, 2, 3]⟩ [] [.load 1, .save 1 (.commit 9 [1, 2]), .load 0, .save 0 (.rotate 4)] = ⟨some 9, [3, 4]⟩ ∧
    run ⟨some 5, [1, 2, 3]⟩ [] [.load 0, .save 0 (.rotate 4), .load 1, .save 1 (.commit 9 [1, 2])] = ⟨some 9, [3, 4]⟩ := by
  decide

end KyroModel.C09.Man
