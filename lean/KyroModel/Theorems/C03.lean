/-
C03 — A write that reports failure changes nothing, now or after restart.

Property statements only.  Model: `KyroModel/Persist/{Model,Ops}.lean`; tie: the `persist`
correspondence run of `./check C03` (every invalid-input class on the durable write path, with
kill-point enumeration so that "after restart" is evaluated by the real `recover`), plus the
storage-fault enumeration of the FS shim (errno × n-th call × short writes).

Proved: the input-refusal half (every refusal happens before anything is logged, so neither the
live nor the recovered collection moves) and "acknowledged ⇒ recoverable".  The storage-fault
half is decided by fault enumeration against the implementation, with the byte-level rollback
model of `Persist/Codec.lean`; see DESIGN.md for what is and is not proved there.
-/
import KyroModel.Lemmas.PersistHistory

namespace KyroModel.C03
open KyroModel

/-- **A refused insert / overwrite issues no file-system action and leaves the live documents
    untouched** — wrong dimension, zero norm, non-finite or overflowing vectors (refused by the
    pre-flight since fix d09e19e), index full, degraded backend. -/
theorem C03_refused_insert_noop (e : PEng) (d : Disk) (h : EInv e d) (id : Nat) (v : List Nat)
    (m : MetaMap) (acc : Accept) (fl fd : Nat) (hacc : acc ≠ .index)
    (hfail : (pInsert e d id v m acc fl fd).2.2 ≠ .ok) :
    (pInsert e d id v m acc fl fd).1.store.docs = e.store.docs ∧
    (pInsert e d id v m acc fl fd).2.1 = [] :=
  (pInsert_spec e d id v m acc fl fd h hacc).2.2.2 hfail

/-- same for delete, metadata update and batch delete -/
theorem C03_refused_others_noop (e : PEng) (d : Disk) (h : EInv e d) :
    (∀ id fl, (pDelete e d id fl).2.2 ≠ .bool true →
      (pDelete e d id fl).1.store.docs = e.store.docs ∧ (pDelete e d id fl).2.1 = []) ∧
    (∀ id md fl, (pUpdate e d id md fl).2.2 ≠ .bool true →
      (pUpdate e d id md fl).1.store.docs = e.store.docs ∧ (pUpdate e d id md fl).2.1 = []) ∧
    (∀ ids fl, (pBatchDelete e d ids fl).2.2 = .err →
      (pBatchDelete e d ids fl).1.store.docs = e.store.docs ∧ (pBatchDelete e d ids fl).2.1 = []) :=
  ⟨fun id fl => (pDelete_spec e d id fl h).2.2.2,
   fun id md fl => (pUpdate_spec e d id md fl h).2.2,
   fun ids fl => (pBatchDelete_spec e d ids fl h).2.2.1⟩

/-- **…hence the collection recovered after a restart is unchanged too**, after any history:
    the directory is byte-for-byte what it was (no action), and it recovers to the live
    documents, which did not move. -/
theorem C03_failed_write_changes_nothing (cfg : PCfg) (ops : List POp) (hv : ∀ op ∈ ops, op.valid)
    (op : POp) (hop : op.valid)
    (hfail : (pStep (pRun cfg ops).1 (pRun cfg ops).2 op).2.2 = .rejected ∨
             (pStep (pRun cfg ops).1 (pRun cfg ops).2 op).2.2 = .full ∨
             (pStep (pRun cfg ops).1 (pRun cfg ops).2 op).2.2 = .err) :
    (pStep (pRun cfg ops).1 (pRun cfg ops).2 op).1.store.docs = (pRun cfg ops).1.store.docs ∧
    (pStep (pRun cfg ops).1 (pRun cfg ops).2 op).2.1 = [] := by
  have h := einv_pRun cfg ops hv
  generalize (pRun cfg ops).1 = e at *
  generalize (pRun cfg ops).2 = d at *
  cases op with
  | insert id v m acc fl fd =>
    apply C03_refused_insert_noop e d h id v m acc fl fd hop
    simp only [pStep] at hfail
    rcases hfail with hf | hf | hf <;> rw [hf] <;> simp
  | delete id fl =>
    apply (C03_refused_others_noop e d h).1 id fl
    simp only [pStep] at hfail
    rcases hfail with hf | hf | hf <;> rw [hf] <;> simp
  | batchDelete ids fl =>
    simp only [pStep] at hfail ⊢
    rcases hfail with hf | hf | hf
    · exfalso; unfold pBatchDelete at hf; split at hf <;> (try split at hf) <;> simp at hf
    · exfalso; unfold pBatchDelete at hf; split at hf <;> (try split at hf) <;> simp at hf
    · exact (C03_refused_others_noop e d h).2.2 ids fl hf
  | update id md fl =>
    apply (C03_refused_others_noop e d h).2.1 id md fl
    simp only [pStep] at hfail
    rcases hfail with hf | hf | hf <;> rw [hf] <;> simp
  | snapshot => simp [pStep] at hfail
  | restart =>
    obtain ⟨e', as, hr, _, _, _⟩ := pRestart_spec e d h
    simp [pStep, hr] at hfail
  | ioFailed n => simp [pStep]

/-- **An operation is acknowledged only if it is recoverable**: at the moment any operation
    returns, strict recovery of the directory yields exactly the live documents (so an
    acknowledged write is in it), after any history. -/
theorem C03_ack_implies_recoverable (cfg : PCfg) (ops : List POp) (hv : ∀ op ∈ ops, op.valid) :
    ∃ r mx, recover (pRun cfg ops).2 = .ok (r, mx) ∧ MapEq r (pRun cfg ops).1.store.docs :=
  recover_of_Rec _ _ ⟨_, (einv_pRun cfg ops hv).dinv⟩

/-- the full statement for the one code path the proof excludes, kept visible: a refusal by the
    ANN index *after* the log append (`Accept.index`) -/
def IndexRejectStatement : Prop :=
  ∀ (e : PEng) (d : Disk), EInv e d → ∀ id v m fl fd,
    ∃ r mx, recover (d.applyAll (pInsert e d id v m .index fl fd).2.1) = .ok (r, mx) ∧
      MapEq r e.store.docs

def recHas (d : Disk) (id : Nat) : Option Bool :=
  match recover d with
  | .ok (docs, _) => some (alookup id docs).isSome
  | .error _ => none

/-- …and why it is excluded: in the model of that path the compensating Delete entry erases the
    previous version on replay (this was reachable with a NaN overwrite before fix d09e19e; the
    correspondence run reports how often `accept=index` is observed — 0 since the fix). -/
theorem C03_index_reject_witness :
    let ops : List POp := [.insert 1 [10] [] .yes 60 52]
    let e := (pRun ⟨0, 0, 10⟩ ops).1
    let d := (pRun ⟨0, 0, 10⟩ ops).2
    (e.store.has 1, recHas (d.applyAll (pInsert e d 1 [99] [] .index 60 52).2.1) 1)
      = (true, some false) := by decide

end KyroModel.C03
