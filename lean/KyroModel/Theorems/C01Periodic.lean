/-
C01, periodic-fsync clause — "under the periodic-fsync policy the same holds against power loss for
every operation acknowledged more than one configured flush interval before the failure".

Property statements only.  Model: `Persist/Periodic.lean` (segments of the acknowledged log with
their synced prefix; appends sync on the writer's own interval, the server's timer syncs the
active segment, a segment is synced when it stops being active).  Tie: `./check C01` runs the real
TieredEngine under `FsyncPolicy::Periodic` with a virtual clock, log rotation and clean restarts,
replays the server's timer body (its calls are extracted from kyrodb_server.rs on every run) and
compares, at every power-loss point, the directories the FS-shim's power-loss model can produce
(each recovered strictly by the real code) with this model's `outcomes`: every real outcome must
be a model outcome, and the model's smallest outcome must be among the real ones.
-/
import KyroModel.Lemmas.Periodic

namespace KyroModel.C01Periodic
open KyroModel KyroModel.Periodic

/-- **Whatever a power failure leaves is a prefix of the acknowledged history that contains
    everything the last timer tick covered** — for every history of inserts, overwrites, deletes
    (of present and absent ids), clock advances, timer ticks and clean restarts, with rotation after
    every write or never, any flush interval. -/
theorem C01_periodic_outcome_is_covering_prefix (iv : Nat) (rot : Bool) (evs : List Ev) :
    let s := run { iv := iv, rot := rot, fix := true } evs
    ∀ o ∈ outcomes s, ∃ j, s.coveredAtTick ≤ j ∧ j ≤ s.log.length ∧ o = fold ((s.log.map (·.2)).take j) := by
  intro s o ho
  have hI : Inv s := (inv_run evs (s := { iv := iv, rot := rot, fix := true }) rfl (inv_init iv rot)).1
  obtain ⟨ks, hks, rfl⟩ := List.mem_map.mp ho
  obtain ⟨k, h1, h2, h3⟩ := kept_prefix s.old hI.oldSynced s.act ks (s.log.map (·.2)) ((mem_choices _ ks).mp hks)
  refine ⟨total s.old + k, ?_, ?_, ?_⟩
  · have := hI.covered; omega
  · have := hI.lens; omega
  · show fold (kept (s.old ++ [s.act]) ks _) = _
    rw [h3]

/-- **The clause itself.**  If the server's timer fired within the last flush interval
    (`now < lastTick + iv`: it fires at every multiple of the interval), then every operation
    acknowledged more than one interval before the failure (`t + iv < now`) is inside every
    outcome's prefix: position `i` of the acknowledged history lies below the cut `j`. -/
theorem C01_periodic_old_acks_survive (iv : Nat) (rot : Bool) (evs : List Ev) :
    let s := run { iv := iv, rot := rot, fix := true } evs
    s.now < s.lastTick + s.iv →
    ∀ o ∈ outcomes s, ∃ j, j ≤ s.log.length ∧ o = fold ((s.log.map (·.2)).take j) ∧
      ∀ i (h : i < s.log.length), (s.log[i]).1 + s.iv < s.now → i < j := by
  intro s htick o ho
  have hI : Inv s := (inv_run evs (s := { iv := iv, rot := rot, fix := true }) rfl (inv_init iv rot)).1
  obtain ⟨j, h1, h2, h3⟩ := C01_periodic_outcome_is_covering_prefix iv rot evs o ho
  have h1 : s.coveredAtTick ≤ j := h1
  have h2 : j ≤ s.log.length := h2
  refine ⟨j, h2, h3, ?_⟩
  intro i hi hold
  by_cases hc : s.coveredAtTick ≤ i
  · have := hI.late i hi hc
    omega
  · omega

/-- **Why the outgoing segment must be synced** (the code before c353f41): an insert, a clean
    restart, then any number of timer ticks — a power failure five intervals later can still leave
    the empty collection; likewise with rotation after every write. -/
theorem C01_periodic_unsynced_outgoing_segment_loses_old_ack :
    ([] : Docs) ∈ outcomes (run { iv := 100, rot := false, fix := false }
      [.ins 1 1, .restart, .advance 100, .tick, .advance 100, .tick, .advance 300]) ∧
    ([] : Docs) ∈ outcomes (run { iv := 100, rot := true, fix := false }
      [.ins 1 1, .ins 2 2, .advance 100, .tick, .advance 100, .tick, .advance 300]) := by
  decide

/-- non-vacuity: the same two histories with the fix keep everything -/
example :
    outcomes (run { iv := 100, rot := false, fix := true }
      [.ins 1 1, .restart, .advance 100, .tick, .advance 100, .tick, .advance 300]) = [[(1, 1)]] ∧
    (run { iv := 100, rot := false, fix := true }
      [.ins 1 1, .restart, .advance 100, .tick, .advance 100, .tick, .advance 300]).now <
      (run { iv := 100, rot := false, fix := true }
        [.ins 1 1, .restart, .advance 100, .tick, .advance 100, .tick, .advance 300]).lastTick + 100 + 300 := by
  decide

end KyroModel.C01Periodic
