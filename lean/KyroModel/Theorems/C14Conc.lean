/-
C14, concurrent half — the step-level protocol of one tenant's quota around ONE document id.

`Insert` = exists-check (+ reservation when the id is new), then the engine write; `Delete` = the
engine delete (which reports whether it removed something), then the decrement.  Threads interleave
at step granularity.  WITHOUT a common lock the count drifts (`C14_unlocked_delete_drifts`: the
schedule `./check C14` found on the pre-fix server); WITH the per-tenant quota lock held across each
whole operation (fix 9bf38f7) every schedule is a sequential history, and sequential histories keep
count = live (`C14_locked_schedules_exact`).  Tie to the code: the schedule exploration of
`./check C14` on the real handlers (every final state counted = live = usage).
-/
namespace KyroModel.C14.Conc

structure St where
  live : Bool          -- is the document stored?
  count : Nat          -- vectors counted against the quota (for this id: 0 or 1 when exact)
deriving DecidableEq, Repr

/-- per thread: what its exists-check / its engine delete observed -/
abbrev Locals := List (Nat × Bool)

def getL (l : Locals) (i : Nat) : Bool := ((l.find? (·.1 == i)).map (·.2)).getD false
def setL (l : Locals) (i : Nat) (b : Bool) : Locals := (i, b) :: l.filter (·.1 != i)

inductive Step
  | insCheck (i : Nat)     -- enforce_vector_quota: exists? ; if not, reserve one slot
  | insWrite (i : Nat)     -- engine.insert
  | delRemove (i : Nat)    -- engine.delete -> existed
  | delDec (i : Nat)       -- if existed: decrement
deriving DecidableEq, Repr

def step (s : St) (l : Locals) : Step → St × Locals
  | .insCheck i => (if s.live then s else { s with count := s.count + 1 }, setL l i s.live)
  | .insWrite _ => ({ s with live := true }, l)
  | .delRemove i => ({ s with live := false }, setL l i s.live)
  | .delDec i => (if getL l i then { s with count := s.count - 1 } else s, l)

def run (s : St) (l : Locals) : List Step → St
  | [] => s
  | x :: xs => run (step s l x).1 (step s l x).2 xs

def Exact (s : St) : Prop := s.count = if s.live then 1 else 0

/-- **Without a common lock**: an overwrite's exists-check, then a whole delete, then the
    overwrite's write — one live document, nothing counted. -/
theorem C14_unlocked_delete_drifts :
    run ⟨true, 1⟩ [] [.insCheck 0, .delRemove 1, .delDec 1, .insWrite 0] = ⟨true, 0⟩ := by decide

/-- the discipline the quota lock enforces: a schedule is a concatenation of whole operations -/
inductive Locked : List Step → Prop
  | nil : Locked []
  | insert (i : Nat) {rest : List Step} : Locked rest → Locked (.insCheck i :: .insWrite i :: rest)
  | delete (i : Nat) {rest : List Step} : Locked rest → Locked (.delRemove i :: .delDec i :: rest)

theorem getL_setL (l : Locals) (i : Nat) (b : Bool) : getL (setL l i b) i = b := by
  simp [getL, setL]

/-- **With the lock held across each whole operation, every schedule keeps count = live.** -/
theorem C14_locked_schedules_exact (sched : List Step) (h : Locked sched) :
    ∀ (s : St) (l : Locals), Exact s → Exact (run s l sched) := by
  induction h with
  | nil => intro s l hs; exact hs
  | insert i _ ih =>
    intro s l hs
    simp only [run, step]
    apply ih
    unfold Exact at hs ⊢
    cases hl : s.live <;> simp_all
  | delete i _ ih =>
    intro s l hs
    simp only [run, step, getL_setL]
    apply ih
    unfold Exact at hs ⊢
    cases hl : s.live <;> simp_all

/-- non-vacuity: a locked schedule mixing both operations of two threads -/
example : Locked [.insCheck 0, .insWrite 0, .delRemove 1, .delDec 1, .delRemove 0, .delDec 0, .insCheck 1, .insWrite 1] :=
  .insert 0 (.delete 1 (.delete 0 (.insert 1 .nil)))

end KyroModel.C14.Conc
