/-
C18 — Unsafe durability and exposure settings are refused outside benchmark mode.

Property statements only.  `KyroModel/Config/Generated.lean` is REGENERATED from the current
`engine/src/config.rs` by translators/xlate_config.py on every run of `./check C18`; the
theorems below are then re-checked against what `KyroDbConfig::validate` says now.  Second tie:
the generated `validate` is run against the real `KyroDbConfig::load` on the full cross product
of the safety-relevant settings × delivery (TOML, YAML, environment overrides).
-/
import KyroModel.Config.Generated

namespace KyroModel.C18
open KyroModel.Config

/-- what an accepted configuration must satisfy (hand-written, from the property) -/
def Safe (a : Atoms) : Prop :=
  ((a.env = .production ∨ a.env = .pilot) →
      a.fsyncNone = false ∧ a.snapZero = false ∧ a.recoveryBestEffort = false ∧
      a.strategyLearned = true) ∧
  (a.env = .pilot →
      a.authEnabled = true ∧ a.rateLimitEnabled = true ∧ a.obsAuthOn = true ∧ a.freshStart = false ∧
      (a.tlsEnabled = true ∨ a.grpcLoopback = true)) ∧
  ((a.env = .production ∧ a.grpcLoopback = false) → a.authEnabled = true)

/-- **Every accepted configuration is safe** — for all values of every other setting (the
    opaque atoms `a.other n` are universally quantified), for every environment string (after
    the code's own trim + lower-casing). -/
theorem C18_validate_sound (a : Atoms) (h : validate a = true) : Safe a := by
  unfold validate at h
  have hn : (namedGuards a).all id = true := by
    cases hh : (namedGuards a).all id <;> simp [hh] at h ⊢
  clear h
  unfold namedGuards at hn
  unfold Safe
  cases henv : a.env <;> cases hg : a.grpcLoopback <;> cases ha : a.authEnabled <;>
    cases ht : a.tlsEnabled <;> simp_all

/-- an unknown environment string is rejected outright (so "production or pilot" cannot be
    dodged by a third spelling) -/
theorem C18_unknown_environment_rejected (a : Atoms) (h : a.env = .other) : validate a = false := by
  unfold validate namedGuards
  simp [h]

/-- the loopback test accepts exactly `::1`, `localhost` and `127.*` (after normalisation) -/
theorem C18_loopback_literals :
    loopbackEquals = ["::1", "localhost"] ∧ loopbackPrefixes = ["127."] := by decide

/-! ### Witnesses: both directions are non-vacuous -/

def benign (env : Env) : Atoms :=
  { env := env, strategyLearned := true, fsyncNone := false, snapZero := false,
    recoveryBestEffort := false, authEnabled := true, rateLimitEnabled := true, obsAuthOn := true,
    freshStart := false, tlsEnabled := false, grpcLoopback := true, httpLoopback := true,
    other := benignOther }

/-- a safe pilot configuration is accepted (the hypothesis of the theorem is satisfiable)… -/
example : validate (benign .pilot) = true := by decide
/-- …and flipping one safety setting gets it rejected -/
example : validate { (benign .pilot) with fsyncNone := true } = false := by decide
example : validate { (benign .production) with snapZero := true } = false := by decide
example : validate { (benign .pilot) with grpcLoopback := false } = false := by decide
/-- benchmark mode may disable them -/
def benchUnsafe : Atoms :=
  { env := .benchmark, strategyLearned := false, fsyncNone := true, snapZero := true,
    recoveryBestEffort := true, authEnabled := false, rateLimitEnabled := false, obsAuthOn := false,
    freshStart := true, tlsEnabled := false, grpcLoopback := false, httpLoopback := false,
    other := benignOther }
example : validate benchUnsafe = true := by decide

end KyroModel.C18
