/-
C18 — Unsafe durability and exposure settings are refused outside benchmark mode.

Property statements only.  `KyroModel/Config/Generated.lean` is REGENERATED from the current
`engine/src/config.rs` by translators/xlate_config.py on every run of `./check C18`; the
theorems below are then re-checked against what `KyroDbConfig::validate` says now.  Second tie:
the generated `validate` is run against the real `KyroDbConfig::load` on the full cross product
of the safety-relevant settings × delivery (TOML, YAML, environment overrides).
-/
import KyroModel.Config.Generated

namespace KyroModel.C18
open KyroModel.Config

/-- what an accepted configuration must satisfy (hand-written, from the property) -/
def Safe (a : Atoms) : Prop :=
  ((a.env = .production ∨ a.env = .pilot) →
      a.fsyncNone = false ∧ a.snapZero = false ∧ a.recoveryBestEffort = false ∧
      a.strategyLearned = true) ∧
  (a.env = .pilot →
      a.authEnabled = true ∧ a.rateLimitEnabled = true ∧ a.obsAuthOn = true ∧ a.freshStart = false ∧
      (a.tlsEnabled = true ∨ a.grpcLoopback = true)) ∧
  ((a.env = .production ∧ a.grpcLoopback = false) → a.authEnabled = true)

/-- **Every accepted configuration is safe** — for all values of every other setting (the
    opaque atoms `a.other n` are universally quantified), for every environment string (after
    the code's own trim + lower-casing). -/
theorem C18_validate_sound (a : Atoms) (h : validate a = true) : Safe a := by
  unfold validate at h
  have hn : (namedGuards a).all id = true := by
    cases hh : (namedGuards a).all id <;> simp [hh] at h ⊢
  clear h
  unfold namedGuards at hn
  unfold Safe
  cases henv : a.env <;> cases hg : a.grpcLoopback <;> cases ha : a.authEnabled <;>
    cases ht : a.tlsEnabled <;> simp_all

/-- an unknown environment string is rejected outright (so "production or pilot" cannot be
    dodged by a third spelling) -/
theorem C18_unknown_environment_rejected (a : Atoms) (h : a.env = .other) : validate a = false := by
  unfold validate namedGuards
  simp [h]

/-- the loopback test accepts exactly `::1`, `localhost` and `127.*` (after normalisation) -/
theorem C18_loopback_literals :
    loopbackEquals = ["::1", "localhost"] ∧ loopbackPrefixes = ["127."] := by decide

/-! ### The refusals, stated outright

Contrapositives of `C18_validate_sound`, one per clause of the property: each holds for every
value of every other setting (all the other atoms, named and opaque, are universally
quantified), so no combination of the remaining settings can buy an unsafe one back. -/

/-- production or pilot with fsync disabled, snapshots disabled, best-effort recovery or a
    non-learned cache strategy is refused -/
theorem C18_durability_refused (a : Atoms) (henv : a.env = .production ∨ a.env = .pilot)
    (hbad : a.fsyncNone = true ∨ a.snapZero = true ∨ a.recoveryBestEffort = true ∨
            a.strategyLearned = false) : validate a = false := by
  cases hv : validate a with
  | false => rfl
  | true =>
    have h := (C18_validate_sound a hv).1 henv
    rcases hbad with h1 | h1 | h1 | h1 <;> simp_all

/-- pilot without authentication, rate limiting, protected observability endpoints, with
    fresh-start-after-failed-recovery, or with neither TLS nor a loopback bind is refused -/
theorem C18_pilot_exposure_refused (a : Atoms) (henv : a.env = .pilot)
    (hbad : a.authEnabled = false ∨ a.rateLimitEnabled = false ∨ a.obsAuthOn = false ∨
            a.freshStart = true ∨ (a.tlsEnabled = false ∧ a.grpcLoopback = false)) :
    validate a = false := by
  cases hv : validate a with
  | false => rfl
  | true =>
    have h := (C18_validate_sound a hv).2.1 henv
    rcases hbad with h1 | h1 | h1 | h1 | ⟨h1, h2⟩ <;> simp_all

/-- production on a non-loopback bind without authentication is refused -/
theorem C18_production_open_bind_refused (a : Atoms) (henv : a.env = .production)
    (hbind : a.grpcLoopback = false) (hauth : a.authEnabled = false) : validate a = false := by
  cases hv : validate a with
  | false => rfl
  | true =>
    have h := (C18_validate_sound a hv).2.2 ⟨henv, hbind⟩
    simp_all

/-- `a` with the four durability settings, the fresh-start flag and the bind class replaced -/
def withDurability (a : Atoms) (f s r l fr g : Bool) : Atoms :=
  { a with fsyncNone := f, snapZero := s, recoveryBestEffort := r, strategyLearned := l,
           freshStart := fr, grpcLoopback := g }

/-- benchmark mode is the only escape: there the four durability settings, the fresh-start flag
    and the bind class do not enter the verdict at all -/
theorem C18_benchmark_ignores_durability (a : Atoms) (henv : a.env = .benchmark)
    (f s r l fr g : Bool) : validate (withDurability a f s r l fr g) = validate a := by
  have hp : (Env.benchmark == Env.pilot) = false := by decide
  have hq : (Env.benchmark == Env.production) = false := by decide
  have hplain : plainGuards (withDurability a f s r l fr g) = plainGuards a := rfl
  unfold validate
  rw [hplain]
  unfold namedGuards withDurability
  simp [henv, hp, hq]

/-! ### Witnesses: both directions are non-vacuous -/

def benign (env : Env) : Atoms :=
  { env := env, strategyLearned := true, fsyncNone := false, snapZero := false,
    recoveryBestEffort := false, authEnabled := true, rateLimitEnabled := true, obsAuthOn := true,
    freshStart := false, tlsEnabled := false, grpcLoopback := true, httpLoopback := true,
    other := benignOther }

/-- a safe pilot configuration is accepted (the hypothesis of the theorem is satisfiable)… -/
example : validate (benign .pilot) = true := by decide
/-- …and flipping one safety setting gets it rejected -/
example : validate { (benign .pilot) with fsyncNone := true } = false := by decide
example : validate { (benign .production) with snapZero := true } = false := by decide
example : validate { (benign .pilot) with grpcLoopback := false } = false := by decide
/-- benchmark mode may disable them -/
def benchUnsafe : Atoms :=
  { env := .benchmark, strategyLearned := false, fsyncNone := true, snapZero := true,
    recoveryBestEffort := true, authEnabled := false, rateLimitEnabled := false, obsAuthOn := false,
    freshStart := true, tlsEnabled := false, grpcLoopback := false, httpLoopback := false,
    other := benignOther }
example : validate benchUnsafe = true := by decide

end KyroModel.C18
