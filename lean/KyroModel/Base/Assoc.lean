/-
Association lists keyed by `Nat` (document ids).  Core Lean only.

These model the hash maps of the implementation (`HashMap<u64, _>`): lookup returns the
first binding, `aset` replaces, `aerase` removes every binding of the key.  Iteration order
of a hash map is never observable in the model's outputs (the driver sorts by key).
-/
namespace KyroModel

def alookup {α : Type} (k : Nat) : List (Nat × α) → Option α
  | [] => none
  | (k', v) :: rest => if k' = k then some v else alookup k rest

def aerase {α : Type} (k : Nat) (l : List (Nat × α)) : List (Nat × α) :=
  l.filter (fun p => p.1 ≠ k)

def aset {α : Type} (k : Nat) (v : α) (l : List (Nat × α)) : List (Nat × α) :=
  (k, v) :: aerase k l

def akeys {α : Type} (l : List (Nat × α)) : List Nat := l.map (·.1)

def amem {α : Type} (k : Nat) (l : List (Nat × α)) : Bool := (alookup k l).isSome

@[simp] theorem alookup_nil {α : Type} (k : Nat) : alookup k ([] : List (Nat × α)) = none := rfl

@[simp] theorem alookup_cons {α : Type} (k k' : Nat) (v : α) (l : List (Nat × α)) :
    alookup k ((k', v) :: l) = if k' = k then some v else alookup k l := rfl

theorem aerase_cons_eq {α : Type} (k : Nat) (v : α) (l : List (Nat × α)) :
    aerase k ((k, v) :: l) = aerase k l := by
  simp [aerase, List.filter]

theorem aerase_cons_ne {α : Type} (k k' : Nat) (v : α) (l : List (Nat × α)) (h : k' ≠ k) :
    aerase k ((k', v) :: l) = (k', v) :: aerase k l := by
  simp [aerase, List.filter, h]

theorem alookup_aerase_self {α : Type} (k : Nat) (l : List (Nat × α)) :
    alookup k (aerase k l) = none := by
  induction l with
  | nil => rfl
  | cons p rest ih =>
    obtain ⟨k', v⟩ := p
    by_cases h : k' = k
    · subst h; rw [aerase_cons_eq]; exact ih
    · rw [aerase_cons_ne k k' v rest h]; simp [h, ih]

theorem alookup_aerase_ne {α : Type} (k j : Nat) (l : List (Nat × α)) (h : j ≠ k) :
    alookup j (aerase k l) = alookup j l := by
  induction l with
  | nil => rfl
  | cons p rest ih =>
    obtain ⟨k', v⟩ := p
    by_cases h1 : k' = k
    · subst h1
      rw [aerase_cons_eq]
      have : k' ≠ j := fun e => h e.symm
      simp [this, ih]
    · rw [aerase_cons_ne k k' v rest h1]
      by_cases h2 : k' = j
      · simp [h2]
      · simp [h2, ih]

@[simp] theorem alookup_aset_self {α : Type} (k : Nat) (v : α) (l : List (Nat × α)) :
    alookup k (aset k v l) = some v := by
  simp [aset]

theorem alookup_aset_ne {α : Type} (k j : Nat) (v : α) (l : List (Nat × α)) (h : j ≠ k) :
    alookup j (aset k v l) = alookup j l := by
  have : k ≠ j := fun e => h e.symm
  simp [aset, this, alookup_aerase_ne k j l h]

theorem length_aerase_le {α : Type} (k : Nat) (l : List (Nat × α)) :
    (aerase k l).length ≤ l.length := by
  unfold aerase; exact List.length_filter_le _ _

/-- Keys pairwise distinct. -/
def AKeysNodup {α : Type} (l : List (Nat × α)) : Prop := (akeys l).Nodup

theorem akeys_aerase {α : Type} (k : Nat) (l : List (Nat × α)) :
    akeys (aerase k l) = (akeys l).filter (· ≠ k) := by
  induction l with
  | nil => rfl
  | cons p rest ih =>
    obtain ⟨k', v⟩ := p
    by_cases h : k' = k
    · subst h; rw [aerase_cons_eq, ih]; simp [akeys, List.filter]
    · rw [aerase_cons_ne k k' v rest h]
      simp only [akeys, List.map_cons] at *
      rw [ih]; simp [List.filter, h]

theorem nodup_aerase {α : Type} (k : Nat) (l : List (Nat × α)) (h : AKeysNodup l) :
    AKeysNodup (aerase k l) := by
  unfold AKeysNodup at *
  rw [akeys_aerase]
  exact h.filter _

theorem not_mem_akeys_aerase {α : Type} (k : Nat) (l : List (Nat × α)) :
    k ∉ akeys (aerase k l) := by
  rw [akeys_aerase]; simp

theorem nodup_aset {α : Type} (k : Nat) (v : α) (l : List (Nat × α)) (h : AKeysNodup l) :
    AKeysNodup (aset k v l) := by
  unfold AKeysNodup aset at *
  simp only [akeys, List.map_cons, List.nodup_cons]
  exact ⟨not_mem_akeys_aerase k l, nodup_aerase k l h⟩

theorem alookup_none_of_not_mem {α : Type} (k : Nat) (l : List (Nat × α))
    (h : k ∉ akeys l) : alookup k l = none := by
  induction l with
  | nil => rfl
  | cons p rest ih =>
    obtain ⟨k', v⟩ := p
    simp only [akeys, List.map_cons, List.mem_cons, not_or] at h
    have h1 : k' ≠ k := fun e => h.1 e.symm
    simp [h1]
    exact ih h.2

theorem mem_akeys_of_alookup {α : Type} (k : Nat) (v : α) (l : List (Nat × α))
    (h : alookup k l = some v) : k ∈ akeys l := by
  induction l with
  | nil => simp at h
  | cons p rest ih =>
    obtain ⟨k', v'⟩ := p
    by_cases h1 : k' = k
    · simp [akeys, h1]
    · simp [h1] at h
      simp only [akeys, List.map_cons, List.mem_cons]
      exact Or.inr (ih h)

theorem exists_alookup_of_mem {α : Type} (k : Nat) (l : List (Nat × α))
    (h : k ∈ akeys l) : ∃ v, alookup k l = some v := by
  induction l with
  | nil => simp [akeys] at h
  | cons p rest ih =>
    obtain ⟨k', v'⟩ := p
    by_cases h1 : k' = k
    · exact ⟨v', by simp [h1]⟩
    · simp only [akeys, List.map_cons, List.mem_cons] at h
      rcases h with h | h
      · exact absurd h.symm h1
      · obtain ⟨v, hv⟩ := ih h
        exact ⟨v, by simp [h1, hv]⟩

theorem not_mem_of_alookup_none {α : Type} (k : Nat) (l : List (Nat × α))
    (h : alookup k l = none) : k ∉ akeys l := by
  intro hm
  obtain ⟨v, hv⟩ := exists_alookup_of_mem k l hm
  rw [hv] at h; cases h

theorem aerase_length_lt_of_mem {α : Type} (k : Nat) (l : List (Nat × α))
    (h : k ∈ akeys l) : (aerase k l).length < l.length := by
  induction l with
  | nil => simp [akeys] at h
  | cons p rest ih =>
    obtain ⟨k', v⟩ := p
    have hle := length_aerase_le k rest
    by_cases h1 : k' = k
    · subst h1
      rw [aerase_cons_eq]
      simp only [List.length_cons]
      omega
    · rw [aerase_cons_ne k k' v rest h1]
      simp only [akeys, List.map_cons, List.mem_cons] at h
      have hk : k ∈ akeys rest := by
        rcases h with h | h
        · exact absurd h.symm h1
        · exact h
      have := ih hk
      simp only [List.length_cons]
      omega

theorem mem_akeys_aerase {α : Type} (k j : Nat) (l : List (Nat × α)) (h : j ∈ akeys (aerase k l)) :
    j ∈ akeys l ∧ j ≠ k := by
  rw [akeys_aerase] at h
  simp only [List.mem_filter, decide_eq_true_eq] at h
  exact h

theorem mem_akeys_aerase_of {α : Type} (k j : Nat) (l : List (Nat × α)) (h : j ∈ akeys l)
    (hne : j ≠ k) : j ∈ akeys (aerase k l) := by
  rw [akeys_aerase]
  simp only [List.mem_filter, decide_eq_true_eq]
  exact ⟨h, hne⟩

theorem mem_akeys_aset {α : Type} (k j : Nat) (v : α) (l : List (Nat × α)) :
    j ∈ akeys (aset k v l) ↔ j = k ∨ j ∈ akeys l := by
  unfold aset
  simp only [akeys, List.map_cons, List.mem_cons]
  constructor
  · rintro (h | h)
    · exact Or.inl h
    · exact Or.inr (mem_akeys_aerase k j l h).1
  · rintro (h | h)
    · exact Or.inl h
    · by_cases hjk : j = k
      · exact Or.inl hjk
      · exact Or.inr (mem_akeys_aerase_of k j l h hjk)


end KyroModel
