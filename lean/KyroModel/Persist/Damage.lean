/-
Single faults on a cleanly stopped data directory (C13), at the level of what the per-file
readers report about the damaged file: a segment is gone / cannot be opened / yields a subset of
its frames plus a count of frames seen as corrupted; a snapshot is gone / unreadable; the
MANIFEST is gone / unparsable / parses to other field values.  Which byte damage produces which
of these is the codec's business (`Persist/Codec.lean`); what strict recovery then does with the
directory is `recover`.
-/
import KyroModel.Persist.Model

namespace KyroModel

inductive Damage
  | manifestGone
  | manifestUnparsable
  | manifestIs (m : Manifest)
  | walGone (n : Nat)
  | walOpenFails (n : Nat)
  | walSees (n : Nat) (seqs : List Nat) (corrupted : Nat)
  | snapGone (n : Nat)
  | snapUnreadable (n : Nat)
deriving Repr

/-- the segment as the reader sees it: the frames whose sequence numbers are in `seqs` -/
def WalFile.seen (w : WalFile) (seqs : List Nat) (c : Nat) : WalFile :=
  { entries := w.entries.filter (fun e => seqs.contains e.seq), corrupted := c, badMagic := false }

def Disk.damage (d : Disk) : Damage → Disk
  | .manifestGone => { d with manifest := none }
  | .manifestUnparsable => { d with manifest := none }
  | .manifestIs m => { d with manifest := some m }
  | .walGone n => { d with wals := aerase n d.wals }
  | .walOpenFails n =>
    match alookup n d.wals with
    | some w => { d with wals := aset n { w with badMagic := true } d.wals }
    | none => d
  | .walSees n seqs c =>
    match alookup n d.wals with
    | some w =>
      { d with wals := aset n (w.seen seqs c) d.wals }
    | none => d
  | .snapGone n => { d with snaps := aerase n d.snaps }
  | .snapUnreadable n =>
    match alookup n d.snaps with
    | some _ => { d with snaps := aset n none d.snaps }
    | none => d

/-- strict start-up on the damaged directory -/
def recoverAfter (d : Disk) (dmg : Damage) : Except RecErr (Docs × Nat) :=
  match dmg with
  | .manifestUnparsable => .error .manifestUnreadable
  | _ => recover (d.damage dmg)

end KyroModel
