/-
Persistence protocol of `HnswBackend` (engine/src/{hnsw_backend,persistence}.rs) at the level of
*logical file-system actions* (layer L2 of DESIGN §3.0): WAL segments as lists of whole frames,
snapshots as immutable published files, the MANIFEST as an atomic cell.  Core Lean only.

What the byte level contributes (frame codec, CRC, torn tails, atomic tmp+rename saves) is
modelled in `Persist/Codec.lean` and enters here through two facts: a torn tail is invisible to
the reader, and a save is atomic.  File names are canonicalised to creation order (`Nat`).
-/
import KyroModel.Store.DocStore

namespace KyroModel

inductive WOp | insert | delete | update
deriving DecidableEq, Repr

structure WEntry where
  seq : Nat
  op : WOp
  id : Nat
  vec : List Nat
  md : MetaMap
deriving Repr

structure Manifest where
  snap : Option Nat            -- latest_snapshot (file name)
  snapSeq : Option Nat         -- latest_snapshot_wal_seq
  segs : List Nat              -- wal_segments, in order
deriving Repr

abbrev Docs := List (Nat × (List Nat × MetaMap))

structure SnapFile where
  lastSeq : Nat
  docs : Docs
deriving Repr

/-- what a strict reader sees in a segment file -/
structure WalFile where
  entries : List WEntry
  corrupted : Nat := 0         -- frames the reader counts as corrupted (damage only)
  badMagic : Bool := false
deriving Repr

structure Disk where
  manifest : Option Manifest
  snaps : List (Nat × Option SnapFile)   -- `none` = present but unreadable (damage only)
  wals : List (Nat × WalFile)
deriving Repr

inductive Action
  | walCreate (n : Nat)
  | walAppend (n : Nat) (e : WEntry)
  | manifestPut (m : Manifest)
  | snapPut (n : Nat) (s : SnapFile)
  | unlinkWal (n : Nat)
  | unlinkSnap (n : Nat)
deriving Repr

def Disk.apply (d : Disk) : Action → Disk
  | .walCreate n => { d with wals := aset n {entries := []} d.wals }
  | .walAppend n e =>
    match alookup n d.wals with
    | some w => { d with wals := aset n { w with entries := w.entries ++ [e] } d.wals }
    | none => d
  | .manifestPut m => { d with manifest := some m }
  | .snapPut n s => { d with snaps := aset n (some s) d.snaps }
  | .unlinkWal n => { d with wals := aerase n d.wals }
  | .unlinkSnap n => { d with snaps := aerase n d.snaps }

def Disk.applyAll (d : Disk) (as : List Action) : Disk := as.foldl Disk.apply d

/-! ### Recovery -/

inductive RecErr
  | noManifest | snapshotUnreadable | missingSegment (n : Nat) | corruptFrames (n : Nat) | badMagic (n : Nat)
deriving DecidableEq, Repr

def Docs.apply (d : Docs) (e : WEntry) : Docs :=
  match e.op with
  | .insert => aset e.id (e.vec, e.md) d
  | .delete => aerase e.id d
  | .update =>
    match alookup e.id d with
    | some (v, _) => aset e.id (v, e.md) d
    | none => d

/-- replay with the sequence-based skip of entries the snapshot already covers -/
def replay (base : Docs) (snapSeq : Nat) (es : List WEntry) : Docs :=
  es.foldl (fun d e => if snapSeq > 0 ∧ e.seq > 0 ∧ e.seq ≤ snapSeq then d else d.apply e) base

def maxSeq (m : Nat) (es : List WEntry) : Nat := es.foldl (fun a e => max a e.seq) m

/-- `Snapshot::load_with_validation`: the pointed file, else up to five older `*.snap` files of
    the directory, newest first (all of them when the pointed file is not in the directory). -/
def loadSnapshot (d : Disk) (name : Nat) : Option SnapFile :=
  match alookup name d.snaps with
  | some (some s) => some s
  | _ =>
    let names := ((d.snaps.map (·.1)).mergeSort (fun a b => b ≤ a)).eraseDups
    let older := if names.contains name then names.filter (· < name) else names
    ((older.take 5).filterMap fun n => (alookup n d.snaps).join).head?

/-- strict `recover`: documents and the largest sequence number seen -/
def recover (d : Disk) : Except RecErr (Docs × Nat) :=
  match d.manifest with
  | none => .error .noManifest
  | some m =>
    let snapR : Except RecErr (Docs × Nat) :=
      match m.snap with
      | none => .ok ([], 0)
      | some n =>
        match loadSnapshot d n with
        | some s => .ok (s.docs, s.lastSeq)
        | none => .error .snapshotUnreadable
    match snapR with
    | .error e => .error e
    | .ok (base, snapSeq) =>
      m.segs.foldl
        (fun (acc : Except RecErr (Docs × Nat)) n =>
          match acc with
          | .error e => .error e
          | .ok (docs, mx) =>
            match alookup n d.wals with
            | none => .error (.missingSegment n)
            | some w =>
              if w.badMagic then .error (.badMagic n)
              else if w.corrupted > 0 then .error (.corruptFrames n)
              else .ok (replay docs snapSeq w.entries, maxSeq mx w.entries))
        (.ok (base, snapSeq))

/-! ### The engine -/

structure PCfg where
  snapInterval : Nat
  maxWal : Nat
  cap : Nat

structure PEng where
  store : DocStore
  nextSeq : Nat
  since : Nat                  -- inserts_since_snapshot
  active : Nat                 -- active segment
  bytes : Nat                  -- bytes_written of the active segment
  nextName : Nat               -- files created so far (names are creation indices)
  degraded : Bool := false
  cfg : PCfg

/-- live documents in slot order -/
def liveDocs (s : DocStore) : Docs :=
  s.slots.filterMap fun sl => sl.ext.map fun id => (id, (sl.vec, sl.md))

section
variable (parse : String → Option Nat)

/-- rebuild the store from recovered documents: sorted by id, versions 1 -/
def buildStore (cap : Nat) (docs : Docs) : DocStore :=
  (docs.mergeSort (fun a b => a.1 ≤ b.1)).foldl
    (fun s p => s.insertWith parse p.1 p.2.1 p.2.2 1) (DocStore.empty cap)

/-- `rotate_wal_if_needed` (after an append): result engine + the actions issued -/
def rotate (e : PEng) (d : Disk) : PEng × List Action :=
  if e.cfg.maxWal = 0 ∨ e.bytes < e.cfg.maxWal then (e, []) else
  match d.manifest with
  | none => (e, [])                      -- MANIFEST missing: rotation refused (error swallowed)
  | some m =>
    let n := e.nextName
    ({ e with active := n, bytes := 4, nextName := n + 1 },
     [.walCreate n, .manifestPut { m with segs := m.segs ++ [n] }])

/-- log one entry: append (+ rotation) -/
def logEntry (e : PEng) (d : Disk) (en : WEntry) (flen : Nat) : PEng × Disk × List Action :=
  let a1 := Action.walAppend e.active en
  let d1 := d.apply a1
  let e1 := { e with bytes := e.bytes + flen }
  let (e2, as2) := rotate e1 d1
  (e2, d1.applyAll as2, a1 :: as2)

/-- `compact_old_wal_segments`: every non-last listed segment whose entries are all covered -/
def compactable (d : Disk) (m : Manifest) (lastSeq : Nat) : List Nat :=
  m.segs.dropLast.filter fun n =>
    match alookup n d.wals with
    | none => false
    | some w => w.corrupted = 0 && !w.badMagic &&
        w.entries.all fun en => decide (en.seq > 0 ∧ lastSeq > 0 ∧ en.seq ≤ lastSeq)

/-- segments dropped from the list although not unlinked by this run (already missing) -/
def missingSegs (d : Disk) (m : Manifest) : List Nat :=
  m.segs.dropLast.filter fun n => (alookup n d.wals).isNone

/-- `create_snapshot` -/
def snapshot (e : PEng) (d : Disk) : PEng × Disk × List Action :=
  let lastSeq := e.nextSeq - 1
  let name := e.nextName
  let a1 := Action.snapPut name ⟨lastSeq, liveDocs e.store⟩
  let d1 := d.apply a1
  let e1 := { e with nextName := name + 1 }
  match d1.manifest with
  | none => (e1, d1, [a1])
  | some m =>
    if m.snapSeq.getD 0 > lastSeq then
      (e1, d1.apply (.unlinkSnap name), [a1, .unlinkSnap name])
    else
      let m1 : Manifest := { m with snap := some name, snapSeq := some lastSeq }
      let dead := compactable d1 m1 lastSeq
      let gone := missingSegs d1 m1
      let m2 : Manifest := { m1 with segs := m1.segs.filter fun n => !(dead.contains n || gone.contains n) }
      -- fix "publish the pruned segment list before unlinking": the pruned MANIFEST is made
      -- durable first, orphaned files are unlinked afterwards
      let as := [Action.manifestPut m1, .manifestPut m2] ++ dead.map Action.unlinkWal
      ({ e1 with since := 0 }, d1.applyAll as, a1 :: as)

def maybeSnapshot (e : PEng) (d : Disk) : PEng × Disk × List Action :=
  if e.cfg.snapInterval > 0 ∧ e.since ≥ e.cfg.snapInterval then snapshot e d else (e, d, [])

inductive POut | ok | full | rejected | bool (b : Bool) | count (n : Nat) | err
deriving DecidableEq, Repr

inductive Accept | yes | preflight | index
deriving DecidableEq, Repr

/-- `HnswBackend::insert` with persistence -/
def pInsert (e : PEng) (d : Disk) (id : Nat) (v : List Nat) (m : MetaMap) (acc : Accept)
    (flen flenDel : Nat) : PEng × Disk × List Action × POut :=
  if e.degraded then (e, d, [], .rejected) else
  if acc = .preflight then (e, d, [], .rejected) else
  -- index-full handling (one tombstone compaction)
  let st1 := if e.store.slots.length ≥ e.store.cap ∧ e.store.tombstones > 0
             then e.store.compact parse else e.store
  let e0 := { e with store := st1 }
  if st1.slots.length ≥ st1.cap then (e0, d, [], .full) else
  let en : WEntry := ⟨e0.nextSeq, .insert, id, v, m⟩
  let (e1, d1, as1) := logEntry { e0 with nextSeq := e0.nextSeq + 1 } d en flen
  if acc = .index then
    -- refused by the ANN index after the log append: compensating Delete entry
    let en2 : WEntry := ⟨e1.nextSeq, .delete, id, [], []⟩
    let (e2, d2, as2) := logEntry { e1 with nextSeq := e1.nextSeq + 1 } d1 en2 flenDel
    (e2, d2, as1 ++ as2, .rejected)
  else
    let e2 := { e1 with store := e1.store.insertCore parse id v m, since := e1.since + 1 }
    let (e3, d3, as3) := maybeSnapshot e2 d1
    (e3, d3, as1 ++ as3, .ok)

/-- `HnswBackend::delete` -/
def pDelete (e : PEng) (d : Disk) (id : Nat) (flen : Nat) : PEng × Disk × List Action × POut :=
  if e.degraded then (e, d, [], .err) else
  match (e.store.delete parse id) with
  | (_, false) => (e, d, [], .bool false)
  | (st', true) =>
    let en : WEntry := ⟨e.nextSeq, .delete, id, [], []⟩
    let (e1, d1, as1) := logEntry { e with nextSeq := e.nextSeq + 1 } d en flen
    let e2 := { e1 with store := st', since := e1.since + 1 }
    let (e3, d3, as3) := maybeSnapshot e2 d1
    (e3, d3, as1 ++ as3, .bool true)

/-- `HnswBackend::batch_delete`: one Delete entry per *occurrence* of a live id in the request,
    consecutive sequence numbers, one rotation check after the batch -/
def pBatchDelete (e : PEng) (d : Disk) (ids : List Nat) (flen : Nat) :
    PEng × Disk × List Action × POut :=
  if e.degraded then (e, d, [], .err) else
  let occ := ids.filter fun id => (e.store.lookup id).isSome
  if occ.length = 0 then (e, d, [], .count 0) else
  let ens : List WEntry := (List.range occ.length).zip occ |>.map fun (i, id) =>
    ⟨e.nextSeq + i, .delete, id, [], []⟩
  let as1 := ens.map (Action.walAppend e.active)
  let d1 := d.applyAll as1
  let e1 := { e with nextSeq := e.nextSeq + occ.length, bytes := e.bytes + flen * occ.length }
  let (e2, as2) := rotate e1 d1
  let d2 := d1.applyAll as2
  let (st', n) := e2.store.batchDelete parse occ
  let e3 := { e2 with store := st', since := e2.since + occ.length }
  let (e4, d4, as4) := maybeSnapshot e3 d2
  (e4, d4, as1 ++ as2 ++ as4, .count n)

/-- `HnswBackend::update_metadata`; the entry carries the fully merged map -/
def pUpdate (e : PEng) (d : Disk) (id : Nat) (newMd : MetaMap) (flen : Nat) :
    PEng × Disk × List Action × POut :=
  if e.degraded then (e, d, [], .err) else
  match e.store.lookup id with
  | none => (e, d, [], .bool false)
  | some _ =>
    let en : WEntry := ⟨e.nextSeq, .update, id, [], newMd⟩
    let (e1, d1, as1) := logEntry { e with nextSeq := e.nextSeq + 1 } d en flen
    let e2 := { e1 with store := (e1.store.updateMeta parse id newMd).1, since := e1.since + 1 }
    let (e3, d3, as3) := maybeSnapshot e2 d1
    (e3, d3, as1 ++ as3, .bool true)

/-- `with_persistence` on an empty directory -/
def pInit (cfg : PCfg) : PEng × Disk × List Action :=
  let as := [Action.walCreate 0, .manifestPut ⟨none, none, [0]⟩]
  ({ store := DocStore.empty cfg.cap, nextSeq := 1, since := 0, active := 0, bytes := 4,
     nextName := 1, cfg := cfg },
   (⟨none, [], []⟩ : Disk).applyAll as, as)

/-- restart = drop memory, strict `recover`, new active segment -/
def pRestart (cfg : PCfg) (nextName : Nat) (d : Disk) : Except RecErr (PEng × Disk × List Action) :=
  match recover d, d.manifest with
  | .error e, _ => .error e
  | .ok _, none => .error .noManifest
  | .ok (docs, mx), some m =>
    let n := nextName
    let as := [Action.walCreate n, .manifestPut { m with segs := m.segs ++ [n] }]
    .ok ({ store := buildStore parse cfg.cap docs, nextSeq := mx + 1, since := 0, active := n,
           bytes := 4, nextName := n + 1, cfg := cfg },
         d.applyAll as, as)

end
end KyroModel
