/-
Persistence protocol of `HnswBackend` (engine/src/{hnsw_backend,persistence}.rs) at the level of
*logical file-system actions* (layer L2 of DESIGN §3.0): WAL segments as lists of whole frames,
snapshots as immutable published files, the MANIFEST as an atomic cell.  Core Lean only.

What the byte level contributes (frame codec, CRC, torn tails, atomic tmp+rename saves) is
modelled in `Persist/Codec.lean` and enters here through two facts: a torn tail is invisible to
the reader, and a save is atomic.  File names are canonicalised to creation order (`Nat`).
-/
import KyroModel.Base.Assoc
import KyroModel.Store.Filter

namespace KyroModel

inductive WOp | insert | delete | update
deriving DecidableEq, Repr

structure WEntry where
  seq : Nat
  op : WOp
  id : Nat
  vec : List Nat
  md : MetaMap
deriving Repr

structure Manifest where
  snap : Option Nat            -- latest_snapshot (file name)
  snapSeq : Option Nat         -- latest_snapshot_wal_seq
  segs : List Nat              -- wal_segments, in order
deriving Repr

abbrev Docs := List (Nat × (List Nat × MetaMap))

structure SnapFile where
  lastSeq : Nat
  docs : Docs
deriving Repr

/-- what a strict reader sees in a segment file -/
structure WalFile where
  entries : List WEntry
  corrupted : Nat := 0         -- frames the reader counts as corrupted (damage only)
  badMagic : Bool := false
deriving Repr

structure Disk where
  manifest : Option Manifest
  snaps : List (Nat × Option SnapFile)   -- `none` = present but unreadable (damage only)
  wals : List (Nat × WalFile)
deriving Repr

inductive Action
  | walCreate (n : Nat)
  | walAppend (n : Nat) (e : WEntry)
  | manifestPut (m : Manifest)
  | snapPut (n : Nat) (s : SnapFile)
  | unlinkWal (n : Nat)
  | unlinkSnap (n : Nat)
deriving Repr

def Disk.apply (d : Disk) : Action → Disk
  | .walCreate n => { d with wals := aset n {entries := []} d.wals }
  | .walAppend n e =>
    match alookup n d.wals with
    | some w => { d with wals := aset n { w with entries := w.entries ++ [e] } d.wals }
    | none => d
  | .manifestPut m => { d with manifest := some m }
  | .snapPut n s => { d with snaps := aset n (some s) d.snaps }
  | .unlinkWal n => { d with wals := aerase n d.wals }
  | .unlinkSnap n => { d with snaps := aerase n d.snaps }

def Disk.applyAll (d : Disk) (as : List Action) : Disk := as.foldl Disk.apply d

/-! ### Recovery -/

inductive RecErr
  | noManifest | manifestUnreadable | snapshotUnreadable | missingSegment (n : Nat) | corruptFrames (n : Nat)
  | badMagic (n : Nat)
deriving DecidableEq, Repr

def Docs.apply (d : Docs) (e : WEntry) : Docs :=
  match e.op with
  | .insert => aset e.id (e.vec, e.md) d
  | .delete => aerase e.id d
  | .update =>
    match alookup e.id d with
    | some (v, _) => aset e.id (v, e.md) d
    | none => d

/-- replay with the sequence-based skip of entries the snapshot already covers -/
def replay (base : Docs) (snapSeq : Nat) (es : List WEntry) : Docs :=
  es.foldl (fun d e => if snapSeq > 0 ∧ e.seq > 0 ∧ e.seq ≤ snapSeq then d else d.apply e) base

def maxSeq (m : Nat) (es : List WEntry) : Nat := es.foldl (fun a e => max a e.seq) m

def insertDesc (x : Nat) : List Nat → List Nat
  | [] => [x]
  | y :: ys => if y ≤ x then x :: y :: ys else y :: insertDesc x ys

/-- newest first (structural, so that concrete recoveries reduce in the kernel) -/
def sortDesc (l : List Nat) : List Nat := l.foldr insertDesc []

/-- `Snapshot::load_with_validation`: the pointed file, else up to five older `*.snap` files of
    the directory, newest first (all of them when the pointed file is not in the directory). -/
def loadSnapshot (d : Disk) (name : Nat) : Option SnapFile :=
  match alookup name d.snaps with
  | some (some s) => some s
  | _ =>
    let names := (sortDesc (d.snaps.map (·.1))).eraseDups
    let older := if names.contains name then names.filter (· < name) else names
    ((older.take 5).filterMap fun n => (alookup n d.snaps).join).head?

/-- strict `recover`: documents and the largest sequence number seen -/
def recover (d : Disk) : Except RecErr (Docs × Nat) :=
  match d.manifest with
  | none => .error .noManifest
  | some m =>
    let snapR : Except RecErr (Docs × Nat) :=
      match m.snap with
      | none => .ok ([], 0)
      | some n =>
        match loadSnapshot d n with
        | some s => .ok (s.docs, s.lastSeq)
        | none => .error .snapshotUnreadable
    match snapR with
    | .error e => .error e
    | .ok (base, snapSeq) =>
      m.segs.foldl
        (fun (acc : Except RecErr (Docs × Nat)) n =>
          match acc with
          | .error e => .error e
          | .ok (docs, mx) =>
            match alookup n d.wals with
            | none => .error (.missingSegment n)
            | some w =>
              if w.badMagic then .error (.badMagic n)
              else if w.corrupted > 0 then .error (.corruptFrames n)
              else .ok (replay docs snapSeq w.entries, maxSeq mx w.entries))
        (.ok (base, snapSeq))

/-! ### The engine -/

structure PCfg where
  snapInterval : Nat
  maxWal : Nat
  cap : Nat

/-- The in-memory store as the persistence protocol sees it: the live documents (a map) and the
    number of index slots in use (tombstoned slots included), against the index capacity.
    The slot-level structure (internal ids, inverted index) is `Store/DocStore.lean`. -/
structure AStore where
  docs : Docs
  used : Nat

namespace AStore
def tombstones (s : AStore) : Nat := s.used - s.docs.length
def compact (s : AStore) : AStore := { s with used := s.docs.length }
def insert (s : AStore) (id : Nat) (v : List Nat) (m : MetaMap) : AStore :=
  { docs := aset id (v, m) s.docs, used := s.used + 1 }
def delete (s : AStore) (id : Nat) : AStore := { s with docs := aerase id s.docs }
def has (s : AStore) (id : Nat) : Bool := (alookup id s.docs).isSome
def updateMeta (s : AStore) (id : Nat) (m : MetaMap) : AStore :=
  match alookup id s.docs with
  | some (v, _) => { s with docs := aset id (v, m) s.docs }
  | none => s
end AStore

structure PEng where
  store : AStore
  nextSeq : Nat
  since : Nat                  -- inserts_since_snapshot
  active : Nat                 -- active segment
  bytes : Nat                  -- bytes_written of the active segment
  nextName : Nat               -- files created so far (names are creation indices)
  degraded : Bool := false
  cfg : PCfg

/-- `rotate_wal_if_needed` (after an append): result engine + the actions issued -/
def rotate (e : PEng) (d : Disk) : PEng × List Action :=
  if e.cfg.maxWal = 0 ∨ e.bytes < e.cfg.maxWal then (e, []) else
  match d.manifest with
  | none => (e, [])                      -- MANIFEST missing: rotation refused (error swallowed)
  | some m =>
    ({ e with active := e.nextName, bytes := 4, nextName := e.nextName + 1 },
     [.walCreate e.nextName, .manifestPut { m with segs := m.segs ++ [e.nextName] }])

/-- log one entry: append (+ rotation) -/
def logEntry (e : PEng) (d : Disk) (en : WEntry) (flen : Nat) : PEng × List Action :=
  let r := rotate { e with bytes := e.bytes + flen } (d.apply (.walAppend e.active en))
  (r.1, .walAppend e.active en :: r.2)

/-- `compact_old_wal_segments`: every non-last listed segment whose entries are all covered -/
def compactable (d : Disk) (m : Manifest) (lastSeq : Nat) : List Nat :=
  m.segs.dropLast.filter fun n =>
    match alookup n d.wals with
    | none => false
    | some w => w.corrupted = 0 && !w.badMagic &&
        w.entries.all fun en => decide (en.seq > 0 ∧ lastSeq > 0 ∧ en.seq ≤ lastSeq)

/-- segments dropped from the list although not unlinked by this run (already missing) -/
def missingSegs (d : Disk) (m : Manifest) : List Nat :=
  m.segs.dropLast.filter fun n => (alookup n d.wals).isNone

/-- `create_snapshot`: engine afterwards + the actions issued, in order -/
def snapshot (e : PEng) (d : Disk) : PEng × List Action :=
  let lastSeq := e.nextSeq - 1
  let name := e.nextName
  let a1 := Action.snapPut name ⟨lastSeq, e.store.docs⟩
  let e1 := { e with nextName := name + 1 }
  match d.manifest with
  | none => (e1, [a1])
  | some m =>
    if m.snapSeq.getD 0 > lastSeq then (e1, [a1, .unlinkSnap name])
    else
      let m1 : Manifest := { m with snap := some name, snapSeq := some lastSeq }
      let d1 := d.apply a1
      let dead := compactable d1 m1 lastSeq
      let gone := missingSegs d1 m1
      let m2 : Manifest := { m1 with segs := m1.segs.filter fun n => !(dead.contains n || gone.contains n) }
      -- (fix 89a0367) the pruned MANIFEST is made durable first, the covered files are
      -- unlinked afterwards
      ({ e1 with since := 0 }, a1 :: Action.manifestPut m1 :: Action.manifestPut m2 :: dead.map Action.unlinkWal)

def maybeSnapshot (e : PEng) (d : Disk) : PEng × List Action :=
  if e.cfg.snapInterval > 0 ∧ e.since ≥ e.cfg.snapInterval then snapshot e d else (e, [])

inductive POut | ok | full | rejected | bool (b : Bool) | count (n : Nat) | err
deriving DecidableEq, Repr

inductive Accept | yes | preflight | index
deriving DecidableEq, Repr

/-- index-full handling of `insert`: one tombstone compaction -/
def afterCompaction (s : AStore) (cap : Nat) : AStore :=
  if s.used ≥ cap ∧ s.tombstones > 0 then s.compact else s

/-- the common flow of insert / delete / metadata update: log one entry (with rotation), apply
    it to the in-memory store (`st'` = the store afterwards), count it, maybe snapshot -/
def writeFlow (e : PEng) (d : Disk) (en : WEntry) (flen : Nat) (st' : AStore) : PEng × List Action :=
  let r1 := logEntry { e with nextSeq := e.nextSeq + 1 } d en flen
  let r3 := maybeSnapshot { r1.1 with store := st', since := r1.1.since + 1 } (d.applyAll r1.2)
  (r3.1, r1.2 ++ r3.2)

/-- the flow of an insert the ANN index refuses *after* the log append: a compensating Delete
    entry is logged, memory is left alone (unreachable for validated inputs since fix d09e19e) -/
def indexRejectFlow (e : PEng) (d : Disk) (en : WEntry) (flen flenDel : Nat) : PEng × List Action :=
  let r1 := logEntry { e with nextSeq := e.nextSeq + 1 } d en flen
  let en2 : WEntry := ⟨r1.1.nextSeq, .delete, en.id, [], []⟩
  let r2 := logEntry { r1.1 with nextSeq := r1.1.nextSeq + 1 } (d.applyAll r1.2) en2 flenDel
  (r2.1, r1.2 ++ r2.2)

/-- `HnswBackend::insert` with persistence.  Returns the engine, the actions issued (the disk
    afterwards is `d.applyAll` of them) and the result. -/
def pInsert (e : PEng) (d : Disk) (id : Nat) (v : List Nat) (m : MetaMap) (acc : Accept)
    (flen flenDel : Nat) : PEng × List Action × POut :=
  if e.degraded then (e, [], .rejected) else
  if acc = .preflight then (e, [], .rejected) else
  if (afterCompaction e.store e.cfg.cap).used ≥ e.cfg.cap then
    ({ e with store := afterCompaction e.store e.cfg.cap }, [], .full) else
  if acc = .index then
    let r := indexRejectFlow { e with store := afterCompaction e.store e.cfg.cap } d
      ⟨e.nextSeq, .insert, id, v, m⟩ flen flenDel
    (r.1, r.2, .rejected)
  else
    let r := writeFlow { e with store := afterCompaction e.store e.cfg.cap } d
      ⟨e.nextSeq, .insert, id, v, m⟩ flen ((afterCompaction e.store e.cfg.cap).insert id v m)
    (r.1, r.2, .ok)

/-- `HnswBackend::delete` -/
def pDelete (e : PEng) (d : Disk) (id : Nat) (flen : Nat) : PEng × List Action × POut :=
  if e.degraded then (e, [], .err) else
  if !e.store.has id then (e, [], .bool false) else
  let r := writeFlow e d ⟨e.nextSeq, .delete, id, [], []⟩ flen (e.store.delete id)
  (r.1, r.2, .bool true)

/-- entries of a batch delete: one per occurrence, consecutive sequence numbers -/
def batchEntries (seq0 : Nat) : List Nat → List WEntry
  | [] => []
  | id :: rest => ⟨seq0, .delete, id, [], []⟩ :: batchEntries (seq0 + 1) rest

/-- flow of a batch delete over the live occurrences `occ` of the request -/
def batchFlow (e : PEng) (d : Disk) (occ : List Nat) (flen : Nat) : PEng × List Action :=
  let as1 := (batchEntries e.nextSeq occ).map (Action.walAppend e.active)
  let r2 := rotate { e with nextSeq := e.nextSeq + occ.length, bytes := e.bytes + flen * occ.length }
    (d.applyAll as1)
  let r4 := maybeSnapshot
    { r2.1 with store := occ.foldl AStore.delete r2.1.store, since := r2.1.since + occ.length }
    (d.applyAll (as1 ++ r2.2))
  (r4.1, as1 ++ r2.2 ++ r4.2)

/-- `HnswBackend::batch_delete`: one Delete entry per *occurrence* of a live id in the request,
    one rotation check after the batch -/
def pBatchDelete (e : PEng) (d : Disk) (ids : List Nat) (flen : Nat) : PEng × List Action × POut :=
  if e.degraded then (e, [], .err) else
  if (ids.filter fun id => e.store.has id).length = 0 then (e, [], .count 0) else
  let r := batchFlow e d (ids.filter fun id => e.store.has id) flen
  (r.1, r.2, .count ((ids.filter fun id => e.store.has id).eraseDups).length)

/-- `HnswBackend::update_metadata`; the entry carries the fully merged map -/
def pUpdate (e : PEng) (d : Disk) (id : Nat) (newMd : MetaMap) (flen : Nat) :
    PEng × List Action × POut :=
  if e.degraded then (e, [], .err) else
  if !e.store.has id then (e, [], .bool false) else
  let r := writeFlow e d ⟨e.nextSeq, .update, id, [], newMd⟩ flen (e.store.updateMeta id newMd)
  (r.1, r.2, .bool true)

def emptyDisk : Disk := ⟨none, [], []⟩

/-- `with_persistence` on an empty directory -/
def pInit (cfg : PCfg) : PEng × List Action :=
  ({ store := ⟨[], 0⟩, nextSeq := 1, since := 0, active := 0, bytes := 4, nextName := 1, cfg := cfg },
   [Action.walCreate 0, .manifestPut ⟨none, none, [0]⟩])

/-- restart = drop memory, strict `recover`, new active segment -/
def pRestart (cfg : PCfg) (nextName : Nat) (d : Disk) : Except RecErr (PEng × List Action) :=
  match recover d, d.manifest with
  | .error e, _ => .error e
  | .ok _, none => .error .noManifest
  | .ok (docs, mx), some m =>
    .ok ({ store := ⟨docs, docs.length⟩, nextSeq := mx + 1, since := 0, active := nextName,
           bytes := 4, nextName := nextName + 1, cfg := cfg },
         [Action.walCreate nextName, .manifestPut { m with segs := m.segs ++ [nextName] }])

end KyroModel
