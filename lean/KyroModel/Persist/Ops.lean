/-
Operation alphabet of the persistence model and histories.  Oracle inputs (acceptance verdict
of the validators, frame lengths) are part of the operation, so "for all histories"
quantifies over every value the implementation could supply.
-/
import KyroModel.Persist.Model

namespace KyroModel

inductive POp where
  | insert (id : Nat) (v : List Nat) (m : MetaMap) (acc : Accept) (flen flenDel : Nat)
  | delete (id : Nat) (flen : Nat)
  | batchDelete (ids : List Nat) (flen : Nat)
  | update (id : Nat) (newMd : MetaMap) (flen : Nat)
  | snapshot
  | restart
  /-- a write whose WAL append failed on a storage fault (after the retries and the rollback):
      it consumed `n` sequence numbers and, by C03, did nothing else -/
  | ioFailed (n : Nat)

/-- inputs for which the ANN index does not refuse a vector the validators let through
    (true of every input since fix d09e19e; the correspondence run counts violations: 0) -/
def POp.valid : POp → Prop
  | .insert _ _ _ acc _ _ => acc ≠ .index
  | _ => True

def POp.isBatch : POp → Bool
  | .batchDelete .. => true
  | _ => false

/-- one operation: engine afterwards, actions issued (in order), result -/
def pStep (e : PEng) (d : Disk) : POp → PEng × List Action × POut
  | .insert id v m acc fl fd => pInsert e d id v m acc fl fd
  | .delete id fl => pDelete e d id fl
  | .batchDelete ids fl => pBatchDelete e d ids fl
  | .update id md fl => pUpdate e d id md fl
  | .snapshot => ((snapshot e d).1, (snapshot e d).2, .ok)
  | .restart =>
    match pRestart e.cfg e.nextName d with
    | .ok (e', as) => (e', as, .ok)
    | .error _ => (e, [], .err)
  | .ioFailed n => ({ e with nextSeq := e.nextSeq + n }, [], .err)

/-- run a history from an empty data directory -/
def pRun (cfg : PCfg) (ops : List POp) : PEng × Disk :=
  ops.foldl (fun (s : PEng × Disk) op => ((pStep s.1 s.2 op).1, s.2.applyAll (pStep s.1 s.2 op).2.1))
    ((pInit cfg).1, emptyDisk.applyAll (pInit cfg).2)

end KyroModel
