/-
Backup / restore / prune (engine/src/backup.rs) on top of the persistence model: a backup is the
set of files it ships (as the logical `Disk` fragments of `Persist/Model.lean`), restore is
verification of the whole chain, the guarded clear, then overlay in chain order.  File ids are
the canonical names (creation order); wall-clock seconds and per-file "modified since the
parent's timestamp" bits are inputs.  Behaviour AFTER the fixes b28ccd9 (an incremental ships the
snapshot its MANIFEST points to unless the chain already restores it) and 7c1da7a (pruning keeps
ancestors).
-/
import KyroModel.Persist.Model

namespace KyroModel

structure Backup where
  full : Bool
  parent : Option Nat                      -- index into the list of backups
  ts : Nat
  maxWal : Option Nat
  snap : Option Nat                        -- snapshot file shipped by this archive
  manifest : Option Manifest               -- MANIFEST shipped (rewritten)
  snaps : List (Nat × Option SnapFile)
  wals : List (Nat × WalFile)
  damaged : Bool := false                  -- archive or metadata no longer verifies
  gone : Bool := false                     -- pruned

inductive BkErr
  | missingListed | missingSnapshot | nothingToBackUp | noNewWal | noManifest | notFound
  | noFull | checksum | needsConfirmation
deriving DecidableEq, Repr

def insertAsc (x : Nat) : List Nat → List Nat
  | [] => [x]
  | y :: ys => if x ≤ y then x :: y :: ys else y :: insertAsc x ys

def sortAsc (l : List Nat) : List Nat := l.foldr insertAsc []

/-- consecutive duplicates removed (`Vec::dedup`) -/
def dedupAdj : List Nat → List Nat
  | [] => []
  | [x] => [x]
  | x :: y :: rest => if x = y then dedupAdj (y :: rest) else x :: dedupAdj (y :: rest)

/-- listed segments plus discovered-but-unlisted ones, sorted by file id, deduplicated -/
def rewriteSegs (listed discovered : List Nat) : List Nat :=
  dedupAdj (sortAsc (listed ++ discovered.filter (fun n => !listed.contains n)))

def maxOpt : List Nat → Option Nat
  | [] => none
  | x :: xs => some (xs.foldl max x)

def shipWals (d : Disk) (names : List Nat) : List (Nat × WalFile) :=
  names.filterMap fun n => (alookup n d.wals).map fun w => (n, w)

def mkFull (d : Disk) (ts : Nat) (mf : Option Manifest) (segs : List Nat) (sn : Option Nat)
    (sfs : List (Nat × Option SnapFile)) : Backup :=
  { full := true, parent := none, ts := ts, maxWal := maxOpt segs, snap := sn, manifest := mf,
    snaps := sfs, wals := shipWals d segs }

/-- `create_full_backup` with a MANIFEST present -/
def fullWithManifest (d : Disk) (m : Manifest) (ts : Nat) : Except BkErr Backup :=
  if m.segs.any (fun n => !(sortAsc (akeys d.wals)).contains n) then .error .missingListed else
  match m.snap with
  | none =>
    .ok (mkFull d ts (some { m with segs := rewriteSegs m.segs (sortAsc (akeys d.wals)) })
          (rewriteSegs m.segs (sortAsc (akeys d.wals))) none [])
  | some p =>
    match alookup p d.snaps with
    | none => .error .missingSnapshot
    | some sf =>
      .ok (mkFull d ts (some { m with segs := rewriteSegs m.segs (sortAsc (akeys d.wals)) })
            (rewriteSegs m.segs (sortAsc (akeys d.wals))) (some p) [(p, sf)])

/-- `create_full_backup` -/
def fullBackup (d : Disk) (ts : Nat) : Except BkErr Backup :=
  match d.manifest with
  | none =>
    if (sortAsc (akeys d.wals)).isEmpty then .error .nothingToBackUp
    else .ok (mkFull d ts none (sortAsc (akeys d.wals)) none [])
  | some m => fullWithManifest d m ts

/-- the snapshot file the chain ending at backup `i` restores (nearest shipped one) -/
def chainSnap (bs : List Backup) : Nat → Nat → Option Nat
  | 0, _ => none
  | fuel + 1, i =>
    match bs[i]? with
    | none => none
    | some b =>
      match b.snap with
      | some s => some s
      | none =>
        match b.parent with
        | none => none
        | some p => if (bs[p]?.map (·.gone)).getD true then none else chainSnap bs fuel p

/-- segments an incremental ships: newer than the parent's newest, or that one if modified since -/
def selectSegs (par : Backup) (onDisk : List Nat) (modified : Nat → Bool) : List Nat :=
  match par.maxWal with
  | some pm => onDisk.filter fun n => n > pm || (n == pm && modified n)
  | none => onDisk.filter modified

/-- the snapshot an incremental ships (fix b28ccd9): the pointed one, unless the chain ending at
    the parent already restores that very file -/
def shipSnapshot (bs : List Backup) (d : Disk) (m : Manifest) (pi : Nat) :
    Except BkErr (Option Nat × List (Nat × Option SnapFile)) :=
  match m.snap with
  | none => .ok (none, [])
  | some p =>
    if chainSnap bs (bs.length + 1) pi = some p then .ok (none, [])
    else match alookup p d.snaps with
      | none => .error .missingSnapshot
      | some sf => .ok (some p, [(p, sf)])

def mkIncr (d : Disk) (m : Manifest) (pi ts : Nat) (sel : List Nat) (sn : Option Nat)
    (sfs : List (Nat × Option SnapFile)) : Backup :=
  { full := false, parent := some pi, ts := ts, maxWal := maxOpt sel, snap := sn,
    manifest := some { m with segs := rewriteSegs m.segs sel }, snaps := sfs, wals := shipWals d sel }

def incrWithParent (bs : List Backup) (d : Disk) (par : Backup) (pi : Nat) (modified : Nat → Bool)
    (ts : Nat) : Except BkErr Backup :=
  if par.gone then .error .notFound
  else if (selectSegs par (sortAsc (akeys d.wals)) modified).isEmpty then .error .noNewWal
  else match d.manifest with
    | none => .error .noManifest
    | some m =>
      match shipSnapshot bs d m pi with
      | .error e => .error e
      | .ok r => .ok (mkIncr d m pi ts (selectSegs par (sortAsc (akeys d.wals)) modified) r.1 r.2)

/-- `create_incremental_backup`; `modified n` = the segment's mtime is not before the parent's
    timestamp -/
def incrBackup (bs : List Backup) (d : Disk) (pi : Nat) (modified : Nat → Bool) (ts : Nat) :
    Except BkErr Backup :=
  match bs[pi]? with
  | none => .error .notFound
  | some par => incrWithParent bs d par pi modified ts

/-- `restore_from_backup`: indices of the chain, full backup first -/
def chainOf (bs : List Backup) : Nat → Nat → List Nat → Except BkErr (List Nat)
  | 0, _, _ => .error .noFull
  | fuel + 1, i, acc =>
    match bs[i]? with
    | none => .error .notFound
    | some b =>
      if b.gone then .error .notFound
      else if b.full then .ok (i :: acc)
      else match b.parent with
        | none => .error .noFull
        | some p => chainOf bs fuel p (i :: acc)

/-- overlay one archive on a directory (later members overwrite same names) -/
def overlay (t : Disk) (b : Backup) : Disk :=
  { manifest := match b.manifest with | some m => some m | none => t.manifest,
    snaps := b.snaps.foldl (fun acc (n, s) => aset n s acc) t.snaps,
    wals := b.wals.foldl (fun acc (n, w) => aset n w acc) t.wals }

/-- verification of every archive, then the guarded clear, then extraction in chain order.
    `targetFiles` = number of files in the target before; result = the restored directory, or
    the error with the target untouched. -/
def restoreChain (bs : List Backup) (chain : List Nat) (targetNonEmpty allowClear : Bool) :
    Except BkErr Disk :=
  if chain.any (fun i => (bs[i]?.map fun b => b.damaged || b.gone).getD true) then .error .checksum
  else if targetNonEmpty && !allowClear then .error .needsConfirmation
  else .ok (chain.foldl (fun t i => match bs[i]? with | some b => overlay t b | none => t) emptyDisk)

def restoreBackup (bs : List Backup) (i : Nat) (targetNonEmpty allowClear : Bool) : Except BkErr Disk :=
  match chainOf bs (bs.length + 1) i [] with
  | .error e => .error e
  | .ok chain => restoreChain bs chain targetNonEmpty allowClear

/-! ### point-in-time restore -/

/-- index with the largest timestamp among `cands` (none if empty) -/
def newestOf (bs : List Backup) (cands : List Nat) : Option Nat :=
  cands.foldl (fun best i =>
    match best with
    | none => some i
    | some j => if ((bs[j]?.map (·.ts)).getD 0) < ((bs[i]?.map (·.ts)).getD 0) then some i else some j) none

def presentIdx (bs : List Backup) : List Nat :=
  (List.range bs.length).filter fun i => (bs[i]?.map fun b => !b.gone).getD false

/-- incrementals hanging off `cur`, newest first, not after `t` -/
def pitrFollow (bs : List Backup) (t : Nat) : Nat → Nat → List Nat
  | 0, _ => []
  | fuel + 1, cur =>
    match newestOf bs ((presentIdx bs).filter fun i =>
        (bs[i]?.map fun b => !b.full && b.parent == some cur && b.ts ≤ t).getD false) with
    | none => []
    | some nx => nx :: pitrFollow bs t fuel nx

/-- `restore_point_in_time`: newest full backup not after `t`, then its chain of incrementals -/
def pitrChain (bs : List Backup) (t : Nat) : Except BkErr (List Nat) :=
  match newestOf bs ((presentIdx bs).filter fun i => (bs[i]?.map fun b => b.full && b.ts ≤ t).getD false) with
  | none => .error .noFull
  | some f => .ok (f :: pitrFollow bs t (bs.length + 1) f)

/-- two candidates of a PITR choice share the maximal timestamp (directory order decides) -/
def pitrAmbiguous (bs : List Backup) (t : Nat) : Bool :=
  let tsOf := fun i => (bs[i]?.map (·.ts)).getD 0
  let clash := fun (cands : List Nat) =>
    match newestOf bs cands with
    | none => false
    | some w => cands.any fun i => i != w && tsOf i == tsOf w
  clash ((presentIdx bs).filter fun i => (bs[i]?.map fun b => b.full && b.ts ≤ t).getD false) ||
  (match pitrChain bs t with
   | .ok chain => chain.any fun cur =>
       clash ((presentIdx bs).filter fun i =>
         (bs[i]?.map fun b => !b.full && b.parent == some cur && b.ts ≤ t).getD false)
   | .error _ => false)

/-! ### retention -/

structure Policy where
  hourly : Nat
  daily : Nat
  weekly : Nat
  monthly : Nat
  minAgeDays : Nat

/-- (kind, bucket number) of a backup, or none when it is past every horizon -/
def bucketOf (p : Policy) (now ts : Nat) : Option (Nat × Nat) :=
  let age := now - ts
  if age < p.hourly * 3600 then some (0, ts / 3600)
  else if age < p.daily * 86400 then some (1, ts / 86400)
  else if age < p.weekly * 604800 then some (2, ts / 604800)
  else if age < p.monthly * 2592000 then some (3, ts / 2592000)
  else none

/-- indices present (not pruned before) -/
def present (bs : List Backup) : List Nat :=
  (List.range bs.length).filter fun i => (bs[i]?.map fun b => !b.gone).getD false

/-- newest backup of its bucket (ties on the timestamp are left to the caller: `amb`) -/
def bucketWinner (bs : List Backup) (p : Policy) (now : Nat) (i : Nat) : Bool :=
  match bs[i]? with
  | none => false
  | some b =>
    match bucketOf p now b.ts with
    | none => false
    | some k =>
      (present bs).all fun j =>
        match bs[j]? with
        | none => true
        | some c => bucketOf p now c.ts != some k || c.ts ≤ b.ts

/-- what stays before ancestors are added: bucket winners and backups younger than the minimum age -/
def retained0 (bs : List Backup) (p : Policy) (now : Nat) : List Nat :=
  (present bs).filter fun i =>
    bucketWinner bs p now i ||
      (bs[i]?.map fun b => decide (now - b.ts < p.minAgeDays * 86400)).getD false

/-- `i` and its ancestors -/
def chainUp (bs : List Backup) : Nat → Nat → List Nat
  | 0, _ => []
  | fuel + 1, i =>
    i :: match bs[i]? with
      | none => []
      | some b => match b.parent with
        | none => []
        | some p => chainUp bs fuel p

/-- the backups `prune_backups` keeps -/
def keptAfterPrune (bs : List Backup) (p : Policy) (now : Nat) : List Nat :=
  (present bs).filter fun i => (retained0 bs p now).any fun r => (chainUp bs (r + 1) r).contains i

def prunedBy (bs : List Backup) (p : Policy) (now : Nat) : List Nat :=
  (present bs).filter fun i => !(keptAfterPrune bs p now).contains i

def markGone (bs : List Backup) (del : List Nat) : List Backup :=
  bs.zipIdx.map fun (b, i) => if del.contains i then { b with gone := true } else b

end KyroModel
