/-
The periodic-fsync protocol (C01, last clause): which acknowledged operations a power failure can
take away under `FsyncPolicy::Periodic`, with log rotation and clean restarts.

State = the acknowledged frame-producing operations in order (`log`, with acknowledgement times)
cut into WAL segments, each with the number of leading frames known to be on disk.  A power
failure keeps, per segment, its synced frames plus any prefix of the un-synced tail.

* an append syncs the active segment only when the writer's own interval has elapsed
  (`WalWriter::perform_fsync`), the server's timer syncs the active segment at every tick
  (`sync_wal`), a new segment's writer starts its interval at creation;
* `fix = true`: a segment is synced when it stops being the active one (rotation, start-up
  replay) — the behaviour since repo commit c353f41; `fix = false` is the behaviour before it.
-/
import KyroModel.Base.Assoc

namespace KyroModel.Periodic
open KyroModel

inductive WOp
  | ins (id x : Nat)
  | del (id : Nat)
  deriving DecidableEq, Repr

abbrev Docs := List (Nat × Nat)

def applyW (d : Docs) : WOp → Docs
  | .ins id x => aset id x d
  | .del id => aerase id d

def fold (ops : List WOp) : Docs := ops.foldl applyW []

structure Seg where
  len : Nat
  synced : Nat
  lastFsync : Nat
  deriving Repr

structure St where
  iv : Nat
  rot : Bool
  fix : Bool
  now : Nat := 0
  old : List Seg := []
  act : Seg := ⟨0, 0, 0⟩
  /-- acknowledged frame-producing operations with their acknowledgement time, oldest first -/
  log : List (Nat × WOp) := []
  /-- ghost: time of the timer's last `sync_wal`, and how much of `log` existed then -/
  lastTick : Nat := 0
  coveredAtTick : Nat := 0

def fullSync (g : Seg) : Seg := { g with synced := g.len }

/-- the active segment is retired and a fresh writer starts (its interval counts from now) -/
def retire (s : St) : St :=
  { s with old := (if s.fix then s.old.map fullSync else s.old) ++ [if s.fix then fullSync s.act else s.act],
           act := ⟨0, 0, s.now⟩ }

def append (s : St) (w : WOp) : St :=
  let a : Seg := { s.act with len := s.act.len + 1 }
  let a : Seg := if s.iv = 0 ∨ s.iv ≤ s.now - a.lastFsync then { a with synced := a.len, lastFsync := s.now } else a
  let s' : St := { s with act := a, log := s.log ++ [(s.now, w)] }
  if s.rot then retire s' else s'

def live (s : St) : Docs := fold (s.log.map (·.2))

inductive Ev
  | ins (id x : Nat)
  | del (id : Nat)
  | advance (ms : Nat)
  | tick
  | restart
  deriving Repr

def step (s : St) : Ev → St
  | .ins id x => append s (.ins id x)
  | .del id => if (alookup id (live s)).isSome then append s (.del id) else s
  | .advance ms => { s with now := s.now + ms }
  | .tick => { s with act := fullSync s.act, lastTick := s.now, coveredAtTick := s.log.length }
  | .restart => retire s

def run (s : St) (evs : List Ev) : St := evs.foldl step s

/-- frames kept by a power failure: per segment the first `k` frames, `synced ≤ k ≤ len` -/
def kept : List Seg → List Nat → List WOp → List WOp
  | g :: gs, k :: ks, log => (log.take g.len).take k ++ kept gs ks (log.drop g.len)
  | _, _, _ => []

/-- admissible choices: one count per segment between what is synced and what was written -/
def Admissible : List Seg → List Nat → Prop
  | g :: gs, k :: ks => g.synced ≤ k ∧ k ≤ g.len ∧ Admissible gs ks
  | [], [] => True
  | _, _ => False

def segs (s : St) : List Seg := s.old ++ [s.act]

/-- every choice (executable, for the driver and the witnesses) -/
def choices : List Seg → List (List Nat)
  | [] => [[]]
  | g :: gs => ((List.range (g.len + 1)).filter (g.synced ≤ ·)).flatMap fun k => (choices gs).map (k :: ·)

def outcomes (s : St) : List Docs := (choices (segs s)).map fun ks => fold (kept (segs s) ks (s.log.map (·.2)))

end KyroModel.Periodic
