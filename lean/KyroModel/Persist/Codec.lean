/-
Byte level of a WAL segment (engine/src/persistence.rs `WalWriter::write_entry`,
`WalReader::{open, read_all}`):  magic(4) · [ len:u32le · payload · crc32(payload):u32le ]*.
Bytes are `Nat`s below 256.  The checksum is a parameter (`crc`); the driver instantiates it with
CRC-32/IEEE (`crc32`, below) for the correspondence run against the real reader.
-/
namespace KyroModel.Codec

abbrev Bytes := List Nat

def le32 (n : Nat) : Bytes := [n % 256, n / 256 % 256, n / 65536 % 256, n / 16777216 % 256]

def rd32 : Bytes → Nat
  | [a, b, c, d] => a + 256 * b + 65536 * c + 16777216 * d
  | _ => 0

/-- `MAX_WAL_ENTRY_BYTES` -/
def maxEntry : Nat := 104857600

/-- `WAL_MAGIC = 0x57414C00`, little endian -/
def magic : Bytes := [0x00, 0x4C, 0x41, 0x57]

structure Scan where
  payloads : List Bytes      -- frames whose checksum matches, in file order
  corrupted : Nat            -- frames counted as corrupted
deriving Repr, DecidableEq

def scanFrame (crc : Bytes → Nat) (p : Bytes) (c : Nat) (r : Scan) : Scan :=
  if c = crc p then ⟨p :: r.payloads, r.corrupted⟩ else ⟨r.payloads, r.corrupted + 1⟩

/-- `WalReader::read_all` on the bytes after the magic (fuel: one unit per frame) -/
def scan (crc : Bytes → Nat) : Nat → Bytes → Scan
  | 0, _ => ⟨[], 0⟩
  | fuel + 1, bs =>
    if bs.length < 4 then ⟨[], 0⟩                                     -- EOF at the length field
    else if rd32 (bs.take 4) = 0 ∨ rd32 (bs.take 4) > maxEntry then ⟨[], 1⟩   -- invalid size: stop
    else if bs.length < 4 + rd32 (bs.take 4) + 4 then ⟨[], 0⟩         -- EOF in payload / checksum
    else scanFrame crc ((bs.drop 4).take (rd32 (bs.take 4)))
           (rd32 ((bs.drop (4 + rd32 (bs.take 4))).take 4))
           (scan crc fuel (bs.drop (4 + rd32 (bs.take 4) + 4)))

/-- `WalReader::open` + `read_all`: `none` = open fails (short file or wrong magic) -/
def readFile (crc : Bytes → Nat) (file : Bytes) : Option Scan :=
  if file.length < 4 then none
  else if file.take 4 = magic then some (scan crc file.length (file.drop 4))
  else none

def frame (crc : Bytes → Nat) (p : Bytes) : Bytes := le32 p.length ++ p ++ le32 (crc p)

def encode (crc : Bytes → Nat) (ps : List Bytes) : Bytes := ps.flatMap (frame crc)

def encodeFile (crc : Bytes → Nat) (ps : List Bytes) : Bytes := magic ++ encode crc ps

/-! ### CRC-32/IEEE (reflected, poly 0xEDB88320), bitwise — used by the driver only -/

def crcBit (c : Nat) : Nat := if c % 2 = 1 then (c / 2) ^^^ 0xEDB88320 else c / 2

def crcByte (c b : Nat) : Nat :=
  crcBit (crcBit (crcBit (crcBit (crcBit (crcBit (crcBit (crcBit (c ^^^ b))))))))

def crc32 (bs : Bytes) : Nat := (bs.foldl crcByte 0xFFFFFFFF) ^^^ 0xFFFFFFFF

end KyroModel.Codec
