/-
Abstract lock system at the granularity the controlled scheduler works at (harness/src/sched.rs):
mutexes and reader/writer locks with writer preference, upgradable reads and upgrades.  A state
records, per thread, the locks it holds and the request it is waiting on (if any).  Threads that
are not waiting can take a step; a DEADLOCK is a state in which some thread is unfinished and
every unfinished thread waits on a request that cannot be granted.

`no_deadlock_of_ranked`: if the locks carry a rank such that every waiting thread holds only
locks of rank strictly below the one it requests (an upgrade excepted: it holds that very lock as
an upgradable read), no state is a deadlock — for any number of threads and locks.
-/
namespace KyroModel.Conc

inductive Mode | sh | ex | ug
deriving DecidableEq, Repr

inductive Req | sh | ex | ug | up
deriving DecidableEq, Repr

structure Th where
  held : List (Nat × Mode)
  want : Option (Nat × Req)
deriving Repr

def holds (t : Th) (l : Nat) : Bool := t.held.any (·.1 == l)
def holdsMode (t : Th) (l : Nat) (m : Mode) : Bool := t.held.any (fun p => p.1 == l && p.2 == m)

/-- some thread other than `i` holds `l` (in any mode) -/
def otherHolds (ths : List Th) (i l : Nat) : Bool :=
  ths.zipIdx.any fun (t, j) => j != i && holds t l

def otherHoldsMode (ths : List Th) (i l : Nat) (m : Mode) : Bool :=
  ths.zipIdx.any fun (t, j) => j != i && holdsMode t l m

/-- a writer (exclusive request) other than `i` waits on `l` -/
def writerWaits (ths : List Th) (i l : Nat) : Bool :=
  ths.zipIdx.any fun (t, j) => j != i && (t.want == some (l, .ex) || t.want == some (l, .up))

/-- can the request of thread `i` be granted now? -/
def grantable (ths : List Th) (i : Nat) : Bool :=
  match ths[i]? with
  | none => false
  | some t =>
    match t.want with
    | none => true
    | some (l, .ex) => !otherHolds ths i l
    | some (l, .ug) => !otherHoldsMode ths i l .ex && !otherHoldsMode ths i l .ug
    | some (l, .up) => !otherHoldsMode ths i l .sh
    | some (l, .sh) =>
      -- no exclusive holder; writer preference: not while a writer waits behind current holders
      !otherHoldsMode ths i l .ex && !(writerWaits ths i l && (otherHolds ths i l || holds t l))

def finished (t : Th) : Bool := t.held.isEmpty && t.want.isNone

/-- some thread is unfinished and every unfinished thread is waiting on a request that cannot be
    granted -/
def Deadlock (ths : List Th) : Prop :=
  (∃ t ∈ ths, finished t = false) ∧
  ∀ (i : Nat) (t : Th), ths[i]? = some t → finished t = false → t.want.isSome ∧ grantable ths i = false

/-- the rank discipline on a waiting thread -/
def RankedTh (rank : Nat → Nat) (t : Th) : Prop :=
  match t.want with
  | none => True
  | some (l, .up) => holdsMode t l .ug = true ∧ ∀ p ∈ t.held, p.1 ≠ l → rank p.1 < rank l
  | some (l, _) => ∀ p ∈ t.held, rank p.1 < rank l

def Ranked (rank : Nat → Nat) (ths : List Th) : Prop := ∀ t ∈ ths, RankedTh rank t

/-- well-formedness the lock semantics maintains: a lock held upgradable by one thread is not held
    upgradable or exclusive by another; a thread holding a lock shared does not also hold it
    upgradable -/
def Wf (ths : List Th) : Prop :=
  ∀ (i j : Nat) (ti tj : Th) (l : Nat), ths[i]? = some ti → ths[j]? = some tj → i ≠ j →
    holdsMode ti l .ug = true → holdsMode tj l .ug = false

theorem otherHolds_spec (ths : List Th) (i l : Nat) (h : otherHolds ths i l = true) :
    ∃ j t, ths[j]? = some t ∧ j ≠ i ∧ holds t l = true := by
  simp only [otherHolds, List.any_eq_true, Bool.and_eq_true, bne_iff_ne, ne_eq] at h
  obtain ⟨⟨t, j⟩, hm, hj, hh⟩ := h
  exact ⟨j, t, (List.mem_zipIdx_iff_getElem?.mp hm), hj, hh⟩

theorem otherHoldsMode_spec (ths : List Th) (i l : Nat) (m : Mode)
    (h : otherHoldsMode ths i l m = true) :
    ∃ j t, ths[j]? = some t ∧ j ≠ i ∧ holdsMode t l m = true := by
  simp only [otherHoldsMode, List.any_eq_true, Bool.and_eq_true, bne_iff_ne, ne_eq] at h
  obtain ⟨⟨t, j⟩, hm, hj, hh⟩ := h
  exact ⟨j, t, (List.mem_zipIdx_iff_getElem?.mp hm), hj, hh⟩

theorem holds_of_holdsMode (t : Th) (l : Nat) (m : Mode) (h : holdsMode t l m = true) :
    holds t l = true := by
  simp only [holdsMode, holds, List.any_eq_true, Bool.and_eq_true] at *
  obtain ⟨p, hp, h1, _⟩ := h
  exact ⟨p, hp, h1⟩

theorem holds_mem (t : Th) (l : Nat) (h : holds t l = true) : ∃ p ∈ t.held, p.1 = l := by
  simp only [holds, List.any_eq_true, beq_iff_eq] at h
  exact h

/-- the lock a waiting thread requests -/
def wantLock (t : Th) : Option Nat := t.want.map (·.1)

/-- **A blocked request is blocked by another thread that holds the requested lock** (directly,
    or — for a reader — through a waiting writer, which changes nothing: the holder exists), or
    the requester re-enters a lock it holds itself. -/
theorem blocked_has_holder (ths : List Th) (i : Nat) (t : Th) (l : Nat) (r : Req)
    (ht : ths[i]? = some t) (hw : t.want = some (l, r)) (hb : grantable ths i = false) :
    (∃ j u, ths[j]? = some u ∧ j ≠ i ∧ holds u l = true) ∨ (r = .sh ∧ holds t l = true) := by
  unfold grantable at hb
  simp only [ht, hw] at hb
  cases r with
  | ex =>
    simp only [Bool.not_eq_false'] at hb
    exact Or.inl (otherHolds_spec ths i l hb)
  | ug =>
    simp only [Bool.and_eq_false_iff, Bool.not_eq_false'] at hb
    rcases hb with hb | hb
    · obtain ⟨j, u, h1, h2, h3⟩ := otherHoldsMode_spec ths i l _ hb
      exact Or.inl ⟨j, u, h1, h2, holds_of_holdsMode u l _ h3⟩
    · obtain ⟨j, u, h1, h2, h3⟩ := otherHoldsMode_spec ths i l _ hb
      exact Or.inl ⟨j, u, h1, h2, holds_of_holdsMode u l _ h3⟩
  | up =>
    simp only [Bool.not_eq_false'] at hb
    obtain ⟨j, u, h1, h2, h3⟩ := otherHoldsMode_spec ths i l _ hb
    exact Or.inl ⟨j, u, h1, h2, holds_of_holdsMode u l _ h3⟩
  | sh =>
    simp only [Bool.and_eq_false_iff, Bool.not_eq_false', Bool.and_eq_true, Bool.or_eq_true] at hb
    rcases hb with hb | ⟨_, hb | hb⟩
    · obtain ⟨j, u, h1, h2, h3⟩ := otherHoldsMode_spec ths i l _ hb
      exact Or.inl ⟨j, u, h1, h2, holds_of_holdsMode u l _ h3⟩
    · exact Or.inl (otherHolds_spec ths i l hb)
    · exact Or.inr ⟨rfl, hb⟩

/-- a maximal element of a non-empty list under a measure -/
theorem exists_max {α : Type} (l : List α) (f : α → Nat) (hne : l ≠ []) :
    ∃ x ∈ l, ∀ y ∈ l, f y ≤ f x := by
  induction l with
  | nil => exact (hne rfl).elim
  | cons a rest ih =>
    by_cases hr : rest = []
    · subst hr
      exact ⟨a, List.mem_cons_self .., by intro y hy; simp at hy; rw [hy]; exact Nat.le_refl _⟩
    · obtain ⟨x, hx, hmax⟩ := ih hr
      by_cases hax : f x ≤ f a
      · refine ⟨a, List.mem_cons_self .., ?_⟩
        intro y hy
        rcases List.mem_cons.mp hy with rfl | hy
        · exact Nat.le_refl _
        · exact Nat.le_trans (hmax y hy) hax
      · refine ⟨x, List.mem_cons_of_mem _ hx, ?_⟩
        intro y hy
        rcases List.mem_cons.mp hy with rfl | hy
        · omega
        · exact hmax y hy

/-- **No deadlock under a rank discipline**, for any number of threads and locks. -/
theorem no_deadlock_of_ranked (rank : Nat → Nat) (ths : List Th) (hr : Ranked rank ths)
    (hwf : Wf ths) : ¬ Deadlock ths := by
  rintro ⟨⟨t0, ht0, hunf0⟩, hall⟩
  -- the waiting threads, with their indices
  let waiting := ths.zipIdx.filter fun (t, _) => finished t = false
  have hne : waiting ≠ [] := by
    obtain ⟨i, hi, hget⟩ := List.getElem_of_mem ht0
    have : (t0, i) ∈ ths.zipIdx := List.mem_zipIdx_iff_getElem?.mpr (by simp [hi, hget])
    intro he
    have hm : (t0, i) ∈ waiting := List.mem_filter.mpr ⟨this, by simpa using hunf0⟩
    rw [he] at hm
    cases hm
  -- pick the one requesting the lock of greatest rank
  obtain ⟨⟨t, i⟩, hmem, hmax⟩ :=
    exists_max waiting (fun p => ((wantLock p.1).map rank).getD 0) hne
  have hti : ths[i]? = some t := List.mem_zipIdx_iff_getElem?.mp (List.mem_filter.mp hmem).1
  have hunf : finished t = false := by simpa using (List.mem_filter.mp hmem).2
  obtain ⟨hwant, hblocked⟩ := hall i t hti hunf
  obtain ⟨⟨l, r⟩, hw⟩ := Option.isSome_iff_exists.mp hwant
  have hrt : RankedTh rank t := hr t (List.mem_of_getElem? hti)
  -- every other unfinished thread requests a lock of rank at most rank l
  have hle : ∀ (j : Nat) (u : Th), ths[j]? = some u → finished u = false → ∀ l' r', u.want = some (l', r') →
      rank l' ≤ rank l := by
    intro j u hj hu l' r' hwu
    have hm : (u, j) ∈ waiting :=
      List.mem_filter.mpr ⟨List.mem_zipIdx_iff_getElem?.mpr hj, by simpa using hu⟩
    have := hmax (u, j) hm
    simpa [wantLock, hw, hwu] using this
  -- a thread other than `t` holding `l` is unfinished, waits, and requests a lock ranked above `l`
  -- (or upgrades `l` itself)
  have key : ∀ (j : Nat) (u : Th), ths[j]? = some u → j ≠ i → holds u l = true → False := by
    intro j u hj hji hhu
    obtain ⟨p, hp, hpl⟩ := holds_mem u l hhu
    have hunfu : finished u = false := by
      simp only [finished, Bool.and_eq_false_iff, List.isEmpty_eq_false_iff]
      exact Or.inl (List.ne_nil_of_mem hp)
    obtain ⟨hwu, hbu⟩ := hall j u hj hunfu
    obtain ⟨⟨l', r'⟩, hwu'⟩ := Option.isSome_iff_exists.mp hwu
    have hru : RankedTh rank u := hr u (List.mem_of_getElem? hj)
    have hle' := hle j u hj hunfu l' r' hwu'
    unfold RankedTh at hru
    rw [hwu'] at hru
    cases r' with
    | sh => have := hru p hp; rw [hpl] at this; omega
    | ex => have := hru p hp; rw [hpl] at this; omega
    | ug => have := hru p hp; rw [hpl] at this; omega
    | up =>
      -- `u` upgrades l': either l' ≠ l (then rank l < rank l'), or u holds l upgradable and is
      -- blocked by a shared holder of l, who in turn requests something ranked above l
      by_cases hll : l' = l
      · subst hll
        obtain ⟨hug, _⟩ := hru
        rcases blocked_has_holder ths j u l' .up hj hwu' hbu with ⟨k, v, hk, hkj, hhv⟩ | ⟨h, _⟩
        · -- v holds l' ; it is blocked too and requests rank > rank l'
          obtain ⟨q, hq, hql⟩ := holds_mem v l' hhv
          have hunfv : finished v = false := by
            simp only [finished, Bool.and_eq_false_iff, List.isEmpty_eq_false_iff]
            exact Or.inl (List.ne_nil_of_mem hq)
          obtain ⟨hwv, _⟩ := hall k v hk hunfv
          obtain ⟨⟨l'', r''⟩, hwv'⟩ := Option.isSome_iff_exists.mp hwv
          have hrv : RankedTh rank v := hr v (List.mem_of_getElem? hk)
          have hlev := hle k v hk hunfv l'' r'' hwv'
          unfold RankedTh at hrv
          rw [hwv'] at hrv
          cases r'' with
          | sh => have := hrv q hq; rw [hql] at this; omega
          | ex => have := hrv q hq; rw [hql] at this; omega
          | ug => have := hrv q hq; rw [hql] at this; omega
          | up =>
            by_cases hl3 : l'' = l'
            · subst hl3
              -- two threads hold l' upgradable: excluded by well-formedness
              have := hwf j k u v l'' hj hk (fun e => hkj e.symm) hug
              rw [hrv.1] at this
              cases this
            · have := hrv.2 q hq (by rw [hql]; exact fun e => hl3 e.symm)
              rw [hql] at this
              omega
        · cases h
      · have := hru.2 p hp (by rw [hpl]; exact fun e => hll e.symm)
        rw [hpl] at this
        omega
  rcases blocked_has_holder ths i t l r hti hw hblocked with ⟨j, u, hj, hji, hhu⟩ | ⟨hsh, hself⟩
  · exact key j u hj hji hhu
  · -- re-entrant shared request: forbidden by the discipline (rank l < rank l)
    subst hsh
    obtain ⟨p, hp, hpl⟩ := holds_mem t l hself
    unfold RankedTh at hrt
    rw [hw] at hrt
    have := hrt p hp
    rw [hpl] at this
    omega

end KyroModel.Conc
